"""Running TLC: exhaustive configs, simulation, and batched trace validation.

Everything here is plumbing; no property logic lives in this file.
"""
import atexit
import concurrent.futures as cf
import json
import os
import re
import shutil
import subprocess
import sys
import time

VERIF = os.path.dirname(os.path.dirname(os.path.abspath(__file__)))
SPEC = os.path.join(VERIF, "spec")
BUILD = os.path.join(VERIF, ".build")
JAR = "/opt/veriftools/tla/tla2tools.jar"
CM = "/opt/veriftools/tla/CommunityModules-deps.jar"
NCPU = int(os.environ.get("FA_NPROC", "0")) or os.cpu_count() or 4

_workdir = None


class MachineryError(Exception):
    """TLC crashed / output could not be interpreted: exit code 2, never a VIOLATION."""


def workdir():
    global _workdir
    if _workdir is None:
        _workdir = os.path.join(VERIF, ".work", str(os.getpid()))
        os.makedirs(_workdir, exist_ok=True)
        atexit.register(lambda: shutil.rmtree(_workdir, ignore_errors=True))
    return _workdir


def overrides_available():
    if os.environ.get("FA_VERIF_NO_OVERRIDES") == "1":
        return False
    return os.path.exists(os.path.join(BUILD, "java", "FAOverrides.class"))


def ensure_overrides():
    """Compile the Java accelerator if it is missing (setup_cmd normally does this)."""
    if os.environ.get("FA_VERIF_NO_OVERRIDES") == "1":
        return False
    out = os.path.join(BUILD, "java")
    cls = os.path.join(out, "FAOverrides.class")
    srcs = [os.path.join(VERIF, "java", f) for f in os.listdir(os.path.join(VERIF, "java")) if f.endswith(".java")]
    if os.path.exists(cls) and all(os.path.getmtime(cls) >= os.path.getmtime(s) for s in srcs):
        return True
    os.makedirs(out, exist_ok=True)
    r = subprocess.run(["javac", "-cp", JAR, "-d", out] + srcs, capture_output=True, text=True)
    return r.returncode == 0 and os.path.exists(cls)


def java_cmd(overrides=True, heap="2g", dfs=False, library=None):
    cmd = ["java", "-XX:+UseParallelGC", "-Xmx" + heap, "-Xss16m"]
    if library:
        cmd.append("-DTLA-Library=" + library)
    cp = [JAR, CM]
    if overrides and overrides_available():
        cmd.append("-Dtlc2.overrides.TLCOverrides=tlc2.overrides.TLCOverrides:FAOverrides")
        cp.append(os.path.join(BUILD, "java"))
    if dfs:
        cmd.append("-Dtlc2.tool.queue.IStateQueue=StateDeque")
    cmd += ["-cp", ":".join(cp), "tlc2.TLC"]
    return cmd


class TLCResult:
    def __init__(self, out, rc, wall):
        self.out = out
        self.rc = rc
        self.wall = wall
        m = re.search(r"(\d+) states generated, (\d+) distinct states found", out)
        self.generated = int(m.group(1)) if m else 0
        self.distinct = int(m.group(2)) if m else 0
        m = re.search(r"The depth of the complete state graph search is (\d+)", out)
        self.depth = int(m.group(1)) if m else 0
        self.invariant_violated = re.findall(r"Invariant (\S+) is violated", out)
        self.action_property_violated = re.findall(r"Action property (\S+) is violated", out)
        self.finished = "Model checking completed. No error has been found." in out
        self.deadlock = "Deadlock reached" in out
        self.postcondition_failed = "POSTCONDITION" in out and "violated" in out or "Evaluating assumption PostCondition failed" in out

    @property
    def ok(self):
        return self.finished and self.rc == 0

    def printed(self):
        """Values printed by PrintT, one per line as TLC prints them."""
        return [l for l in self.out.splitlines() if l.startswith("<<") or l.startswith("[") or l.startswith('"')]

    def error_trace(self):
        i = self.out.find("Error: The behavior up to this point is:")
        if i < 0:
            i = self.out.find("Error:")
        return self.out[i:i + 6000] if i >= 0 else ""

    def coverage(self):
        """{action name: (distinct, generated)} from -coverage output."""
        cov = {}
        for m in re.finditer(r"<(\w+) line \d+, col \d+ to line \d+, col \d+ of module (\w+)>: (\d+):(\d+)", self.out):
            cov[m.group(1)] = (int(m.group(3)), int(m.group(4)))
        return cov


def run(module, cfg=None, *, workers=None, env=None, extra=(), timeout=3600, overrides=True,
        heap="4g", deadlock=False, dfs=False, cwd=None, tag=None, library=None):
    """Run TLC on spec/<module>.tla with spec/<cfg>. Returns TLCResult."""
    wd = workdir()
    tag = tag or module
    meta = os.path.join(wd, "meta_%s_%d" % (tag, time.time_ns() % 10**9))
    cmd = java_cmd(overrides, heap, dfs, library)
    cmd += ["-metadir", meta, "-noGenerateSpecTE", "-workers", str(workers or NCPU)]
    if not deadlock:
        cmd += ["-deadlock"]
    if cfg:
        cmd += ["-config", cfg]
    cmd += list(extra) + [module]
    e = dict(os.environ)
    e.pop("JAVA_TOOL_OPTIONS", None)
    if env:
        e.update({k: str(v) for k, v in env.items()})
    t0 = time.time()
    try:
        p = subprocess.run(cmd, cwd=cwd or SPEC, env=e, capture_output=True, text=True, timeout=timeout)
        out, rc = p.stdout + p.stderr, p.returncode
    except subprocess.TimeoutExpired as ex:
        out = (ex.stdout or b"").decode("utf8", "replace") if isinstance(ex.stdout, bytes) else (ex.stdout or "")
        out += "\nTIMEOUT"
        rc = -9
    shutil.rmtree(meta, ignore_errors=True)
    return TLCResult(out, rc, time.time() - t0)


FAIL_RE = re.compile(r'^<<\s*"FAIL",\s*(-?\d+),\s*(\{.*\})\s*>>\s*$')
NOTE_RE = re.compile(r'^<<\s*"NOTE",\s*(-?\d+),\s*(.*?)\s*>>\s*$')
DONE_RE = re.compile(r'^<<\s*"DONE",\s*(\d+)\s*>>\s*$')


def _parse_set(s):
    return sorted(re.findall(r'"([^"]*)"', s))


def printed_blocks(out):
    """TLC starts every printed value at column 0 and indents the continuation lines of a value
    it wraps (values wider than 80 columns are pretty-printed over several lines).  Yield each
    printed value that starts with << as ONE line."""
    cur = None
    for line in out.splitlines():
        if line[:1] in (" ", "\t"):
            if cur is not None:
                cur.append(line.strip())
            continue
        if cur is not None:
            yield " ".join(cur)
        cur = [line.rstrip()] if line.startswith("<<") else None
    if cur is not None:
        yield " ".join(cur)


def _validate_chunk(args):
    module, cfg, path, n, env, overrides, timeout = args
    e = {"TRACE_FILE": path}
    e.update(env or {})
    r = run(module, cfg, workers=1, env=e, overrides=overrides, timeout=timeout, tag=os.path.basename(path))
    fails, notes, done = [], [], None
    for line in printed_blocks(r.out):
        m = FAIL_RE.match(line)
        if m:
            fails.append((int(m.group(1)), _parse_set(m.group(2))))
            continue
        m = NOTE_RE.match(line)
        if m:
            notes.append((int(m.group(1)), m.group(2)))
            continue
        m = DONE_RE.match(line)
        if m:
            done = int(m.group(1))
    return dict(path=path, n=n, fails=fails, notes=notes, done=done, ok=r.ok, generated=r.generated,
                distinct=r.distinct, out=r.out if (not r.ok or done != n) else "", wall=r.wall)


def validate_events(module, cfg, events, *, nproc=None, chunk=None, env=None, overrides=True,
                    timeout=3600, name="trace", stateful=False, starts=None):
    """Validate a list of event dicts (each with an integer 'id') against a trace spec.

    The trace spec must: read ndjson from IOEnv.TRACE_FILE, consume one line per step, print
    <<"FAIL", id, {clauses}>> for each failing event, and print <<"DONE", n>> from its
    POSTCONDITION with the number of consumed lines.  A chunk whose DONE count differs from its
    length means the spec could not consume the trace: MachineryError (or, for stateful specs
    whose actions are guarded, a rejection reported by the caller).

    stateful=True keeps all events in one chunk (the trace is one behaviour).
    Returns dict(fails=[(id, [clauses])], notes, states, transitions, chunks, wall).
    """
    nproc = nproc or NCPU
    wd = workdir()
    if stateful:
        chunks = [events]
    elif starts is not None:
        # chunk boundaries only where starts(event) is true (behaviours stay whole)
        if chunk is None:
            chunk = max(1, min(20000, (len(events) + nproc - 1) // nproc))
        chunks, cur = [], []
        for ev in events:
            if starts(ev) and len(cur) >= chunk:
                chunks.append(cur)
                cur = []
            cur.append(ev)
        if cur:
            chunks.append(cur)
    else:
        if chunk is None:
            chunk = max(1, min(20000, (len(events) + nproc - 1) // nproc))
        chunks = [events[i:i + chunk] for i in range(0, len(events), chunk)]
    jobs = []
    stamp = time.time_ns() % 10**9
    for i, ch in enumerate(chunks):
        path = os.path.join(wd, "%s_%d_%d.ndjson" % (name, stamp, i))
        with open(path, "w") as f:
            for ev in ch:
                f.write(json.dumps(ev, separators=(",", ":")))
                f.write("\n")
        jobs.append((module, cfg, path, len(ch), env, overrides, timeout))
    t0 = time.time()
    res = []
    with cf.ThreadPoolExecutor(max_workers=nproc) as ex:
        for r in ex.map(_validate_chunk, jobs):
            res.append(r)
    fails, notes = [], []
    states = transitions = 0
    for r in res:
        if r["done"] != r["n"] or not r["ok"]:
            raise MachineryError("trace spec %s did not consume %s (%s of %s lines, ok=%s):\n%s"
                                 % (module, r["path"], r["done"], r["n"], r["ok"], r["out"][-3000:]))
        fails += r["fails"]
        notes += r["notes"]
        states += r["distinct"]
        transitions += r["generated"]
        try:
            os.unlink(r["path"])
        except OSError:
            pass
    return dict(fails=fails, notes=notes, states=states, transitions=transitions, chunks=len(chunks),
                wall=time.time() - t0)


def sany(module):
    cmd = ["java", "-cp", JAR + ":" + CM, "tla2sany.SANY", module]
    p = subprocess.run(cmd, cwd=SPEC, capture_output=True, text=True)
    ok = p.returncode == 0 and "Semantic errors" not in p.stdout and "*** Errors" not in p.stdout and "Fatal errors" not in p.stdout
    return ok, p.stdout + p.stderr
