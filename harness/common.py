"""Check runner plumbing: verdict collection, known findings, evidence, replay files."""
import json
import os
import sys
import time

from . import tlc

VERIF = tlc.VERIF
REPO = os.environ.get("FA_REPO", "/repo")
# FA_OUT_DIR: where a run against a scratch copy (tools/try_seed.sh) writes evidence and replays, so that
# /verif/evidence only ever holds what a check wrote when run against /repo itself
_OUT = os.environ.get("FA_OUT_DIR", VERIF)
EVIDENCE = os.path.join(_OUT, "evidence")
REPLAYS = os.path.join(_OUT, "replays")
KNOWN = os.path.join(VERIF, "known_findings.json")


def import_repo():
    """Import functional_algorithms from FA_REPO's working tree (default /repo)."""
    import warnings
    if REPO not in sys.path:
        sys.path.insert(0, REPO)
    with warnings.catch_warnings():
        warnings.simplefilter("ignore")
        import functional_algorithms as fa
    assert os.path.abspath(fa.__file__).startswith(os.path.abspath(REPO)), (fa.__file__, REPO)
    return fa


def load_known():
    """known_findings.json plus known_findings.d/*.json (one file per property)."""
    out = []
    paths = [KNOWN] if os.path.exists(KNOWN) else []
    d = os.path.join(VERIF, "known_findings.d")
    if os.path.isdir(d):
        paths += [os.path.join(d, f) for f in sorted(os.listdir(d)) if f.endswith(".json")]
    for p in paths:
        with open(p) as f:
            out += json.load(f)["findings"]
    return out


class Check:
    """Collects the outcome of one check run for one property."""

    def __init__(self, pid, tier, seed, level="model_checking"):
        self.pid = pid
        self.tier = tier
        self.seed = seed
        self.level = level
        self.t0 = time.time()
        self.known = [k for k in load_known() if k["property"] == pid and k.get("status", "known") == "known"]
        self.known_hit = {}
        self.violations = []
        self.states = 0
        self.transitions = 0
        self.traces = 0
        self.evaluations = 0
        self.samples = []
        self.cov = {}
        self.assumptions = []
        self.notes = []
        self.drift = []

    # ---- accounting -------------------------------------------------------------------------
    def add_mc(self, name, res):
        """Record an exhaustive/simulation TLC run (TLCResult)."""
        self.states += res.distinct
        self.transitions += res.generated
        self.cov.setdefault("model_runs", []).append(
            dict(config=name, distinct_states=res.distinct, states_generated=res.generated,
                 depth=res.depth, wall_s=round(res.wall, 2), completed=res.finished))

    def add_trace(self, name, r, nevents, ntraces=None):
        """Record a trace-validation result dict from tlc.validate_events."""
        self.states += r["states"]
        self.transitions += r["transitions"]
        self.traces += ntraces if ntraces is not None else r["chunks"]
        self.evaluations += nevents
        self.cov.setdefault("trace_runs", []).append(
            dict(spec=name, events=nevents, chunks=r["chunks"], failing_events=len(r["fails"]),
                 wall_s=round(r["wall"], 2)))

    def sample(self, obj, limit=6):
        if len(self.samples) < limit:
            self.samples.append(obj)

    def note(self, s):
        self.notes.append(s)
        print("note: " + s)

    def drift_note(self, s):
        """Model drift: my transcription and the code disagree (not a property violation)."""
        if len(self.drift) < 50:
            self.drift.append(s)
        print("DRIFT: " + s)

    # ---- verdicts ---------------------------------------------------------------------------
    def fail(self, key, what, replay):
        """A property clause failed on an observed execution.

        key identifies the failing behaviour (input / history / call site class).  If the key is
        listed as a known finding it is reported once as KNOWN-FINDING, otherwise as VIOLATION.
        """
        for k in self.known:
            if k["key"] == key:
                self.known_hit.setdefault(key, [k, 0, what])
                self.known_hit[key][1] += 1
                return False
        if len(self.violations) < 200:
            self.violations.append((key, what, replay))
        else:
            self.violations.append((key, what, None))
        return True

    def finish(self, extra_cov=None, rule=None, distinct_nontrivial=None):
        os.makedirs(EVIDENCE, exist_ok=True)
        for key, (k, n, what) in sorted(self.known_hit.items()):
            print("KNOWN-FINDING: property=%s %s [%s] (%d failing events)" % (self.pid, k["what"], key, n))
        nviol = len(self.violations)
        if nviol:
            os.makedirs(os.path.join(REPLAYS, self.pid), exist_ok=True)
        seen = set()
        for i, (key, what, replay) in enumerate(self.violations):
            if key in seen or len(seen) >= 25:
                continue
            seen.add(key)
            path = os.path.join(REPLAYS, self.pid, "%s_%s_%d.json" % (self.tier, self.seed, len(seen)))
            with open(path, "w") as f:
                json.dump(dict(property=self.pid, key=key, what=what, replay=replay), f, indent=1, default=str)
            print("VIOLATION property=%s replay=%s  # %s: %s" % (self.pid, path, key, what))
        cov = dict(states=self.states, transitions=self.transitions,
                   traces_validated_against_impl=self.traces,
                   evaluations=self.evaluations,
                   samples=self.samples or ["(no sample recorded)"])
        if rule:
            cov["rule"] = rule
        if distinct_nontrivial is not None:
            cov["distinct_nontrivial"] = distinct_nontrivial
        cov.update(self.cov)
        if extra_cov:
            cov.update(extra_cov)
        cov["known_findings_hit"] = {k: v[1] for k, v in self.known_hit.items()}
        cov["model_drift"] = self.drift
        cov["notes"] = self.notes
        cov["java_overrides"] = tlc.overrides_available()
        if self.level == "translation_validation":
            cov.setdefault("programs", self.evaluations)
            cov.setdefault("disagreements_checked", nviol + sum(v[1] for v in self.known_hit.values()))
        ev = dict(property_id=self.pid, tier=self.tier, seed=self.seed, level=self.level, coverage=cov,
                  assumptions=self.assumptions, wall_s=round(time.time() - self.t0, 2), violations=nviol)
        with open(os.path.join(EVIDENCE, self.pid + ".json"), "w") as f:
            json.dump(ev, f, indent=1, default=str)
        print("%s tier=%s seed=%s: %d events, %d TLC states, %d traces, %d violations, %d known-finding classes, %.1fs"
              % (self.pid, self.tier, self.seed, self.evaluations, self.states, self.traces, nviol,
                 len(self.known_hit), time.time() - self.t0))
        return 1 if nviol else 0
