"""./check entry point."""
import argparse
import importlib
import os
import sys
import traceback

from . import tlc, common


def build():
    """Rebuild harness-owned artefacts that are missing (normally done by setup_cmd)."""
    tlc.ensure_overrides()
    so = os.path.join(tlc.BUILD, "libfaverif.so")
    src = os.path.join(tlc.VERIF, "csrc", "faverif.c")
    if not os.path.exists(so) or os.path.getmtime(so) < os.path.getmtime(src):
        import subprocess
        os.makedirs(tlc.BUILD, exist_ok=True)
        subprocess.run(["gcc", "-O1", "-shared", "-fPIC", "-o", so, src], check=True)


def main(argv=None):
    ap = argparse.ArgumentParser()
    ap.add_argument("prop")
    ap.add_argument("--tier", default=os.environ.get("VERIF_TIER", "quick"), choices=["quick", "thorough"])
    ap.add_argument("--seed", type=int, default=int(os.environ.get("VERIF_SEED", "0") or 0))
    ap.add_argument("--replay", default=None)
    a = ap.parse_args(argv)
    a.seed = abs(a.seed) % (1 << 31)      # any integer is a legal VERIF_SEED; TLC -seed and NumPy generators want 0 <= seed < 2^31
    try:
        build()
        mod = importlib.import_module("harness.props." + a.prop.lower())
        if a.replay:
            rc = mod.replay(a.replay)
        else:
            rc = mod.run(a.tier, a.seed)
    except tlc.MachineryError as ex:
        print("MACHINERY-FAILURE property=%s: %s" % (a.prop, ex))
        rc = 2
    except Exception:
        traceback.print_exc()
        print("MACHINERY-FAILURE property=%s (unexpected exception in the harness)" % a.prop)
        rc = 2
    sys.stdout.flush()
    sys.exit(rc)


if __name__ == "__main__":
    main()
