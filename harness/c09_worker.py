"""Executes C09 request histories inside ONE interpreter (one PYTHONHASHSEED).

usage: python -m harness.c09_worker <jobs.json> <out.json>
jobs: {"alphabet": [request...], "histories": [[request index...]...], "parallel": n}
Each history runs in a child forked from this warm parent, so process-global state starts
from the same point for every history and is shared by the requests inside one history.
"""
import hashlib
import json
import os
import re
import sys
import warnings


def generate(fa, algos, req, ctxs):
    import numpy
    target = getattr(fa.targets, req["target"])
    if req["kind"] == "apmath_lax":
        import functional_algorithms.apmath_algorithms  # noqa
        ctx = fa.Context(paths=[fa.apmath_algorithms], parameters=dict(dtypes=[numpy.float64, numpy.float32, numpy.float16]))
        func = getattr(fa.apmath, req["func"])
        graph = ctx.trace(func, *req["sig"], **req["kwargs"])
        graph = graph.rewrite(target, fa.rewrite, fa.rewrite)
        return graph.tostring(target, tab="")
    if req["kind"] == "provider":
        # two revisions of a user module: same __name__, different definition of `square` (the python target has no native
        # square, so the expansion pass looks the implementation up in the context's paths)
        class user_impl:   # noqa: N801
            @staticmethod
            def square(ctx, x):
                return x * x if req["provider"] == "A" else ctx.exp(ctx.log(abs(x)) * 2)
        user_impl.__name__ = "user_impl"
        ctx = fa.Context(paths=[user_impl])
        def user_fn(ctx, x):
            return ctx.square(x) + x
        graph = ctx.trace(user_fn, *req["sig"]).rewrite(target, fa.rewrite)
        return graph.tostring(target)
    func = getattr(fa.algorithms, req["func"]) if req["kind"] == "algorithm" else getattr(algos, req["func"])
    kw = dict(paths=[fa.algorithms])
    if req.get("enable_alt"):
        kw.update(enable_alt=True, default_constant_type=req.get("default_constant_type", "FloatType"))
    elif req.get("default_constant_type"):
        kw.update(default_constant_type=req["default_constant_type"])
    if req.get("parameters"):
        kw.update(parameters=dict(req["parameters"]))
    if req.get("same_ctx_key"):
        ctx = ctxs.setdefault(req["same_ctx_key"], fa.Context(**kw))
    else:
        ctx = fa.Context(**kw)
    graph = ctx.trace(func, *req["sig"]).rewrite(target, fa.rewrite)
    return graph.tostring(target, debug=req.get("debug", 0), **(req.get("printer_kw") or {}))


def run_history(fa, algos, alphabet, hist):
    out = []
    ctxs = {}
    for idx in hist:
        req = alphabet[idx]
        try:
            with warnings.catch_warnings():
                warnings.simplefilter("ignore")
                text = generate(fa, algos, req, ctxs)
            kind = "text"
        except Exception as ex:  # noqa
            # an exception message may quote an object address: not part of the answer
            text = "%s: %s" % (type(ex).__name__, re.sub(r"0x[0-9a-fA-F]+", "0x", str(ex)))
            kind = "raise"
        out.append([idx, kind, hashlib.sha256(text.encode()).hexdigest(), len(text)])
    return out


def main():
    jobs = json.load(open(sys.argv[1]))
    repo = os.environ.get("FA_REPO", "/repo")
    sys.path.insert(0, repo)
    with warnings.catch_warnings():
        warnings.simplefilter("ignore")
        import functional_algorithms as fa
        import functional_algorithms.apmath  # noqa
    assert os.path.abspath(fa.__file__).startswith(os.path.abspath(repo))
    from harness import c09_algos as algos
    alphabet = jobs["alphabet"]
    results = {}
    pending = {}
    par = jobs.get("parallel", 2)
    todo = list(enumerate(jobs["histories"]))

    def reap():
        pid, status = os.wait()
        i, rfd = pending.pop(pid)
        with os.fdopen(rfd) as f:
            data = f.read()
        results[i] = json.loads(data) if data else [["crash", status]]

    while todo or pending:
        while todo and len(pending) < par:
            i, hist = todo.pop(0)
            rfd, wfd = os.pipe()
            pid = os.fork()
            if pid == 0:
                os.close(rfd)
                try:
                    r = run_history(fa, algos, alphabet, hist)
                    with os.fdopen(wfd, "w") as f:
                        f.write(json.dumps(r))
                finally:
                    os._exit(0)
            os.close(wfd)
            pending[pid] = (i, rfd)
        if pending:
            # drain pipes of finished children (outputs are small, no deadlock on pipe size)
            reap()
    json.dump(dict(seed=os.environ.get("PYTHONHASHSEED"), results=[results[i] for i in range(len(jobs["histories"]))]), open(sys.argv[2], "w"))


if __name__ == "__main__":
    main()
