"""Parser for TLA+ values as TLC prints them (PrintT, error traces, -simulate files).

<<..>> -> list, {..} -> ('set', [...]) as a sorted list wrapped in frozenset when hashable else
list, [a |-> v, ..] -> dict, (k :> v @@ ..) -> dict, "s" -> str, ints, TRUE/FALSE -> bool.
"""
import re

_tok = re.compile(r'\s*(<<|>>|\{|\}|\[|\]|\(|\)|,|\|->|:>|@@|"(?:[^"\\]|\\.)*"|-?\d+|[A-Za-z_][A-Za-z0-9_!]*)')


def tokenize(s):
    pos, out = 0, []
    s = s.strip()
    while pos < len(s):
        m = _tok.match(s, pos)
        if not m:
            raise ValueError("bad TLA value at %d: %r" % (pos, s[pos:pos + 40]))
        out.append(m.group(1))
        pos = m.end()
    return out


def parse(s):
    toks = tokenize(s)
    v, i = _val(toks, 0)
    if i != len(toks):
        raise ValueError("trailing tokens in TLA value: %r" % toks[i:i + 5])
    return v


def _val(t, i):
    x = t[i]
    if x == "<<":
        items, i = _seq(t, i + 1, ">>")
        return items, i
    if x == "{":
        items, i = _seq(t, i + 1, "}")
        return {"__set__": items}, i
    if x == "[":
        d = {}
        i += 1
        if t[i] == "]":
            return d, i + 1
        while True:
            k = t[i]
            assert t[i + 1] == "|->", t[i:i + 3]
            v, i = _val(t, i + 2)
            d[k] = v
            if t[i] == ",":
                i += 1
                continue
            assert t[i] == "]", t[i]
            return d, i + 1
    if x == "(":
        d = {}
        i += 1
        while True:
            k, i = _val(t, i)
            assert t[i] == ":>", t[i]
            v, i = _val(t, i + 1)
            d[k if not isinstance(k, (list, dict)) else repr(k)] = v
            if t[i] == "@@":
                i += 1
                continue
            assert t[i] == ")", t[i]
            return d, i + 1
    if x[0] == '"':
        return x[1:-1].replace('\\"', '"').replace("\\\\", "\\"), i + 1
    if x == "TRUE":
        return True, i + 1
    if x == "FALSE":
        return False, i + 1
    if re.fullmatch(r"-?\d+", x):
        return int(x), i + 1
    return x, i + 1  # model value / identifier


def _seq(t, i, close):
    items = []
    if t[i] == close:
        return items, i + 1
    while True:
        v, i = _val(t, i)
        items.append(v)
        if t[i] == ",":
            i += 1
            continue
        assert t[i] == close, (t[i], close)
        return items, i + 1


def printed_values(out, tag):
    """All values printed as <<"tag", ...>> (possibly spanning lines) in TLC output."""
    res = []
    start = re.compile(r'<<\s*"%s"' % re.escape(tag))
    i = 0
    while True:
        m = start.search(out, i)
        if not m:
            break
        i = m.start()
        depth, j = 0, i
        instr = False
        while j < len(out):
            c = out[j]
            if instr:
                if c == "\\":
                    j += 1
                elif c == '"':
                    instr = False
            elif c == '"':
                instr = True
            elif out.startswith("<<", j):
                depth += 1
                j += 1
            elif out.startswith(">>", j):
                depth -= 1
                j += 1
                if depth == 0:
                    break
            j += 1
        res.append(parse(out[i:j + 1]))
        i = j + 1
    return res


def parse_sim_file(text):
    """A -simulate file=... trace file: list of (action name or None, {var: value})."""
    states = []
    for m in re.finditer(r"\\\* (?:<(\w+)[^\n]*>|[^\n]*)\nSTATE_\d+ ==[ ]*\n(.*?)(?=\n\n|\Z)", text, re.S):
        action, body = m.group(1), m.group(2)
        st = {}
        for vm in re.finditer(r"(?:^|\n)(?:/\\ )?(\w+) = (.*?)(?=\n/\\ \w+ = |\Z)", body, re.S):
            st[vm.group(1)] = parse(vm.group(2))
        states.append((action, st))
    return states


def fast_tuples(out, tag):
    """Values printed as <<"tag", ...>> consisting only of tuples, strings, integers and booleans.

    TLC starts each printed value at column 0 and indents continuation lines, so the output is
    split into blocks; brackets are rewritten and the block parsed as JSON (fast path for large
    history exports)."""
    import json
    res = []
    cur = None
    head = re.compile(r'^<<\s*"%s"' % re.escape(tag))

    def flush(block):
        if block is None:
            return
        txt = " ".join(block).replace("<<", "[").replace(">>", "]").replace("TRUE", "true").replace("FALSE", "false")
        res.append(json.loads(txt))

    for line in out.splitlines():
        if line[:1] not in (" ", "\t", ""):
            flush(cur)
            cur = [line] if head.match(line) else None
        elif cur is not None:
            cur.append(line)
    flush(cur)
    return res
