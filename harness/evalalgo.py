"""Vectorised evaluation of the package's OWN expansion of its algorithms (shared by C01, C02, C03).

What is evaluated.  `get_function(name, dtype)` traces `functional_algorithms.algorithms.<name>` in a
`Context(paths=[algorithms])`, rewrites it for a synthetic NumPy-like target followed by the package's
`rewrite` module, prints it with the package's NumPy printer (`Expr.tostring`) and exec's the text with
NumPy.  The synthetic target is `functional_algorithms.targets.numpy` with one difference: every
operation that has a COMPLEX operand (complex `square`, `sqrt`, `log`, `log1p`, `atanh`, `absolute`,
`asin`, ... which the real NumPy target maps to `numpy.square`, `numpy.sqrt`, ...) is declined, so the
package's `targets.base.modifier_base` expands it through the definitions in `algorithms.py`.  What stays
native are real-valued primitives on REAL operands (+ - * / abs sqrt log log1p exp sin cos atan2 hypot
max min comparisons select ...), `complex(re, im)` construction and `.real` / `.imag` extraction - the
same primitives the package itself treats as native on its StableHLO / XLA targets.  `expand_hypot=True`
additionally expands real `hypot(x, y)` by the package's definition (as targets without a native hypot do).

How it is evaluated.  The printed text is the package's own; three names of its run-time environment are
replaced by array-capable equivalents so that one call evaluates 10^5..10^6 points:
  * `max(a, b)` / `min(a, b)` (the NumPy printer emits the Python builtins): Python's
    `max(a, b)` is `b if b > a else a` and `min(a, b)` is `b if b < a else a`; the replacements are
    `numpy.where(b > a, b, a)` / `numpy.where(b < a, b, a)` - identical for every input including NaN
    and signed zeros;
  * `make_complex(r, i)`: builds the complex array from the two real arrays by writing the components
    (no arithmetic, signs of zeros and NaN payloads preserved);
  * the scalar casts of the arguments (`z = numpy.complex64(z)`) work on arrays as they are.
Everything is evaluated under `numpy.errstate(all="ignore")`.

Nothing here judges a result: the module only produces the values the trace specifications judge.
`get_function` verifies on the rewritten graph that no operation with a complex operand or result is left native
(`native_complex_nodes`); `self_check()` verifies that the vectorised evaluation equals the same text exec'd with the
package's own run-time environment and called point by point (special values included), and reports the distance
from the package's own `targets.numpy.as_function` (whose nested complex operations are NumPy's natives).

API: get_function(name, dtype) -> Function (callable on arrays; .text, .graph), available(kind), function_names(kind),
real_signatures(), trace(name, dtype), make_target(), self_check(), NotAvailable.
"""
import types
import warnings

import numpy

from .common import import_repo

COMPLEX_NAMES = ("absolute", "acos", "acosh", "asin", "asinh", "atan", "atanh", "exp", "log", "log2", "log10",
                 "log1p", "sqrt", "square")
COMPLEX_DTYPES = ("complex64", "complex128")
REAL_DTYPES = ("float32", "float64")
COMPONENT = {"complex64": "float32", "complex128": "float64", "float32": "float32", "float64": "float64"}
COMPLEX_OF = {"float32": "complex64", "float64": "complex128"}

# kinds that may legitimately carry a complex value in the final graph: structure only, no arithmetic
STRUCTURAL = {"symbol", "constant", "apply", "complex", "select", "list", "item"}
# kinds that consume a complex operand natively without doing complex arithmetic
EXTRACT = {"real", "imag"}

_cache = {}
_mods = {}


class NotAvailable(Exception):
    """The package defines no algorithm for this (name, dtype) (e.g. real atan: NotImplemented in algorithms.py)."""


def _fa():
    if "fa" not in _mods:
        fa = import_repo()
        with warnings.catch_warnings():
            warnings.simplefilter("ignore")
            from functional_algorithms import Context, algorithms, rewrite, targets
            from functional_algorithms.targets import numpy as np_target
            from functional_algorithms.targets.base import modifier_base
            from functional_algorithms.expr import Expr
        _mods.update(fa=fa, Context=Context, algorithms=algorithms, rewrite=rewrite, targets=targets, np_target=np_target,
                     modifier_base=modifier_base, Expr=Expr)
    return _mods


# ------------------------------------------------------------------------------------------------ target
def _is_complex(e):
    """Is the value of expression e complex?  Expr.is_complex has no case for a few kinds (sign, atan2, ...):
    fall back to the inferred type."""
    try:
        return bool(e.is_complex)
    except NotImplementedError:
        pass
    try:
        return bool(e.get_type().is_complex)
    except Exception:  # noqa: no type can be inferred - such a node cannot be complex arithmetic of the package
        return False


def _has_complex_operand(expr, Expr):
    return any(isinstance(o, Expr) and _is_complex(o) for o in expr.operands)


def make_target(expand_hypot=False):
    """The synthetic target: targets.numpy, declining every native implementation of an operation on complex operands."""
    m = _fa()
    key = ("target", expand_hypot)
    if key in _mods:
        return _mods[key]
    base = m["np_target"]
    normal = types.ModuleType("functional_algorithms.targets.numpy_expanded")
    for k, v in vars(base).items():
        if not k.startswith("__"):
            setattr(normal, k, v)
    normal.kind_to_target = dict(base.kind_to_target)
    if expand_hypot:
        normal.kind_to_target["hypot"] = NotImplemented
    # printing uses the package's NumPy printer unchanged (kind templates, constants, types)
    declining = types.ModuleType("functional_algorithms.targets.numpy_expanded")
    for k, v in vars(normal).items():
        if not k.startswith("__"):
            setattr(declining, k, v)
    declining.kind_to_target = {k: (v if k in STRUCTURAL or k in EXTRACT else NotImplemented)
                                for k, v in normal.kind_to_target.items()}
    modifier_base, Expr = m["modifier_base"], m["Expr"]

    def modifier(expr):
        if expr.kind not in STRUCTURAL and expr.kind not in EXTRACT and _has_complex_operand(expr, Expr):
            return modifier_base(declining, expr)
        return modifier_base(normal, expr)

    normal.__rewrite_modifier__ = modifier
    declining.__rewrite_modifier__ = modifier
    _mods[key] = normal
    return normal


# ------------------------------------------------------------------------------------------------ run time
def _max(a, b):
    """Python's max(a, b) == (b if b > a else a), elementwise."""
    return numpy.where(numpy.greater(b, a), b, a)


def _min(a, b):
    """Python's min(a, b) == (b if b < a else a), elementwise."""
    return numpy.where(numpy.less(b, a), b, a)


def _make_complex(r, i):
    r = numpy.asarray(r)
    i = numpy.asarray(i)
    if r.dtype != i.dtype or r.dtype.name not in COMPLEX_OF:
        raise NotImplementedError((r.dtype, i.dtype))
    r, i = numpy.broadcast_arrays(r, i)
    out = numpy.empty(r.shape, dtype=COMPLEX_OF[r.dtype.name])
    out.real = r
    out.imag = i
    return out


def _namespace():
    return dict(numpy=numpy, warnings=warnings, max=_max, min=_min, make_complex=_make_complex)


# ------------------------------------------------------------------------------------------------ tracing
def real_signatures():
    """{name: number of arguments} of the real algorithms: what targets.numpy.trace_arguments lists for float types."""
    m = _fa()
    out = {}
    for name, sigs in m["np_target"].trace_arguments.items():
        for sig in sigs:
            if all(s.strip().endswith(":float64") for s in sig):
                out[name] = len(sig)
    return out


def function_names(kind="complex"):
    """Names for which the property families are stated (availability is decided by get_function)."""
    if kind == "complex":
        return list(COMPLEX_NAMES)
    return sorted(real_signatures())


def trace(name, dtype, expand_hypot=False):
    """(graph rewritten for the expanded target, text).  Raises NotAvailable when algorithms.py has no definition."""
    m = _fa()
    dt = getattr(numpy, dtype)
    nargs = real_signatures().get(name, 1) if dtype in REAL_DTYPES else 1
    with warnings.catch_warnings():
        warnings.simplefilter("ignore")
        ctx = m["Context"](paths=[m["algorithms"]])
        try:
            graph = ctx.trace(getattr(m["algorithms"], name), *([dt] * nargs))
        except NotImplementedError as ex:
            raise NotAvailable("%s(%s): %s" % (name, dtype, ex))
        graph = graph.rewrite(make_target(expand_hypot), m["rewrite"])
        text = graph.tostring(make_target(expand_hypot))
    return graph, text


def native_complex_nodes(graph):
    """Nodes of the rewritten graph that compute on a complex operand or produce a complex value natively
    (anything but complex(re, im), select, symbols/constants, .real/.imag): must be empty."""
    Expr = _fa()["Expr"]
    bad, seen, stack = [], set(), [graph]
    while stack:
        e = stack.pop()
        if id(e) in seen:
            continue
        seen.add(id(e))
        for o in e.operands:
            if isinstance(o, Expr):
                stack.append(o)
        if e.kind in STRUCTURAL:
            continue
        if e.kind in EXTRACT:
            continue
        if _is_complex(e) or _has_complex_operand(e, Expr):
            bad.append(e.kind)
    return sorted(set(bad))


class Function:
    """A vectorised callable with the text it runs."""

    def __init__(self, name, dtype, text, fn, nargs, graph):
        self.name, self.dtype, self.text, self.fn, self.nargs, self.graph = name, dtype, text, fn, nargs, graph

    def __call__(self, *args):
        assert len(args) == self.nargs, (self.name, len(args))
        dt = getattr(numpy, self.dtype)
        args = [numpy.ascontiguousarray(a, dtype=dt) for a in args]
        with numpy.errstate(all="ignore"), warnings.catch_warnings():
            warnings.simplefilter("ignore")
            r = self.fn(*args)
        r = numpy.asarray(r)
        if r.shape != args[0].shape:
            r = numpy.broadcast_to(r, args[0].shape).copy()
        return r


def get_function(name, dtype, expand_hypot=False):
    """Cached vectorised evaluator of the package's expansion of algorithms.<name> for dtype
    ('complex64' | 'complex128' | 'float32' | 'float64').  Raises NotAvailable if there is no definition."""
    key = (name, dtype, expand_hypot)
    if key not in _cache:
        try:
            graph, text = trace(name, dtype, expand_hypot)
        except NotAvailable as ex:
            _cache[key] = ex
            raise
        bad = native_complex_nodes(graph)
        if bad:
            raise RuntimeError("expanded target left native complex operations in %s(%s): %s" % (name, dtype, bad))
        ns = _namespace()
        exec(compile(text, "<expanded %s %s>" % (name, dtype), "exec"), ns)
        nargs = real_signatures().get(name, 1) if dtype in REAL_DTYPES else 1
        _cache[key] = Function(name, dtype, text, ns[name], nargs, graph)
    r = _cache[key]
    if isinstance(r, Exception):
        raise r
    return r


def available(kind="complex"):
    """[(name, dtype)] for which the package provides an algorithm."""
    out = []
    for name in function_names(kind):
        for dtype in (COMPLEX_DTYPES if kind == "complex" else REAL_DTYPES):
            try:
                get_function(name, dtype)
                out.append((name, dtype))
            except NotAvailable:
                pass
    return out


# ------------------------------------------------------------------------------------------------ self check
def _ulp_distance(a, b, fdt):
    """Lattice distance of two real arrays (NaN == NaN -> 0, otherwise NaN vs number -> huge)."""
    it = {"float32": numpy.int32, "float64": numpy.int64}[fdt]
    ia = a.view(it).astype(numpy.int64)
    ib = b.view(it).astype(numpy.int64)
    mn = numpy.int64(numpy.iinfo(it).min)
    oa = numpy.where(ia < 0, mn - ia, ia).astype(numpy.float64)
    ob = numpy.where(ib < 0, mn - ib, ib).astype(numpy.float64)
    d = numpy.abs(oa - ob)
    na, nb = numpy.isnan(a), numpy.isnan(b)
    d = numpy.where(na & nb, 0.0, d)
    d = numpy.where(na ^ nb, numpy.inf, d)
    return d


def _special_values(fdt):
    fi = numpy.finfo(fdt)
    t = fi.dtype.type
    with numpy.errstate(all="ignore"):
        v = [t(0), fi.smallest_subnormal, fi.smallest_normal, numpy.sqrt(fi.smallest_normal) * t(4), t(0.5), t(1), t(1.5), t(2),
             numpy.sqrt(fi.max) / t(8), numpy.sqrt(fi.max), fi.max, t(numpy.inf), t(numpy.nan)]
    v = numpy.array(v, dtype=fdt)
    return numpy.concatenate([v, -v])


def sample_points(dtype, n, rng, specials=True):
    """Test points used by self_check only: n log-uniform magnitudes 2^-12..2^12 with random signs, preceded
    (specials=True) by the grid of special values (zeros, subnormal, huge, infinite, NaN components)."""
    fdt = COMPONENT[dtype]

    def mags(k):
        return (numpy.exp2(rng.uniform(-12, 12, size=k)) * rng.choice([-1.0, 1.0], size=k)).astype(fdt)

    if dtype in REAL_DTYPES:
        return numpy.concatenate([_special_values(fdt), mags(n)]) if specials else mags(n)
    z = _make_complex(mags(n), mags(n))
    if specials:
        s = _special_values(fdt)
        X, Y = numpy.meshgrid(s, s)
        z = numpy.concatenate([_make_complex(X.ravel(), Y.ravel()), z])
    return z


def self_check(n=2000, seed=0, names=None, against_numpy_target=True):
    """Machinery self-test on the special-value grid + n random points per (name, dtype).  Returns {name:dtype: report}:
      vector_vs_scalar_mismatches: components where the vectorised evaluator differs (bit pattern, NaN == NaN) from
        the SAME text exec'd with the package's own run-time environment (Python max/min, utils.make_complex) and
        called point by point - must be 0;
      max_ulp_vs_numpy_target / points_differing (against_numpy_target=True, random points only): distance from the
        package's own NumPy-target function (targets.numpy.as_function), whose nested complex operations are
        NumPy's natives - informative (the two legitimately differ by a few ULP for atan, log2, log10)."""
    m = _fa()
    rng = numpy.random.default_rng(seed)
    report = {}
    for kind in ("complex", "real"):
        for name, dtype in available(kind):
            if names and name not in names:
                continue
            f = get_function(name, dtype)
            fdt = COMPONENT[dtype]
            args = [sample_points(dtype, n, rng) for _ in range(f.nargs)]
            if f.nargs > 1:
                args[1] = numpy.roll(args[1], 5)
            npts = len(args[0])
            got = f(*args)
            rep = {}
            with warnings.catch_warnings():
                warnings.simplefilter("ignore")
                # the expanded text itself, run pointwise with the package's run-time environment
                ns = dict(numpy=numpy, warnings=warnings, make_complex=m["np_target"].utils.make_complex)
                exec(f.text, ns)
                with numpy.errstate(all="ignore"):
                    own = numpy.array([ns[name](*[a[i] for a in args]) for i in range(npts)], dtype=got.dtype)
                ref = None
                if against_numpy_target:
                    ctx = m["Context"](paths=[m["algorithms"]])
                    dt = getattr(numpy, dtype)
                    g = ctx.trace(getattr(m["algorithms"], name), *([dt] * f.nargs)).rewrite(m["np_target"], m["rewrite"])
                    ref_fn = m["np_target"].as_function(g, debug=0)
                    with numpy.errstate(all="ignore"):
                        ref = numpy.array([ref_fn(*[a[i] for a in args]) for i in range(npts - n, npts)], dtype=got.dtype)

            def parts(v):
                if v.dtype.kind == "c":
                    return [numpy.ascontiguousarray(v.real, dtype=fdt), numpy.ascontiguousarray(v.imag, dtype=fdt)]
                return [numpy.ascontiguousarray(v, dtype=fdt)]

            vdiff = 0
            for a, c in zip(parts(got), parts(own)):
                vdiff += int((_ulp_distance(a, c, fdt) > 0).sum() + ((numpy.signbit(a) != numpy.signbit(c)) & ~numpy.isnan(a)).sum())
            rep["vector_vs_scalar_mismatches"] = vdiff
            rep["points"] = npts
            if ref is not None:
                dmax, ndiff = 0.0, 0
                for a, b in zip(parts(got[npts - n:]), parts(ref)):
                    d = _ulp_distance(a, b, fdt)
                    dmax = max(dmax, float(d.max()))
                    ndiff += int((d > 0).sum())
                rep["max_ulp_vs_numpy_target"] = dmax
                rep["components_differing"] = ndiff
            report["%s:%s" % (name, dtype)] = rep
    return report


if __name__ == "__main__":
    import json
    import sys
    if len(sys.argv) >= 3:
        print(get_function(sys.argv[1], sys.argv[2]).text)
    else:
        print(json.dumps(self_check(), indent=1))
