"""Self-test of the verification machinery (run by setup.sh; not a property check).

Failures here are machinery failures: they mean a check could raise a false alarm or miss
everything, so setup fails loudly instead.
"""
import random
import sys
import warnings

import numpy

from . import tlc, bits


def ieee_events(n, seed):
    warnings.simplefilter("ignore")
    rng = random.Random(seed)
    evs = []
    for dt in ["float16", "float32", "float64"]:
        w = bits.WIDTH[dt]
        inf = bits.FLOAT[dt]("inf")
        for k in range(n):
            a = bits.from_bits_int(rng.getrandbits(w), dt)
            if rng.random() < 0.5:
                b = bits.from_bits_int((bits.fbits_int(a, dt) + rng.randint(-2 ** (bits.PREC[dt] + 2), 2 ** (bits.PREC[dt] + 2))) % (2 ** w), dt)
            else:
                b = bits.from_bits_int(rng.getrandbits(w), dt)
            for op, fn in [("add", lambda a, b: a + b), ("sub", lambda a, b: a - b), ("mul", lambda a, b: a * b)]:
                r = fn(a, b)
                if numpy.isnan(r):
                    continue
                evs.append(dict(id=len(evs), op=op, fmt=dt, a=bits.fbits(a, dt), b=bits.fbits(b, dt), r=bits.fbits(r, dt)))
            if b != 0:
                r = a / b
                if not numpy.isnan(r):
                    evs.append(dict(id=len(evs), op="div", fmt=dt, a=bits.fbits(a, dt), b=bits.fbits(b, dt), r=bits.fbits(r, dt)))
            if numpy.isfinite(a) and not numpy.signbit(a):
                evs.append(dict(id=len(evs), op="sqrt", fmt=dt, a=bits.fbits(a, dt), b=[], r=bits.fbits(numpy.sqrt(a), dt)))
            evs.append(dict(id=len(evs), op="lt", fmt=dt, a=bits.fbits(a, dt), b=bits.fbits(b, dt), r=[1] if a < b else []))
            if numpy.isfinite(a):
                evs.append(dict(id=len(evs), op="next", fmt=dt, a=bits.fbits(a, dt), b=[], r=bits.fbits(numpy.nextafter(a, inf), dt)))
                evs.append(dict(id=len(evs), op="val", fmt=dt, a=bits.fbits(a, dt), b=[], r=[]))
    return evs


def main():
    quick = "--quick" in sys.argv
    ok = True
    # 1. every module parses
    import os
    import concurrent.futures as cf
    mods = [fn for fn in sorted(os.listdir(tlc.SPEC)) if fn.endswith(".tla")]
    with cf.ThreadPoolExecutor(max_workers=8) as ex:
        for fn, (good, out) in zip(mods, ex.map(tlc.sany, mods)):
            if not good and "Cannot find source file for module RelopTables" in out:
                continue  # MC_Relop extends a module generated from /repo at check time
            if not good:
                # not fatal for setup: a module under construction must not disable every
                # check; a check whose own module is broken reports a machinery failure itself
                print("selftest: WARNING SANY rejects %s\n%s" % (fn, out[-600:]))
    # 2. IEEE.tla agrees with the hardware on + - * < nextafter, with and without overrides
    evs = ieee_events(300 if quick else 4000, 12345)
    for ov in ([True, False] if tlc.ensure_overrides() else [False]):
        r = tlc.validate_events("Trace_IEEE", "Trace.cfg", evs, overrides=ov)
        if r["fails"]:
            print("selftest: IEEE.tla disagrees with NumPy (overrides=%s): %s" % (ov, r["fails"][:5]))
            ok = False
    # 3. binding demonstration: one corrupted field is the one rejected event; a dropped line is noticed
    bad = [dict(e) for e in evs[:500]]
    victim = next(e for e in bad if e["op"] == "add")
    victim["r"] = bits.nat(bits.unnat(victim["r"]) ^ 1)
    r = tlc.validate_events("Trace_IEEE", "Trace.cfg", bad, nproc=1)
    if [f[0] for f in r["fails"]] != [victim["id"]]:
        print("selftest: corrupted event not singled out: %s" % r["fails"][:5])
        ok = False
    # 4. the spec sees the defect the create-time MXCSR design has (negative control)
    r = tlc.run("MC_Mxcsr", "MC_Mxcsr_createtime.cfg")
    if r.ok or not (r.invariant_violated or r.action_property_violated):
        print("selftest: MC_Mxcsr_createtime.cfg should violate OnlyRequestedBits/NestIsComposition")
        ok = False
    # 5. soundness of the real-arithmetic enclosure layer (Reals.tla) that C01/C02 rest on: mpmath at 400 bits
    #    must lie inside every enclosure; overrides vs pure TLA+; sabotaged laws are caught; binding
    try:
        from .props import c02
        if not c02.selftest(quick=True, nproc=tlc.NCPU, verbose=not quick):
            print("selftest: Reals.tla enclosure self-test FAILED")
            ok = False
    except ImportError as ex:
        print("selftest: WARNING c02 self-test not available: %s" % ex)
    # 6. the complex enclosures of AccuracyC.tla (C01): same kind of soundness self-test (the with/without Java
    #    overrides comparison is done once, on the Reals.tla layer underneath; `python -m harness.props.c01
    #    --selftest --full` repeats it for the complex layer)
    try:
        from .props import c01
        if hasattr(c01, "selftest") and not c01.selftest(quick=True, nproc=tlc.NCPU, verbose=not quick, n=40, overrides_diff=False):
            print("selftest: AccuracyC.tla enclosure self-test FAILED")
            ok = False
    except ImportError as ex:
        print("selftest: WARNING c01 self-test not available: %s" % ex)
    print("selftest: %s" % ("ok" if ok else "FAILED"))
    sys.exit(0 if ok else 2)


if __name__ == "__main__":
    main()
