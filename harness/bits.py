"""Uninterpreted encodings shared by all drivers.

Floats are logged as their raw bit pattern, written as a little-endian list of base-2^15 limbs
without trailing zeros (the BigInt.tla natural).  Nothing here interprets a float: decode,
ordinal, rounding all live in spec/IEEE.tla.
"""
import numpy

LB = 15
MASK = (1 << LB) - 1

UINT = {"float16": numpy.uint16, "float32": numpy.uint32, "float64": numpy.uint64}
WIDTH = {"float16": 16, "float32": 32, "float64": 64}
FLOAT = {"float16": numpy.float16, "float32": numpy.float32, "float64": numpy.float64}
PREC = {"float16": 11, "float32": 24, "float64": 53}
EMAX = {"float16": 15, "float32": 127, "float64": 1023}


def nat(n):
    """Python non-negative int -> limb list."""
    n = int(n)
    assert n >= 0
    out = []
    while n:
        out.append(n & MASK)
        n >>= LB
    return out


def unnat(limbs):
    n = 0
    for i, l in enumerate(limbs):
        n |= int(l) << (LB * i)
    return n


def zint(n):
    """Python int -> BigInt.tla signed integer <<neg, mag>>."""
    n = int(n)
    return [1 if n < 0 else 0, nat(abs(n))]


def unzint(z):
    return -unnat(z[1]) if z[0] else unnat(z[1])


def dtype_name(x):
    return numpy.dtype(type(x) if not isinstance(x, numpy.ndarray) else x.dtype).name


def fbits_int(x, dtype=None):
    """numpy floating scalar -> raw bit pattern as Python int."""
    if dtype is None:
        dtype = dtype_name(x)
    a = numpy.array([x], dtype=FLOAT[dtype])
    return int(a.view(UINT[dtype])[0])


def fbits(x, dtype=None):
    return nat(fbits_int(x, dtype))


def from_bits_int(n, dtype):
    return numpy.array([n], dtype=UINT[dtype]).view(FLOAT[dtype])[0]


def from_bits(limbs, dtype):
    return from_bits_int(unnat(limbs), dtype)


def arr_bits(a):
    """1-D float array -> list of limb lists."""
    dt = a.dtype.name
    v = a.view(UINT[dt])
    return [nat(int(x)) for x in v]
