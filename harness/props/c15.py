"""C15 - multiprecision reference values are rounded correctly to the target type.

U1: TLC checks MC_Rounding exhaustively on the toy format T4 (the oracle RN is nearest / bracketed /
    ties-to-even / monotone / symmetric with exactly the thresholds the clauses use; the transcribed
    two-step algorithm passes every clause; the backend clause classification is sound).
U2: TLC enumerates the conversion shapes (format x mantissa width x sign x region x tail kind x parity,
    plus the overflow / half-smallest-subnormal edges) and the backend configurations (function x
    flush mode x extra precision x call protocol x operand class); this driver concretises each shape,
    builds real mpmath mpf objects / NumPy floats and calls the real utils.mpf2float,
    utils.vectorize_with_mpmath and utils.numpy_with_mpmath.  Plus random mantissas.
U3: every call is one event judged by Trace_Rounding.tla (Rounding.tla over IEEE.tla).

The driver never decides a clause: it logs the argument's raw _mpf_ tuple / the input bit patterns and the
result's bit pattern.  Notes printed by the spec (sub_not_rn, drift, ...) are statistics.
"""
import concurrent.futures as cf
import json
import multiprocessing
import os
import random
import warnings

import numpy

from .. import tlc, tlaval, bits
from ..common import Check, import_repo

PID = "C15"
FMTS = ["float16", "float32", "float64"]
EDGES = {"ovf", "ovf_m", "ovf_p", "maxfin", "twoemax", "half", "half_m", "half_p", "minsub", "zero"}
UNARY = {"id", "pos", "neg", "sq"}


# --------------------------------------------------------------------------- mpf construction
class Mp:
    """mpmath contexts by precision (the values are built with mpmath's public constructors)."""

    def __init__(self):
        import mpmath
        self.mpmath = mpmath
        self.ctxs = {}
        self.std = {q for p in bits.PREC.values() for q in (p, p + 1, p + 2, 2 * p, 10 * p)}

    def ctx(self, prec):
        c = self.ctxs.get(prec)
        if c is None:
            c = self.mpmath.mp.clone()
            c.prec = prec
            self.ctxs[prec] = c
        return c

    def make(self, sign, man, exp, prec, via):
        """An mpf with the exact value (-1)^sign * man * 2^exp living in a context of precision prec."""
        need = max(prec, man.bit_length(), 1)
        if need not in self.ctxs:
            need = (need + 63) // 64 * 64 if need not in self.std else need    # few distinct contexts (a clone costs ms)
        c = self.ctx(need)
        sm = -man if sign else man
        if via == 0:
            x = c.mpf((sm, exp))                         # (man, exp) pair: from_man_exp at the context precision
        elif via == 1:
            x = c.ldexp(c.mpf(sm), exp)
        else:
            x = c.make_mpf(self.mpmath.libmp.from_man_exp(sm, exp))
        return x


def mpf_fields(mp, x):
    """Uninterpreted record of the argument: mpmath's own classification and the raw tuple."""
    c = x.context
    if c.isnan(x):
        return dict(cls="nan", sign=0, man=[], exp=0, bc=0)
    if c.isinf(x):
        return dict(cls="inf" if x > 0 else "ninf", sign=0, man=[], exp=0, bc=0)
    s, man, exp, bc = x._mpf_
    return dict(cls="fin", sign=int(s), man=bits.nat(int(man)), exp=int(exp), bc=int(bc))


def result_bits(r, fmt):
    """Bit pattern of a result that must be a value of the format; ('', limbs) or (problem, [])."""
    dt = bits.FLOAT[fmt]
    if isinstance(r, numpy.ndarray) and r.shape == ():
        r = r[()]
    if type(r) is dt:
        return "", bits.fbits(r, fmt)
    if isinstance(r, (float, numpy.floating)):
        # a value of another float type: accepted only if it is exactly a value of the format
        with numpy.errstate(all="ignore"):
            c = dt(r)
            same = (numpy.isnan(c) and numpy.isnan(r)) or (numpy.longdouble(c) == numpy.longdouble(r) and numpy.signbit(c) == numpy.signbit(r))
        if same:
            return "", bits.fbits(c, fmt)
        return "ResultNotInFormat:" + type(r).__name__, []
    return "ResultType:" + type(r).__name__, []


# --------------------------------------------------------------------------- conversion shapes
def concretise_m2f(sh, rng):
    """(sign, man, exp, nontrivial) for a TLC shape, or None if this draw is infeasible."""
    fmt, n, sign, reg, tail, par = sh["fmt"], sh["n"], sh["sign"], sh["reg"], sh["tail"], sh["par"]
    p, emax = bits.PREC[fmt], bits.EMAX[fmt]
    emin = 1 - emax
    qmin = emin - (p - 1)
    if reg == "edge":
        if tail in ("ovf", "ovf_m", "ovf_p"):
            man = ((1 << (p + 1)) - 1) << (n - p - 1)
            man += {"ovf": 0, "ovf_m": -1, "ovf_p": 1}[tail]
            return sign, man, emax - (n - 1), True
        if tail == "maxfin":
            return sign, (1 << p) - 1, emax - p + 1, False
        if tail == "twoemax":
            return sign, 1, emax + 1, False
        if tail == "half":
            return sign, 1, qmin - 1, True
        if tail == "half_m":
            return sign, (1 << n) - 1, qmin - 1 - n, True
        if tail == "half_p":
            return sign, (1 << (n - 1)) + 1, qmin - n, True
        if tail == "minsub":
            return sign, 1, qmin, False
        if tail == "zero":
            return 0, 0, 0, False
        raise tlc.MachineryError("unknown edge shape %r" % (sh,))
    if reg == "emin":
        E = emin
    elif reg == "emin1":
        E = emin + 1
    elif reg == "mid":
        E = rng.randint(emin + 2, emax - 2)
    elif reg == "emax1":
        E = emax - 1
    elif reg == "emax":
        E = emax
    elif reg == "sub_hi":
        E = emin - 1
    elif reg == "sub_mid":
        E = rng.randint(qmin + 1, emin - 2)
    elif reg == "sub_lo":
        E = qmin
    else:
        raise tlc.MachineryError("unknown region %r" % (sh,))
    keep = p if E >= emin else E - qmin + 1
    room = n - keep
    if keep == 1:
        if par == 0:
            return None
        head = 1
    else:
        head = (1 << (keep - 1)) | (rng.getrandbits(keep - 1) & ~1) | par
        u = rng.random()
        if u < 0.1:
            head = ((1 << keep) - 1) if par else (1 << (keep - 1))      # carry into the next binade / power of two
        elif u < 0.15:
            head = (1 << (keep - 1)) | par
    if tail == "exact":
        return sign, head, E - (keep - 1), False
    if tail == "allones":
        return sign, (1 << n) - 1, E - (n - 1), room > 0
    if tail == "rand":
        man = (head << room) | (rng.getrandbits(room) if room > 0 else 0)
        return sign, man, E - (n - 1), room > 0
    need = 1 if tail == "tie" else 2
    if room < need:
        return None
    t = (1 << (room - 1)) + {"tie": 0, "tie_m": -1, "tie_p": 1}[tail]
    return sign, (head << room) | t, E - (n - 1), True


def random_m2f(fmt, rng):
    p, emax = bits.PREC[fmt], bits.EMAX[fmt]
    qmin = 1 - emax - (p - 1)
    n = rng.choice([rng.randint(1, p), rng.randint(p + 1, p + 4), rng.randint(p + 1, 10 * p)])
    man = (1 << (n - 1)) | rng.getrandbits(n - 1) if n > 1 else 1
    E = rng.randint(qmin - 3, emax + 1)
    return rng.getrandbits(1), man, E - (n - 1), n > p or E < 1 - emax


class M2FDriver:
    def __init__(self, utils, mp):
        self.utils = utils
        self.mp = mp

    def call(self, fmt, x, flush, proto):
        """-> (result or None, raised)."""
        dt = bits.FLOAT[fmt]
        # the flag phrased in every way a caller may (Python bool / numpy.bool_ / int), in rotation
        self.ncall = getattr(self, "ncall", 0) + 1
        flush = bool(flush) if self.ncall % 3 == 0 else numpy.bool_(bool(flush)) if self.ncall % 3 == 1 else int(bool(flush))
        try:
            with warnings.catch_warnings(), numpy.errstate(all="ignore"):
                warnings.simplefilter("ignore")
                if proto == "list":
                    r = self.utils.mpf2float(dt, [x, x], flush_subnormals=flush)
                    if not (isinstance(r, list) and len(r) == 2):
                        return None, "ListProtocol"
                    b0, b1 = result_bits(r[0], fmt), result_bits(r[1], fmt)
                    if b0 != b1:
                        return None, "ListElementsDiffer"
                    r = r[0]
                elif proto == "default":
                    r = self.utils.mpf2float(dt, x)
                else:
                    r = self.utils.mpf2float(dt, x, flush_subnormals=flush)
        except Exception as ex:  # noqa: any exception is a recorded outcome
            return None, type(ex).__name__
        return r, ""

    def event(self, eid, fmt, x, flush, proto, shape, via, src):
        r, raised = self.call(fmt, x, flush, proto)
        rb = []
        if not raised:
            raised, rb = result_bits(r, fmt)
        ev = dict(id=eid, kind="m2f", fmt=fmt, flush=bool(flush), r=rb, raised=raised, shape=shape,
                  proto=proto, via=via, src=src)
        ev.update(mpf_fields(self.mp, x))
        return ev


# --------------------------------------------------------------------------- backend operands
def mkfloat(fmt, sign, E, frac):
    """Float with lead exponent E (E = emin - 1 means the subnormal binade(s): frac is then the whole field)."""
    p, emax, w = bits.PREC[fmt], bits.EMAX[fmt], bits.WIDTH[fmt]
    emin = 1 - emax
    if E < emin:
        mag = frac % (1 << (p - 1))
    else:
        mag = ((E - emin + 1) << (p - 1)) | (frac % (1 << (p - 1)))
    return bits.from_bits_int((sign << (w - 1)) | mag, fmt)


def operands(fmt, fn, cls, rng):
    p, emax = bits.PREC[fmt], bits.EMAX[fmt]
    emin = 1 - emax
    qmin = emin - (p - 1)
    rb = rng.getrandbits
    s = rb(1)
    special = dict(inf=mkfloat(fmt, 0, emax + 1, 0), ninf=mkfloat(fmt, 1, emax + 1, 0), nan=mkfloat(fmt, 0, emax + 1, 1 << (p - 2)),
                   zero=mkfloat(fmt, 0, emin - 1, 0), nzero=mkfloat(fmt, 1, emin - 1, 0))
    if fn in UNARY:
        if cls in special:
            return (special[cls],)
        if cls == "normal":
            if fn == "sq":
                E = rng.choice([rng.randint(emin, emax), rng.randint(emin // 2 - p, emin // 2 + 2), rng.randint(emax // 2 - 2, emax // 2 + 2),
                                rng.randint(-p, p)])
            else:
                E = rng.randint(emin, emax)
            return (mkfloat(fmt, s, E, rb(p - 1)),)
        if cls == "sub":
            return (mkfloat(fmt, s, emin - 1, rng.randint(1, (1 << (p - 1)) - 1)),)
        if cls == "minsub":
            return (mkfloat(fmt, s, emin - 1, 1),)
        if cls == "minnormal":
            return (mkfloat(fmt, s, emin, rng.choice([0, 0, 1, rb(p - 1)])),)
        if cls == "max":
            return (mkfloat(fmt, s, emax, (1 << (p - 1)) - 1 - rng.choice([0, 0, 1, 2])),)
        raise tlc.MachineryError("unknown unary class %s" % cls)
    s2 = rb(1)
    if cls == "normal_normal":
        if fn == "mul":
            ea = rng.randint(emin // 2 + 1, emax // 2 - 1)
            eb = rng.randint(emin // 2 + 1, emax // 2 - 1)
        else:
            ea = rng.randint(emin + p + 3, emax - 2)
            eb = max(emin, min(emax - 2, ea + rng.randint(-p - 3, p + 3)))
        return mkfloat(fmt, s, ea, rb(p - 1)), mkfloat(fmt, s2, eb, rb(p - 1))
    if cls == "near_cancel":
        a = mkfloat(fmt, s, rng.randint(emin, emax - 1), rb(p - 1))
        ai = bits.fbits_int(a, fmt)
        k = rng.choice([0, 1, 1, 2, 3, rng.randint(1, 1 << (p // 2))])
        bi = max(ai - k, (ai >> (bits.WIDTH[fmt] - 1)) << (bits.WIDTH[fmt] - 1)) if rb(1) else ai + k
        b = bits.from_bits_int(bi ^ ((1 << (bits.WIDTH[fmt] - 1)) if fn == "add" else 0), fmt)
        if not numpy.isfinite(b):
            b = a
        return a, b
    if cls == "half_ulp":
        if fn == "mul":
            # few-bit operands whose product has exactly p + 1 significant bits: an exact tie
            k = rng.randint(1, p - 1)
            ea = rng.randint(emin // 2 + 1, emax // 2 - 1)
            eb = rng.randint(emin // 2 + 1, emax // 2 - 1)
            fa = 1 << (p - 1 - k)          # a = 1 + 2^-k
            fb = 1 << (k - 1)              # b = 1 + 2^-(p-k): a*b = 1 + 2^-k + 2^-(p-k) + 2^-p
            if rb(1):
                fa |= rb(1) << rng.randrange(p - 1)
            return mkfloat(fmt, s, ea, fa), mkfloat(fmt, s2, eb, fb)
        ea = rng.randint(emin + p + 2, emax - 2)
        a = mkfloat(fmt, s, ea, rb(p - 1))
        kind = rng.randrange(6)
        if kind == 0:
            b = mkfloat(fmt, s2, ea - p, 0)                                  # exactly half an ulp: a tie
        elif kind == 1:
            b = mkfloat(fmt, s2, ea - p, 1 << rng.randrange(p - 1))          # just above the tie
        elif kind == 2:
            b = mkfloat(fmt, s2, ea - p - 1, (1 << (p - 1)) - 1 - rng.choice([0, 1, rb(3)]))   # just below the tie
        elif kind == 3:
            b = mkfloat(fmt, s2, ea - p + 1, (1 << (p - 2)) - rng.choice([0, 1, 2]))   # 1.5 ulp-ish: tie after alignment
        elif kind == 4:
            b = mkfloat(fmt, s2, ea - p + rng.randint(-2, 2), rb(p - 1))
        else:
            b = mkfloat(fmt, s2, ea - p + 1, rb(2) << (p - 3) if p >= 3 else 0)
        return a, b
    if cls == "normal_sub":
        a = mkfloat(fmt, s, rng.randint(emin, emin + p + 1) if fn != "mul" else rng.randint(-2, p + 2), rb(p - 1))
        b = mkfloat(fmt, s2, emin - 1, rng.randint(1, (1 << (p - 1)) - 1))
        return (a, b) if rb(1) else (b, a)
    if cls == "sub_sub":
        return (mkfloat(fmt, s, emin - 1, rng.randint(1, (1 << (p - 1)) - 1)),
                mkfloat(fmt, s2, emin - 1, rng.randint(1, (1 << (p - 1)) - 1)))
    if cls == "under":
        if fn == "mul":
            target = rng.randint(qmin - 2, emin + 1)
            ea = rng.randint(max(emin, target - emax + 1), min(emax, target - emin))
            eb = max(emin, min(emax, target - ea))
            return mkfloat(fmt, s, ea, rb(p - 1)), mkfloat(fmt, s2, eb, rb(p - 1))
        ea = rng.randint(emin, emin + 2)
        a = mkfloat(fmt, s, ea, rb(p - 1))
        b = mkfloat(fmt, s ^ (1 if fn == "add" else 0), ea + rng.choice([0, 0, -1, 1]), rb(p - 1))
        return a, b
    if cls == "over":
        if fn == "mul":
            target = rng.randint(emax - 1, emax + 1)
            ea = rng.randint(max(emin, target - emax), min(emax, target - emin))
            eb = max(emin, min(emax, target - ea))
            fa, fb = rng.choice([(rb(p - 1), rb(p - 1)), ((1 << (p - 1)) - 1, (1 << (p - 1)) - 1 - rb(2))])
            return mkfloat(fmt, s, ea, fa), mkfloat(fmt, s2, eb, fb)
        a = mkfloat(fmt, s, emax, (1 << (p - 1)) - 1 - rng.choice([0, 0, 1, rb(p - 1)]))
        b = mkfloat(fmt, s ^ (1 if fn == "sub" else 0), rng.choice([emax, emax - 1, emax - p, emax - p - 1, emax - p + 1]),
                    rng.choice([0, 1, rb(p - 1), (1 << (p - 1)) - 1]))
        return a, b
    if cls == "zero_any":
        z = special["zero"] if rb(1) else special["nzero"]
        o = rng.choice([special["zero"], special["nzero"], mkfloat(fmt, s2, rng.randint(emin - 1, emax), rb(p - 1))])
        return (z, o) if rb(1) else (o, z)
    raise tlc.MachineryError("unknown binary class %s" % cls)


class BackendDriver:
    def __init__(self, utils):
        self.utils = utils
        self.cache = {}

    def func(self, fn, flush, xp, xm, pass_zero):
        # one backend object per configuration (constructing one clones five mpmath contexts)
        key = (fn, flush, xp, xm, pass_zero)
        if key not in self.cache:
            # an explicit flag is constructed while the module-level default says the OPPOSITE (it must win), in one of the
            # three phrasings of a flag; an unspecified flag under the shipped default
            u = self.utils
            saved = u.default_flush_subnormals
            try:
                if flush != "unspec":
                    u.default_flush_subnormals = flush != "true"
                self.cache[key] = self.make_func(fn, flush, xp, xm, pass_zero)
            finally:
                u.default_flush_subnormals = saved
        return self.cache[key]

    def make_func(self, fn, flush, xp, xm, pass_zero):
        kw = {}
        if flush != "unspec":
            form = (len(self.cache) + len(fn)) % 3
            kw["flush_subnormals"] = (flush == "true") if form == 0 else numpy.bool_(flush == "true") if form == 1 else int(flush == "true")
        if xp or pass_zero:
            kw["extra_prec"] = xp
        if xm or pass_zero:
            kw["extra_prec_multiplier"] = xm
        u = self.utils
        if fn == "id":
            return u.vectorize_with_mpmath(lambda x: x, **kw)
        if fn == "pos":
            return u.numpy_with_mpmath(**kw).positive
        if fn == "neg":
            return u.numpy_with_mpmath(**kw).negative
        if fn == "sq":
            return u.numpy_with_mpmath(**kw).square
        if fn == "add":
            return u.vectorize_with_mpmath(lambda a, b: a + b, **kw)
        if fn == "sub":
            return u.vectorize_with_mpmath(lambda a, b: a - b, **kw)
        if fn == "mul":
            return u.vectorize_with_mpmath(lambda a, b: a * b, **kw)
        raise tlc.MachineryError("unknown function %s" % fn)

    def run(self, fmt, fn, flush, xp, xm, mode, ops, pass_zero):
        """ops: list of operand tuples -> list of (result or None, raised)."""
        try:
            with warnings.catch_warnings(), numpy.errstate(all="ignore"):
                warnings.simplefilter("ignore")
                f = self.func(fn, flush, xp, xm, pass_zero)
                if mode == "scalar":
                    return [(f(*o), "") for o in ops]
                if mode == "array":
                    cols = [numpy.array([o[i] for o in ops], dtype=bits.FLOAT[fmt]) for i in range(len(ops[0]))]
                    n = len(ops)
                    if n >= 6 and n % 2 == 0 and (n // 2) % 3 != 1:
                        # the same operands as a 2-D array in a layout that is not C-contiguous (a transposed view): element
                        # (i, j) of the result belongs to element (i, j) of the inputs, whatever the memory order
                        cols2 = [numpy.ascontiguousarray(c.reshape(2, n // 2).T).T for c in cols]
                        assert not cols2[0].flags.c_contiguous
                        res = f(*cols2)
                        if not (isinstance(res, numpy.ndarray) and res.shape == (2, n // 2)):
                            return [(None, "ArrayProtocol")] * n
                        return [(res[i // (n // 2), i % (n // 2)], "") for i in range(n)]
                    res = f(*cols)
                    if not (isinstance(res, numpy.ndarray) and res.shape == (len(ops),)):
                        return [(None, "ArrayProtocol")] * len(ops)
                    return [(res[i], "") for i in range(len(ops))]
                if mode == "call":
                    samples = [o if len(o) > 1 else o[0] for o in ops]
                    res = f.call(samples, workers=1)
                    if len(res) != len(ops):
                        return [(None, "CallProtocol")] * len(ops)
                    return [(res[i], "") for i in range(len(ops))]
        except Exception as ex:  # noqa
            return [(None, type(ex).__name__)] * len(ops)
        raise tlc.MachineryError("unknown mode %s" % mode)

    def events(self, eid0, sh, ops, pass_zero):
        fmt = sh["fmt"]
        out = []
        res = self.run(fmt, sh["fn"], sh["flush"], sh["xp"], sh["xm"], sh["mode"], ops, pass_zero)
        for k, (o, (r, raised)) in enumerate(zip(ops, res)):
            rb = []
            if not raised:
                raised, rb = result_bits(r, fmt)
            out.append(dict(id=eid0 + k, kind="be", fmt=fmt, fn=sh["fn"], a=bits.fbits(o[0], fmt),
                            b=bits.fbits(o[1], fmt) if len(o) > 1 else [], flush=sh["flush"], xp=sh["xp"], xm=sh["xm"],
                            r=rb, raised=raised, mode=sh["mode"], cls=sh["cls"], pass_zero=pass_zero))
        return out


def _history_child(args):
    """One history in a forked child (what it leaves in the namespace's function cache dies with it): the module default says
    flush, an earlier user asks numpy_with_mpmath().<fn> without options, then an explicit flush_subnormals=False request
    for the same function is made - the explicit option must be honoured (events of shape flush="false")."""
    eid0, seed = args
    import_repo()
    from functional_algorithms import utils
    rng = random.Random(seed)
    utils.default_flush_subnormals = True
    out = []
    eid = eid0
    for fn, attr in (("pos", "positive"), ("neg", "negative"), ("sq", "square")):
        with warnings.catch_warnings(), numpy.errstate(all="ignore"):
            warnings.simplefilter("ignore")
            try:
                getattr(utils.numpy_with_mpmath(), attr)(numpy.float32(1.5))       # the earlier user
            except Exception:  # noqa
                pass
        bd = BackendDriver(utils)
        bd.func = lambda fn_, flush, xp, xm, pz, attr=attr: getattr(utils.numpy_with_mpmath(flush_subnormals=False), attr)
        for fmt in FMTS:
            for cls in ("sub", "minsub", "minnormal", "normal"):
                sh = dict(fmt=fmt, fn=fn, flush="false", xp=0, xm=0, mode="scalar", cls=cls)
                ops = [operands(fmt, fn, cls, rng) for _ in range(3)]
                evs = bd.events(eid, sh, ops, False)
                eid += len(evs)
                out += evs
    return out


def history_events(eid0, seed):
    with cf.ProcessPoolExecutor(max_workers=1, mp_context=multiprocessing.get_context("fork")) as ex:
        return ex.submit(_history_child, (eid0, seed)).result()


# --------------------------------------------------------------------------- verdict plumbing
def key_of(ev, clauses):
    cl = "+".join(clauses)
    if ev["kind"] == "m2f":
        return "mpf2float:%s:%s%s" % (ev["fmt"], cl, ":flush" if ev["flush"] else "")
    if clauses == ["backend_subnormal_flushed"]:
        return "backend:flush=%s:backend_subnormal_flushed" % ev["flush"]
    if clauses == ["backend_double_rounding"]:
        return "backend:extra_prec>0:backend_double_rounding"
    return "backend:%s:%s:flush=%s:%s" % (ev["fn"], ev["fmt"], ev["flush"], cl)


def describe(ev, clauses):
    if ev["kind"] == "m2f":
        if ev["cls"] != "fin":
            arg = ev["cls"]
        else:
            arg = "%s%d*2^%d" % ("-" if ev["sign"] else "", bits.unnat(ev["man"]), ev["exp"])
        return "mpf2float(%s, %s, flush_subnormals=%s) -> bits 0x%x %s: clauses %s" % (
            ev["fmt"], arg, ev["flush"], bits.unnat(ev["r"]), ev["raised"], clauses)
    return "%s(a=0x%x, b=0x%x) %s flush=%s extra_prec=%d multiplier=%d mode=%s -> bits 0x%x %s: clauses %s" % (
        ev["fn"], bits.unnat(ev["a"]), bits.unnat(ev["b"]), ev["fmt"], ev["flush"], ev["xp"], ev["xm"], ev["mode"],
        bits.unnat(ev["r"]), ev["raised"], clauses)


class Stats:
    def __init__(self):
        self.notes = {}
        self.by_tail = {}
        self.by_reg = {}
        self.by_fn = {}
        self.by_cls = {}
        self.by_flush = {}
        self.nontrivial = set()
        self.examples = {}

    def note(self, kind, ev):
        self.notes[kind] = self.notes.get(kind, 0) + 1
        self.examples.setdefault(kind, ev)


def validate(chk, events, stats):
    if not events:
        return
    res = tlc.validate_events("Trace_Rounding", "Trace.cfg", events, name="rounding")
    chk.add_trace("Trace_Rounding", res, len(events))
    byid = {e["id"]: e for e in events}
    for eid, text in res["notes"]:
        for kind in tlaval.parse(text)["__set__"]:
            stats.note(kind, byid[eid])
            if kind in ("shape_mismatch", "bc"):
                raise tlc.MachineryError("driver/spec disagree on a generated shape (%s): %s" % (kind, json.dumps(byid[eid])))
    for eid, clauses in res["fails"]:
        ev = byid[eid]
        chk.fail(key_of(ev, clauses), describe(ev, clauses), dict(event=ev, clauses=clauses))


def export_shapes(chk):
    r = tlc.run("MC_Rounding", "MC_Rounding_shapes.cfg", workers=1, timeout=600)
    if not r.ok:
        raise tlc.MachineryError("shape export failed:\n" + r.out[-2000:])
    chk.add_mc("MC_Rounding_shapes", r)
    m2f, be = [], []
    for v in tlaval.printed_values(r.out, "S"):
        (m2f if v[1] == "m2f" else be).append(v[2])
    key = lambda d: json.dumps(d, sort_keys=True)  # noqa: E731  deterministic order for a given seed
    m2f.sort(key=key)
    be.sort(key=key)
    if len(m2f) < 1000 or len(be) < 5000:
        raise tlc.MachineryError("shape export too small: %d conversion, %d backend shapes" % (len(m2f), len(be)))
    return m2f, be


def run(tier, seed):
    fa = import_repo()
    from functional_algorithms import utils
    chk = Check(PID, tier, seed)
    rng = random.Random(seed)
    quick = tier == "quick"
    # ---- U1 (started now, joined before the first trace validation: TLC is a subprocess)
    import concurrent.futures as cf
    pool = cf.ThreadPoolExecutor(max_workers=1)
    u1_future = pool.submit(tlc.run, "MC_Rounding", "MC_Rounding_quick.cfg" if quick else "MC_Rounding.cfg",
                            workers=6, timeout=1800)

    def join_u1():
        r = u1_future.result()
        chk.add_mc("MC_Rounding", r)
        if not r.ok:
            if r.invariant_violated:
                # the design / oracle itself is inconsistent: nothing below can be trusted
                raise tlc.MachineryError("MC_Rounding violates %s:\n%s" % (r.invariant_violated, r.error_trace()))
            raise tlc.MachineryError("MC_Rounding did not complete:\n" + r.out[-2000:])
        wit = {}
        for v in tlaval.printed_values(r.out, "W"):
            wit[v[1]] = wit.get(v[1], 0) + 1
        dr = len(tlaval.printed_values(r.out, "DR"))
        for need in ("dr_add", "dr_mul", "flush_id", "flush_mul"):
            if not wit.get(need):
                raise tlc.MachineryError("vacuous model run: no witness for %s" % need)
        if not dr:
            raise tlc.MachineryError("vacuous model run: the two-step algorithm never differs from RN on T4")
        expect = 21 * 127 * 2 + (64 if quick else 128) * 128 + 21 + (64 if quick else 128)
        if r.distinct != expect:
            raise tlc.MachineryError("MC_Rounding explored %d states, expected %d" % (r.distinct, expect))
        chk.cov["u1"] = dict(witnesses=wit, two_step_not_rn_values=dr)

    # ---- U2
    m2f_shapes, be_shapes = export_shapes(chk)
    mp = Mp()
    md = M2FDriver(utils, mp)
    bd = BackendDriver(utils)
    # the history runs first, in a child forked while this process has not yet constructed any backend function (the child
    # inherits the parent's function caches); its events are validated with the backend events below (ids above 10^8)
    hist_evs = history_events(10 ** 8, seed)
    stats = Stats()
    per_shape = 20 if quick else 520
    n_random = 21000 if quick else 600000
    per_be = 1 if quick else 16
    batch_size = 250000
    events = []
    eid = 0
    infeasible = 0

    u1_joined = []

    def flush_batch(force=False):
        nonlocal events
        if events and (force or len(events) >= batch_size):
            if not u1_joined:
                join_u1()
                u1_joined.append(True)
            validate(chk, events, stats)
            events = []

    def protocol():
        u = rng.random()
        fl = u < 0.15
        if fl:
            return True, "kw"
        return False, ("default" if u < 0.55 else "list" if u < 0.62 else "kw")

    for sh in m2f_shapes:
        for _ in range(per_shape if sh["reg"] != "edge" else max(4, per_shape // 8)):
            c = concretise_m2f(sh, rng)
            if c is None:
                infeasible += 1
                continue
            sign, man, exp, nontrivial = c
            via = rng.randrange(3)
            x = mp.make(sign, man, exp, sh["n"], via)
            fl, proto = protocol()
            ev = md.event(eid, sh["fmt"], x, fl, proto, [sh["tail"], sh["n"]], via, "shape:" + sh["reg"])
            events.append(ev)
            eid += 1
            stats.by_tail[sh["tail"]] = stats.by_tail.get(sh["tail"], 0) + 1
            stats.by_reg[sh["reg"]] = stats.by_reg.get(sh["reg"], 0) + 1
            if nontrivial:
                stats.nontrivial.add(hash((sh["fmt"], sign, man, exp, fl)))
            if eid % 9973 == 0:
                chk.sample(ev)
        flush_batch()
    for fmt in FMTS:
        for cls, x in (("inf", mp.ctx(53).inf), ("ninf", -mp.ctx(53).inf), ("nan", mp.ctx(53).nan), ("zero", mp.ctx(53).zero)):
            for fl in (False, True):
                events.append(md.event(eid, fmt, x, fl, "kw", [], 0, "special"))
                eid += 1
        for _ in range(n_random // 3):
            sign, man, exp, nontrivial = random_m2f(fmt, rng)
            via = rng.randrange(3)
            x = mp.make(sign, man, exp, rng.choice([bits.PREC[fmt], man.bit_length(), 10 * bits.PREC[fmt]]), via)
            fl, proto = protocol()
            events.append(md.event(eid, fmt, x, fl, proto, [], via, "random"))
            eid += 1
            stats.by_tail["random"] = stats.by_tail.get("random", 0) + 1
            if nontrivial:
                stats.nontrivial.add(hash((fmt, sign, man, exp, fl)))
            flush_batch()
    n_m2f = eid
    # backend
    for shi, sh in enumerate(be_shapes):
        # (array calls of one shape in four carry at least six elements, so that a two-dimensional non-contiguous layout exists)
        nops = max(per_be, 6) if (sh["mode"] == "array" and shi % 4 == 0) else per_be
        ops = [operands(sh["fmt"], sh["fn"], sh["cls"], rng) for _ in range(nops)]
        evs = bd.events(eid, sh, ops, rng.random() < 0.3)
        eid += len(evs)
        events += evs
        stats.by_fn[sh["fn"]] = stats.by_fn.get(sh["fn"], 0) + len(evs)
        stats.by_cls[sh["cls"]] = stats.by_cls.get(sh["cls"], 0) + len(evs)
        stats.by_flush[sh["flush"]] = stats.by_flush.get(sh["flush"], 0) + len(evs)
        for e in evs:
            stats.nontrivial.add(hash((e["fmt"], e["fn"], tuple(e["a"]), tuple(e["b"]), e["flush"], e["xp"], e["xm"])))
        if evs and evs[0]["id"] % 4999 < len(evs):
            chk.sample(evs[0])
        flush_batch()
    events += hist_evs
    stats.by_fn["history"] = len(hist_evs)
    flush_batch(force=True)
    n_be = eid - n_m2f
    # ---- notes and statistics
    n_sub = sum(v for k, v in stats.by_reg.items() if k.startswith("sub"))
    if stats.notes.get("sub_not_rn"):
        ex = stats.examples["sub_not_rn"]
        chk.note("mpf2float is not round-to-nearest in the subnormal range (nothing demanded there): %d of %d shaped "
                 "subnormal-range events (+ random ones), e.g. %s" % (stats.notes["sub_not_rn"], n_sub, describe(ex, [])))
    if stats.notes.get("drift"):
        chk.drift_note("mpf2float result differs from the transcription CodeM2F on %d events, e.g. %s"
                       % (stats.notes["drift"], describe(stats.examples["drift"], [])))
    for k in ("backend_sub_not_rn", "explicit_flush_not_applied", "explicit_flush_result"):
        if stats.notes.get(k):
            chk.note("%s: %d backend events, e.g. %s" % (k, stats.notes[k], describe(stats.examples[k], [])))
    chk.assumptions += [
        "nothing is demanded of mpf2float where RN(value) is subnormal or |value| is exactly half the smallest subnormal (noted only)",
        "the sign of an exact zero result is free",
        "mpf2float(flush_subnormals=True): a value below the smallest normal may become a signed zero even if RN rounds it up to the smallest normal",
        "backend, explicit flush_subnormals=True: nothing demanded when an input is subnormal or the exact result is in the subnormal range",
        "backend, subnormal-range result that is not exactly representable: one lattice step of error tolerated",
        "backend functions are those whose exact value the spec computes: identity, positive, negative, square, + - *",
        "a result of another float type is accepted when it is exactly a value of the target format",
        "mpf arguments are normalised mpf values built by mpmath's public constructors; inf/nan classification by mpmath",
    ]
    return chk.finish(
        rule="conversion: every TLC shape concretised %d times (edges %d) + %d random mantissas; backend: every TLC "
             "configuration with %d operand tuple(s); non-trivial = distinct conversion arguments with discarded "
             "tail bits (or subnormal-range) plus distinct backend (function, inputs, options) tuples"
             % (per_shape, max(4, per_shape // 8), n_random, per_be),
        distinct_nontrivial=len(stats.nontrivial),
        extra_cov=dict(conversion_events=n_m2f, backend_events=n_be, conversion_shapes=len(m2f_shapes),
                       backend_shapes=len(be_shapes), infeasible_draws=infeasible, by_tail=stats.by_tail, by_region=stats.by_reg,
                       by_function=stats.by_fn, by_operand_class=stats.by_cls, by_flush=stats.by_flush,
                       spec_notes=stats.notes))


def reexecute(ev, utils):
    """Run the call recorded in a replay event again on the real code; returns the fresh event."""
    if ev["kind"] == "m2f":
        mp = Mp()
        md = M2FDriver(utils, mp)
        if ev["cls"] == "fin":
            man = bits.unnat(ev["man"])
            x = mp.make(ev["sign"], man, ev["exp"], max(man.bit_length(), 1), ev.get("via", 2))
        else:
            c = mp.ctx(53)
            x = dict(inf=c.inf, ninf=-c.inf, nan=c.nan)[ev["cls"]]
        return md.event(ev["id"], ev["fmt"], x, ev["flush"], ev.get("proto", "kw"), ev.get("shape", []), ev.get("via", 2), "replay")
    bd = BackendDriver(utils)
    fmt = ev["fmt"]
    ops = (bits.from_bits(ev["a"], fmt),) + ((bits.from_bits(ev["b"], fmt),) if ev["fn"] not in UNARY else ())
    sh = dict(fmt=fmt, fn=ev["fn"], flush=ev["flush"], xp=ev["xp"], xm=ev["xm"], mode=ev.get("mode", "scalar"), cls=ev.get("cls", ""))
    return bd.events(ev["id"], sh, [ops], ev.get("pass_zero", False))[0]


def replay(path):
    import_repo()
    from functional_algorithms import utils
    with open(path) as f:
        rp = json.load(f)["replay"]
    ev = reexecute(rp["event"], utils)
    print(json.dumps(ev))
    res = tlc.validate_events("Trace_Rounding", "Trace.cfg", [ev], nproc=1)
    for eid, clauses in res["fails"]:
        print("VIOLATION property=%s replay=%s  # %s: %s" % (PID, path, key_of(ev, clauses), describe(ev, clauses)))
    for eid, text in res["notes"]:
        print("note: %s" % text)
    return 1 if res["fails"] else 0
