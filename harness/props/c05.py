"""C05 - executable targets (Python, NumPy, C++) compute exactly the traced graph.

U1: MC_Printer (transcription of need_ref + PrinterBase.tostring on ALL small DAGs x force_ref sets, run
    through the FAPrinter machine) and MC_TargetTables (the package's template tables, extracted from
    the working tree into a generated TLA+ module, against the spec's own Implements table).
U2: programs = every shipped (function, signature) each target accepts x debug 0/1, plus graphs from
    TLC's term generators (FATerms, TypedTerms, PrinterTerms) built in the real package.
U3: each emitted text is parsed by parsers that are independent of the package (harness/fa_printer.py),
    the real graph is projected into a node table, the text is compiled/exec'ed and run on inputs, and
    Trace_Printer.tla judges every clause (the machine of FAPrinter.tla, the C++ typing rules, and for
    graphs over IEEE-exact kinds the bit-exact evaluation of FAPrinterEval.tla).
The harness's own direct evaluation of the node table (Python/NumPy interpreter below, reference C++
rendering compiled next to the emitted code) is differential execution with the same primitive
library; it is trusted base and feeds only clause exec_equal.
"""
import concurrent.futures as cf
import contextlib
import pickle
import ctypes
import hashlib
import json
import math
import operator
import os
import random
import re
import subprocess
import sys
import time
import warnings

import numpy

from .. import tlc, tlaval, bits
from .. import fa_printer as P
from ..common import Check, import_repo

PID = "C05"
TARGETS = ("python", "numpy", "cpp")
LANG = dict(python="python", numpy="python", cpp="cpp")
NWORK = max(2, min(12, (os.cpu_count() or 4) - 2))

# ------------------------------------------------------------------------------------------
# value records (uninterpreted encodings of inputs / results)
# ------------------------------------------------------------------------------------------
Z0 = [0, []]


def rec(c, fmt="", b=(), im=(), z=None):
    return dict(c=c, fmt=fmt, bits=list(b), im=list(im), z=z if z is not None else Z0)


SKIP = rec("skip")
CFMT = dict(complex64="float32", complex128="float64")


def enc(v):
    """Python / NumPy result object -> value record"""
    if isinstance(v, numpy.ndarray):
        if v.ndim != 0:
            return SKIP
        v = v[()]
    if isinstance(v, (bool, numpy.bool_)):
        return rec("b", z=bits.zint(int(bool(v))))
    if isinstance(v, (int, numpy.integer)):
        return rec("i", z=bits.zint(int(v)))
    if isinstance(v, float):
        return rec("f", "float64", bits.fbits(numpy.float64(v), "float64"))
    if isinstance(v, numpy.floating):
        name = v.dtype.name
        if name not in bits.WIDTH:
            return SKIP
        return rec("f", name, bits.fbits(v, name))
    if isinstance(v, complex):
        return rec("z", "float64", bits.fbits(numpy.float64(v.real), "float64"), bits.fbits(numpy.float64(v.imag), "float64"))
    if isinstance(v, numpy.complexfloating):
        f = CFMT.get(v.dtype.name)
        if f is None:
            return SKIP
        return rec("z", f, bits.fbits(v.real, f), bits.fbits(v.imag, f))
    return SKIP


def enc_raise(ex):
    return rec("raise", type(ex).__name__)


# ------------------------------------------------------------------------------------------
# inputs
# ------------------------------------------------------------------------------------------
def float_pool(fmt, rng, n):
    """n values of a binary format: special shapes first, then random finite values of all magnitudes"""
    ft = bits.FLOAT[fmt]
    fi = numpy.finfo(ft)
    with numpy.errstate(all="ignore"):
        sp = [ft(0.0), ft(1.0), ft(-1.0), ft(0.5), ft(2.0), ft(3.0), ft(-0.0), ft(1.5), ft(0.1), ft(-2.5), ft(numpy.inf), ft(-numpy.inf),
              ft(numpy.nan), fi.smallest_subnormal, -fi.smallest_subnormal, fi.smallest_normal, fi.max, -fi.max, ft(1) + fi.eps,
              ft(1) - fi.eps / ft(2), ft(1e-3), ft(123.456), ft(-0.75), fi.max / ft(2), fi.smallest_normal * ft(4)]
    out = list(sp)
    w = bits.WIDTH[fmt]
    while len(out) < n:
        u = rng.getrandbits(w)
        x = bits.from_bits_int(u, fmt)
        if rng.random() < 0.5:
            # moderate magnitudes
            with numpy.errstate(all="ignore"):
                x = ft(rng.uniform(-4, 4)) * ft(2.0) ** ft(rng.randint(-6, 6))
        out.append(x)
    return out


def make_inputs(params, n, rng):
    """params: [(name, irtype)] -> list of n argument tuples (NumPy scalars / Python values), or None"""
    cols = []
    for name, t in params:
        if t in ("float", "float64", "float32", "float16"):
            fmt = "float64" if t == "float" else t
            pool = float_pool(fmt, rng, n)
            col = pool[:25]
            rng.shuffle(col)
            col += pool[25:]
        elif t in ("complex", "complex64", "complex128"):
            fmt = dict(complex="float64", complex128="float64", complex64="float32")[t]
            ct = dict(float64=numpy.complex128, float32=numpy.complex64)[fmt]
            a, b = float_pool(fmt, rng, n), float_pool(fmt, rng, n)
            rng.shuffle(a)
            rng.shuffle(b)
            col = [numpy.array([x, y], dtype=bits.FLOAT[fmt]).view(ct)[0] for x, y in zip(a, b)]
        elif t == "boolean":
            col = [bool(rng.getrandbits(1)) for _ in range(n)]
        elif t.startswith("integer"):
            bw = int(t[7:] or 64)
            sp = [0, 1, -1, 2, 3, 7, -8, 2 ** (bw - 2), -(2 ** (bw - 2))]
            col = [sp[i] if i < len(sp) else rng.randint(-100, 100) for i in range(n)]
            rng.shuffle(col)
            col = [getattr(numpy, "int%d" % bw)(x) for x in col]
        else:
            return None
        cols.append(col)
    if len(cols) >= 2:
        # make some samples hit equal / related operands
        for i in range(0, n, 7):
            cols[1][i] = cols[0][i] if type(cols[1][i]) is type(cols[0][i]) else cols[1][i]
    return [tuple(c[i] for c in cols) for i in range(n)]


def to_target_value(tname, v):
    """inputs are generated as NumPy scalars; the Python target gets Python objects"""
    if tname != "python":
        return v
    if isinstance(v, numpy.floating):
        return float(v)
    if isinstance(v, numpy.complexfloating):
        return complex(v)
    if isinstance(v, numpy.integer):
        return int(v)
    return v


# ------------------------------------------------------------------------------------------
# the harness's own table of primitives (NOT the package's): direct evaluation of a node table
# ------------------------------------------------------------------------------------------
def _np_where(c, a, b):
    return numpy.where(c, a, b)


PY_PRIM = dict(
    absolute=abs, negative=operator.neg, positive=operator.pos, add=operator.add, subtract=operator.sub, multiply=operator.mul,
    divide=operator.truediv, remainder=operator.mod, floor_divide=operator.floordiv, pow=operator.pow,
    logical_and=lambda a, b: a and b, logical_or=lambda a, b: a or b, logical_not=lambda a: not a,
    bitwise_invert=operator.invert, bitwise_and=operator.and_, bitwise_or=operator.or_, bitwise_xor=operator.xor,
    bitwise_left_shift=operator.lshift, bitwise_right_shift=operator.rshift, maximum=max, minimum=min,
    acos=math.acos, acosh=math.acosh, asin=math.asin, asinh=math.asinh, atan=math.atan, atanh=math.atanh, atan2=math.atan2,
    cos=math.cos, cosh=math.cosh, sin=math.sin, sinh=math.sinh, tan=math.tan, tanh=math.tanh, exp=math.exp, expm1=math.expm1,
    exp2=getattr(math, "exp2", None), log=math.log, log1p=math.log1p, log2=math.log2, log10=math.log10, ceil=math.ceil,
    floor=math.floor, copysign=math.copysign, truncate=math.trunc, hypot=math.hypot, sqrt=math.sqrt,
    conjugate=lambda z: z.conjugate(), real=lambda z: z.real, imag=lambda z: z.imag, complex=complex,
    select=lambda c, a, b: a if c else b, lt=operator.lt, le=operator.le, gt=operator.gt, ge=operator.ge, eq=operator.eq,
    ne=operator.ne, is_finite=math.isfinite,
)
PY_NAMED = dict(largest=sys.float_info.max, smallest=sys.float_info.min, eps=sys.float_info.epsilon, posinf=math.inf,
                neginf=-math.inf, pi=math.pi, nan=math.nan)
NP_PRIM = dict(
    absolute=numpy.abs, negative=operator.neg, positive=operator.pos, add=operator.add, subtract=operator.sub,
    multiply=operator.mul, divide=operator.truediv, remainder=operator.mod, floor_divide=operator.floordiv, pow=operator.pow,
    logical_and=numpy.logical_and, logical_or=numpy.logical_or, logical_xor=numpy.logical_xor, logical_not=numpy.logical_not,
    bitwise_invert=operator.invert, bitwise_and=operator.and_, bitwise_or=operator.or_, bitwise_xor=operator.xor,
    bitwise_left_shift=operator.lshift, bitwise_right_shift=operator.rshift, maximum=max, minimum=min,
    acos=numpy.arccos, acosh=numpy.arccosh, asin=numpy.arcsin, asinh=numpy.arcsinh, atan=numpy.arctan, atanh=numpy.arctanh,
    atan2=numpy.arctan2, cos=numpy.cos, cosh=numpy.cosh, sin=numpy.sin, sinh=numpy.sinh, tan=numpy.tan, tanh=numpy.tanh,
    exp=numpy.exp, exp2=numpy.exp2, expm1=numpy.expm1, log=numpy.log, log1p=numpy.log1p, log2=numpy.log2, log10=numpy.log10,
    ceil=numpy.ceil, floor=numpy.floor, copysign=numpy.copysign, sign=numpy.sign, truncate=numpy.trunc, hypot=numpy.hypot,
    square=numpy.square, sqrt=numpy.sqrt, conjugate=lambda z: z.conjugate(), real=lambda z: z.real, imag=lambda z: z.imag,
    select=_np_where, lt=numpy.less, le=numpy.less_equal, gt=numpy.greater, ge=numpy.greater_equal, eq=numpy.equal,
    ne=numpy.not_equal, nextafter=numpy.nextafter, is_finite=numpy.isfinite,
)
NP_TYPE = dict(float16=numpy.float16, float32=numpy.float32, float64=numpy.float64, float=numpy.float64,
               complex64=numpy.complex64, complex128=numpy.complex128, complex=numpy.complex128, integer8=numpy.int8,
               integer16=numpy.int16, integer32=numpy.int32, integer64=numpy.int64, integer=numpy.int64, boolean=numpy.bool_)
WIDER = dict(float16="float32", float32="float64", complex64="complex128", integer8="integer16", integer16="integer32", integer32="integer64")
NARROWER = {v: k for k, v in WIDER.items()}


def _np_complex(r, i):
    # the IR's `complex` of two floats of one format: the complex number with these parts
    if r.dtype == numpy.float32 and i.dtype == numpy.float32:
        return numpy.array([r, i], dtype=numpy.float32).view(numpy.complex64)[0]
    if r.dtype == numpy.float64 and i.dtype == numpy.float64:
        return numpy.array([r, i], dtype=numpy.float64).view(numpy.complex128)[0]
    raise NotImplementedError("complex of mixed parts")


def _np_named(name, t):
    ty = NP_TYPE[t]
    fi = numpy.finfo(ty)
    return dict(largest=lambda: fi.max, smallest=lambda: fi.smallest_normal, eps=lambda: fi.eps,
                smallest_subnormal=lambda: fi.smallest_subnormal, posinf=lambda: ty(numpy.inf), neginf=lambda: -ty(numpy.inf),
                pi=lambda: ty(numpy.pi), nan=lambda: ty(numpy.nan))[name]()


class NotEvaluable(Exception):
    pass


def wild_lambda(template):
    """a wild-carded kind is accepted as emitted: its primitive is the package's template itself"""
    if not isinstance(template, str):
        raise NotEvaluable("wild template")
    src = "lambda a0=None, a1=None, a2=None: " + template.format("a0", "a1", "a2")
    return eval(src, dict(math=math, numpy=numpy, sys=sys))


def direct_eval(tname, nodes, exprs, root, args, wild_templates):
    """strict evaluation of every node once, operands first, with the target's primitive library"""
    vals = [None] * (len(nodes) + 1)
    prim = PY_PRIM if tname == "python" else NP_PRIM
    for m, n in enumerate(nodes, 1):
        k = n["k"]
        if k == "symbol":
            if n["n"] not in args:
                raise NotEvaluable("free symbol " + n["n"])
            v = args[n["n"]]
        elif k == "constant":
            raw = exprs[m - 1].operands[0]
            if n["v"]["c"] == "unsupported":
                raise NotEvaluable("constant not encoded: " + n["v"]["name"])
            if P.alt_value(raw) is not None:       # (mixed real/complex alt constants are "unsupported" above)
                raw = P.alt_value(raw)        # enable_alt: the number in the alternative type (converted to the node's type below)
            if isinstance(raw, str):
                if tname == "python":
                    if raw not in PY_NAMED:
                        raise NotEvaluable("named constant " + raw)
                    v = PY_NAMED[raw]
                else:
                    v = _np_named(raw, n["t"])
            elif tname == "python":
                # the Python target has one float type: a NumPy scalar constant denotes the Python number of the same value
                v = (float(raw) if isinstance(raw, numpy.floating) else int(raw) if isinstance(raw, numpy.integer)
                     else complex(raw) if isinstance(raw, numpy.complexfloating) else bool(raw) if isinstance(raw, numpy.bool_) else raw)
            else:
                if n["t"] not in NP_TYPE:
                    raise NotEvaluable("type " + n["t"])
                v = NP_TYPE[n["t"]](raw)
        else:
            ops = [vals[j] for j in n["a"]]
            if k in ("upcast", "downcast") and tname == "numpy":
                src = nodes[n["a"][0] - 1]["t"]
                dst = (WIDER if k == "upcast" else NARROWER).get(src)
                if dst is None:
                    raise NotEvaluable("cast of " + src)
                v = NP_TYPE[dst](ops[0])
            elif k == "complex" and tname == "numpy":
                v = _np_complex(*ops)
            elif k in wild_templates:
                v = wild_lambda(wild_templates[k])(*ops)
            else:
                f = prim.get(k)
                if f is None:
                    raise NotEvaluable("kind " + k)
                v = f(*ops)
        vals[m] = v
    return vals[root]


# ------------------------------------------------------------------------------------------
# reference C++ rendering of a node table (one typed statement per node, the harness's own table)
# ------------------------------------------------------------------------------------------
CPP_T = dict(float32="float", float64="double", float="double", complex64="std::complex<float>", complex128="std::complex<double>",
             complex="std::complex<double>", boolean="bool", integer8="int8_t", integer16="int16_t", integer32="int32_t",
             integer64="int64_t", integer="int64_t")
CPP_MATH1 = {"acos", "acosh", "asin", "asinh", "atan", "atanh", "cos", "cosh", "sin", "sinh", "tan", "tanh", "exp", "exp2", "expm1",
             "log", "log1p", "log2", "log10", "ceil", "floor", "sqrt"}
CPP_MATH2 = {"atan2", "copysign", "hypot", "nextafter", "pow"}
CPP_BIN = dict(add="+", subtract="-", multiply="*", divide="/", bitwise_and="&", bitwise_or="|", bitwise_xor="^",
               bitwise_left_shift="<<", bitwise_right_shift=">>")
CPP_REL = dict(lt="<", le="<=", gt=">", ge=">=", eq="==", ne="!=")
NPDT = dict(float="float64", float64="float64", float32="float32", complex="complex128", complex128="complex128", complex64="complex64",
            boolean="uint8", integer="int64", integer64="int64", integer32="int32", integer16="int16", integer8="int8")


def _is_cx(t):
    return t.startswith("complex")


def _is_fl(t):
    return t.startswith("float")


def cpp_const(raw, t):
    T = CPP_T[t]
    if isinstance(raw, str):
        e = dict(largest="std::numeric_limits<%s>::max()", smallest="std::numeric_limits<%s>::min()",
                 eps="std::numeric_limits<%s>::epsilon()", smallest_subnormal="std::numeric_limits<%s>::denorm_min()",
                 posinf="std::numeric_limits<%s>::infinity()", neginf="-std::numeric_limits<%s>::infinity()",
                 nan="std::numeric_limits<%s>::quiet_NaN()").get(raw)
        if e is not None and _is_fl(t):
            return e % T
        if raw == "pi" and _is_fl(t):
            raw = math.pi
        else:
            raise NotEvaluable("named constant " + str(raw))
    if _is_fl(t):
        if isinstance(raw, (complex, numpy.complexfloating)):
            raise NotEvaluable("complex value for float node")
        fmt = "float64" if t == "float" else t
        with numpy.errstate(all="ignore"):
            x = bits.FLOAT[fmt](raw)
        u = bits.fbits_int(x, fmt)
        return ("fa_f32(0x%xu)" if fmt == "float32" else "fa_f64(0x%xull)") % u
    if _is_cx(t):
        pf = "float32" if t == "complex64" else "float64"
        z = complex(raw)
        with numpy.errstate(all="ignore"):
            re_, im_ = bits.FLOAT[pf](z.real), bits.FLOAT[pf](z.imag)
        mk = "fa_f32(0x%xu)" if pf == "float32" else "fa_f64(0x%xull)"
        return "%s(%s, %s)" % (T, mk % bits.fbits_int(re_, pf), mk % bits.fbits_int(im_, pf))
    if t == "boolean":
        return "true" if raw else "false"
    if t.startswith("integer"):
        return "(%s)%dLL" % (T, int(raw))
    raise NotEvaluable("constant of type " + t)


def cpp_reference(nodes, exprs, root, params, wild_templates, name):
    """C++ text of `RET name(params)`: every node once, in its static type"""
    lines = []
    tys = [None] + [n["t"] for n in nodes]

    def cast(j, t):
        """operand j converted to IR type t (only between types of one class)"""
        s = tys[j]
        if s == t or t not in CPP_T:
            return "n%d" % j
        if (_is_fl(s) or s.startswith("integer") or s == "boolean") and _is_fl(t):
            return "(%s)n%d" % (CPP_T[t], j)
        if _is_cx(s) and _is_cx(t):
            return "(%s)n%d" % (CPP_T[t], j)
        if _is_fl(s) and _is_cx(t):
            return "(%s)n%d" % (CPP_T["float32" if t == "complex64" else "float64"], j)
        if s.startswith("integer") and t.startswith("integer"):
            return "(%s)n%d" % (CPP_T[t], j)
        return "n%d" % j

    for m, n in enumerate(nodes, 1):
        k, t, a = n["k"], n["t"], n["a"]
        if t not in CPP_T:
            raise NotEvaluable("type " + t)
        T = CPP_T[t]
        if k == "symbol":
            if n["n"] not in [p[0] for p in params]:
                raise NotEvaluable("free symbol")
            e = n["n"]
        elif k == "constant":
            if n["v"]["c"] == "unsupported":
                raise NotEvaluable("constant not encoded: " + n["v"]["name"])
            raw = exprs[m - 1].operands[0]
            e = cpp_const(raw if P.alt_value(raw) is None else P.alt_value(raw), t)
        elif k in wild_templates and isinstance(wild_templates[k], str):
            e = wild_templates[k].format(*["n%d" % j for j in a], typeof_0=CPP_T.get(tys[a[-1]], "double"))
        elif k in CPP_BIN:
            e = "%s %s %s" % (cast(a[0], t), CPP_BIN[k], cast(a[1], t))
        elif k in CPP_REL:
            ts = [tys[j] for j in a]
            com = max(ts, key=lambda s: (_is_cx(s), _is_fl(s), int(re.sub(r"\D", "", s) or 64)))
            e = "%s %s %s" % (cast(a[0], com), CPP_REL[k], cast(a[1], com))
        elif k in CPP_MATH1:
            e = "std::%s(%s)" % (k, cast(a[0], t))
        elif k in CPP_MATH2:
            e = "std::%s(%s, %s)" % (k, cast(a[0], t), cast(a[1], t))
        elif k == "maximum":
            e = "std::max(%s, %s)" % (cast(a[0], t), cast(a[1], t))
        elif k == "minimum":
            e = "std::min(%s, %s)" % (cast(a[0], t), cast(a[1], t))
        elif k == "absolute":
            e = "std::abs(n%d)" % a[0]
        elif k == "negative":
            e = "-n%d" % a[0]
        elif k == "positive":
            e = "+n%d" % a[0]
        elif k == "square":
            e = "n%d * n%d" % (a[0], a[0])
        elif k == "truncate":
            e = "std::trunc(n%d)" % a[0]
        elif k == "is_finite":
            e = "std::isfinite(n%d)" % a[0]
        elif k == "logical_and":
            e = "n%d && n%d" % tuple(a)
        elif k == "logical_or":
            e = "n%d || n%d" % tuple(a)
        elif k == "logical_xor":
            e = "n%d != n%d" % tuple(a)
        elif k == "logical_not":
            e = "!n%d" % a[0]
        elif k == "bitwise_invert":
            e = "~n%d" % a[0]
        elif k == "real":
            e = "std::real(n%d)" % a[0]
        elif k == "imag":
            e = "std::imag(n%d)" % a[0]
        elif k == "conjugate":
            e = "std::conj(n%d)" % a[0]
        elif k == "complex":
            pt = "float32" if t == "complex64" else "float64"
            e = "%s(%s, %s)" % (T, cast(a[0], pt), cast(a[1], pt))
        elif k == "select":
            e = "n%d ? %s : %s" % (a[0], cast(a[1], t), cast(a[2], t))
        elif k in ("upcast", "downcast"):
            e = "(%s)n%d" % (T, a[0])
        else:
            raise NotEvaluable("kind " + k)
        if k == "symbol":
            lines.append("  const %s n%d = %s;" % (T, m, e))
        else:
            lines.append("  const %s n%d = %s;" % (T, m, e))
    sig = ", ".join("%s %s" % (CPP_T[t], nm) for nm, t in params)
    return "%s %s(%s) {\n%s\n  return n%d;\n}\n" % (CPP_T[tys[root]], name, sig, "\n".join(lines), root)


CPP_PRELUDE = """
#include <cstring>
#include <cstdint>
static inline float fa_f32(uint32_t u) { float f; std::memcpy(&f, &u, 4); return f; }
static inline double fa_f64(uint64_t u) { double f; std::memcpy(&f, &u, 8); return f; }
"""


class CppBatch:
    """programs of one translation unit / shared object"""

    def __init__(self, header, tag):
        self.header = header
        self.tag = tag
        self.items = []   # dict(key, emitted, ref, fname, params[(name, irtype)], ret irtype)

    def source(self, skip_emitted=(), skip_ref=()):
        parts = [self.header, CPP_PRELUDE]
        spans = []   # (first line, last line, key, 'e'/'r'/'w')

        def add(text, key, what):
            start = sum(p.count("\n") for p in parts) + 1
            parts.append(text if text.endswith("\n") else text + "\n")
            spans.append((start, start + parts[-1].count("\n") - 1, key, what))

        for it in self.items:
            k = it["key"]
            if k in skip_emitted:
                continue
            add("namespace p%d {\n%s\n}\n" % (k, it["emitted"]), k, "e")
            has_ref = it["ref"] is not None and k not in skip_ref
            if has_ref:
                add("namespace r%d {\n%s\n}\n" % (k, it["ref"]), k, "r")
            T = [CPP_T[t] for _, t in it["params"]]
            R = CPP_T[it["ret"]]
            decl = "".join("  const %s* a%d = (const %s*)in[%d];\n" % (T[i], i, T[i], i) for i in range(len(T)))
            call = ", ".join("a%d[i]" % i for i in range(len(T)))
            body = "    ((%s*)out)[i] = p%d::%s(%s);\n" % (R, k, it["fname"], call)
            if has_ref:
                body += "    ((%s*)ref)[i] = r%d::ref(%s);\n" % (R, k, call)
            add('extern "C" void run_p%d(void** in, void* out, void* ref, int n) {\n%s  for (int i = 0; i < n; i++) {\n%s  }\n}\n'
                % (k, decl, body), k, "w")
        return "".join(parts), spans

    def build(self, wd):
        """-> (so path or None, failed_emitted {key: message}, failed_ref set)"""
        bad_e, bad_r = {}, set()
        for attempt in range(4):
            src, spans = self.source(bad_e, bad_r)
            cpp = os.path.join(wd, "batch_%s_%d.cpp" % (self.tag, attempt))
            so = cpp[:-4] + ".so"
            with open(cpp, "w") as f:
                f.write(src)
            r = subprocess.run(["g++", "-std=c++17", "-O0", "-fno-fast-math", "-ffp-contract=off", "-frounding-math", "-shared", "-fPIC", "-w",
                                "-fmax-errors=0", "-o", so, cpp], capture_output=True, text=True)
            if r.returncode == 0:
                return so, bad_e, bad_r
            new = False
            for m in re.finditer(r"^%s:(\d+):\d+: (?:fatal )?error: (.*)$" % re.escape(cpp), r.stderr, re.M):
                ln = int(m.group(1))
                for a, b, key, what in spans:
                    if a <= ln <= b:
                        if what == "r":
                            if key not in bad_r:
                                bad_r.add(key)
                                new = True
                        elif what == "e" or (what == "w" and key not in bad_r):
                            if key not in bad_e:
                                bad_e[key] = m.group(2)[:200]
                                new = True
                        break
            if not new:
                raise tlc.MachineryError("g++ failed on a batch and the errors cannot be attributed:\n" + r.stderr[-2000:])
        raise tlc.MachineryError("g++ batch did not converge")


def run_cpp_protected(so, items, inputs_of):
    """run the programs of one shared object in a forked child (compiled code may trap, e.g. an integer
    division by zero); -> {key: (outs, refs) | 'signal N'}"""
    def child(keys):
        rfd, wfd = os.pipe()
        pid = os.fork()
        if pid == 0:
            os.close(rfd)
            out = {}
            try:
                with os.fdopen(wfd, "wb") as f:
                    for it in keys:
                        out = {it["key"]: run_cpp(so, it, inputs_of[it["key"]])}
                        pickle.dump(out, f)
                        f.flush()
            finally:
                os._exit(0)
        os.close(wfd)
        got = {}
        with os.fdopen(rfd, "rb") as f:
            while True:
                try:
                    got.update(pickle.load(f))
                except EOFError:
                    break
                except Exception:  # truncated record
                    break
        _, status = os.waitpid(pid, 0)
        return got, status
    todo = list(items)
    res = {}
    while todo:
        got, status = child(todo)
        res.update(got)
        todo = [it for it in todo if it["key"] not in got]
        if todo and os.WIFSIGNALED(status):
            res[todo[0]["key"]] = "signal %d" % os.WTERMSIG(status)
            todo = todo[1:]
        elif todo:
            raise tlc.MachineryError("C++ execution child ended without results (status %s)" % status)
    return res


def run_cpp(so, it, inputs):
    """-> (outs, refs) lists of value records"""
    lib = ctypes.CDLL(so)
    fn = getattr(lib, "run_p%d" % it["key"])
    n = len(inputs)
    arrs = []
    for i, (nm, t) in enumerate(it["params"]):
        arrs.append(numpy.ascontiguousarray(numpy.array([x[i] for x in inputs], dtype=NPDT[t])))
    ptrs = (ctypes.c_void_p * len(arrs))(*[a.ctypes.data for a in arrs])
    rdt = NPDT[it["ret"]]
    out = numpy.zeros(n, dtype=rdt)
    ref = numpy.zeros(n, dtype=rdt)
    fn(ptrs, ctypes.c_void_p(out.ctypes.data), ctypes.c_void_p(ref.ctypes.data), ctypes.c_int(n))

    def conv(a):
        if it["ret"] == "boolean":
            return [rec("b", z=bits.zint(int(x != 0))) for x in a]
        return [enc(x) for x in a]
    return conv(out), (conv(ref) if it["has_ref"] else [SKIP] * n)


# ------------------------------------------------------------------------------------------
# graphs: shipped algorithms and TLC-generated terms
# ------------------------------------------------------------------------------------------
def shipped_requests(fa):
    out = []
    for tname in TARGETS:
        target = getattr(fa.targets, tname)
        for func, sigs in target.trace_arguments.items():
            for sig in sigs:
                out.append(dict(src="shipped", target=tname, func=func, sig=list(sig)))
                if tname == "numpy":
                    out.append(dict(src="shipped", target=tname, func=func, sig=list(sig), ctx="alt:float64"))
    return out


NUM_VALUES = {
    "0": 0.0, "1": 1.0, "-1": -1.0, "2": 2.0, "3": 3.0, "4": 4.0, "0.5": 0.5, "1/2": 0.5, "0.1": 0.1, "0.2": 0.2, "-0.0": -0.0, "1.5": 1.5,
    "0.25": 0.25, "1e-300": 1e-300, "1e300": 1e300, "1e-40": 1e-40, "1e30": 1e30, "3.4028235e38": 3.4028235e38, "16777217": 16777217.0,
    "inf": math.inf, "-inf": -math.inf, "nan": math.nan, "int:0": 0, "int:1": 1, "int:2": 2, "int:3": 3, "int:-2": -2,
    "int:big": 2 ** 62 + 1, "int:2^53+1": 2 ** 53 + 1, "int:2^31": 2 ** 31, "int:-2^31-1": -(2 ** 31) - 1, "sqrt2_32": numpy.float32(2) ** numpy.float32(0.5), "third_32": numpy.float32(1) / numpy.float32(3),
    "third_64": 1.0 / 3.0, "pi_64": math.pi, "cplx": 1.5 - 2j, "cplx_nzim": complex(1.5, -0.0), "cplx_nzre": complex(-0.0, 2.0), "cplx_pzim": complex(1.5, 0.0),
    "true": True, "false": False,
}
FATERMS_NUMS = {"0": 0, "1": 1, "-1": -1, "2": 2, "3": 3, "4": 4}   # FATerms' small literals are Python ints (as in C04)


class BuildSkip(Exception):
    pass


def class_dtype(tname, cls, variant):
    """dtype (IR annotation string) of a symbol class for a target / variant (0: wide, 1: narrow, 2: half)"""
    if tname == "python":
        return dict(F="float", C="complex", I="int", B="bool")[cls]
    if cls == "F":
        return ["float64", "float32", "float16" if tname == "numpy" else "float32"][variant % 3]
    if cls == "C":
        return ["complex128", "complex64", "complex64"][variant % 3]
    if cls == "I":
        return ["int64", "int32", "int64"][variant % 3]
    return "bool"


def typed_dtype(tname, ty):
    """TypedTerms type <<kind, bits>> -> annotation string"""
    kind, b = ty
    if tname == "python":
        return dict(float="float", complex="complex", integer="int", boolean="bool")[kind]
    if kind == "boolean":
        return "bool"
    if kind == "integer":
        return "int%d" % (b or 64)
    return "%s%d" % (kind, b) if b else kind


def collect_symbols(term, tname, variant, out):
    if not isinstance(term, list):
        return
    if term[0] in ("num", "named") and len(term) == 2:
        # FATerms constants are `like x` (as in C04): x is always a float parameter
        out.setdefault("x", class_dtype(tname, "F", variant))
        return
    if term[0] == "sym":
        if len(term) == 2:      # FATerms
            nm = term[1]
            ty = "bool" if nm in ("b", "c") else class_dtype(tname, "F", variant)
        elif isinstance(term[2], list):   # TypedTerms
            nm, ty = term[1], typed_dtype(tname, term[2])
        else:
            nm, ty = term[1], class_dtype(tname, term[2], variant)
        if out.setdefault(nm, ty) != ty:
            raise BuildSkip("symbol %s with two types" % nm)
        return
    for t in term[1:]:
        collect_symbols(t, tname, variant, out)


def build_expr(ctx, term, syms, tname):
    k = term[0]
    if k == "sym":
        return syms[term[1]]
    if k == "num":
        if len(term) == 2:   # FATerms: like x
            v = FATERMS_NUMS.get(term[1], NUM_VALUES.get(term[1]))
            return ctx.constant(v, syms["x"])
        return ctx.constant(NUM_VALUES[term[1]], build_expr(ctx, term[2], syms, tname))
    if k == "numv":      # an arbitrary Python float given by its hex form, like term[2]
        return ctx.constant(float.fromhex(term[1]), build_expr(ctx, term[2], syms, tname))
    if k == "named":
        like = build_expr(ctx, term[2], syms, tname) if len(term) == 3 else syms["x"]
        return ctx.constant(term[1], like)
    if k == "bool":
        return ctx.constant(bool(term[1]))
    if k == "const":     # TypedTerms
        return ctx.constant(NUM_VALUES.get(term[1], term[1]) if term[1] in NUM_VALUES else term[1], build_expr(ctx, term[2], syms, tname))
    if k == "constT":
        v = NUM_VALUES.get(term[1], term[1])
        return ctx.constant(v, typed_dtype(tname, term[2]))
    if k == "const0":
        return ctx.constant(NUM_VALUES[term[1]])
    if k == "ref":
        e = build_expr(ctx, term[3], syms, tname)
        if term[3][0] == "sym":
            return e      # renaming an argument is not a naming policy of an expression: not generated
        return e.reference(ref_name=term[1], force=bool(term[2]))
    ops = [build_expr(ctx, t, syms, tname) for t in term[1:]]
    f = getattr(ctx, k, None)
    if f is None:
        raise BuildSkip("Context has no method " + k)
    return f(*ops)


def build_term_graph(fa, term, tname, variant, ctxname="plain"):
    syms_t = {}
    collect_symbols(term, tname, variant, syms_t)
    names = sorted(syms_t)
    if not names:
        raise BuildSkip("closed term")
    holder = {}

    def _build(ctx, d):
        return build_expr(ctx, term, d, tname)

    src = "def fn(ctx, %s):\n    return _build(ctx, dict(%s))\n" % (", ".join(names), ", ".join("%s=%s" % (n, n) for n in names))
    ns = dict(_build=_build)
    exec(src, ns)
    ctx = fa.Context(paths=[fa.algorithms], **CONTEXTS[ctxname])
    return ctx.trace(ns["fn"], *["%s:%s" % (n, syms_t[n]) for n in names])


# the ways a caller may configure the tracing context (enable_alt: literals become constants of an alternative context,
# typed by default_constant_type or by the literal - results/update.py and tests/test_algorithms.py::test_target use it)
CONTEXTS = {"plain": {}, "alt": dict(enable_alt=True), "alt:float64": dict(enable_alt=True, default_constant_type="float64"),
            "alt:float32": dict(enable_alt=True, default_constant_type="float32")}


def make_graph(fa, req):
    """-> graph after the target's expansion pass, or raises"""
    target = getattr(fa.targets, req["target"])
    if req["src"] == "shipped":
        ctx = fa.Context(paths=[fa.algorithms], **CONTEXTS[req.get("ctx", "plain")])
        g = ctx.trace(getattr(fa.algorithms, req["func"]), *req["sig"])
    else:
        g = build_term_graph(fa, req["term"], req["target"], req.get("variant", 0), req.get("ctx", "plain"))
    if req.get("simplify", True):
        return g.rewrite(target, fa.rewrite)
    return g.rewrite(target)


# ------------------------------------------------------------------------------------------
# one program: emit, parse, project, execute (Python / NumPy), stage (C++)
# ------------------------------------------------------------------------------------------
def ir_params(proj):
    return [(p["name"], p["t"]) for p in proj["params"]]


def produce(fa, req, nsamples, nieee, seed):
    """Everything for one request that can be done in a worker process.
    -> dict(status, ...) ; status in accepted / declined / build_skip"""
    tname = req["target"]
    target = getattr(fa.targets, tname)
    res = dict(req=req, status="accepted")
    try:
        with warnings.catch_warnings(), open(os.devnull, "w") as devnull, contextlib.redirect_stdout(devnull):
            warnings.simplefilter("ignore")
            g = make_graph(fa, req)
    except BuildSkip as ex:
        return dict(req=req, status="build_skip", why=str(ex)[:100])
    except Exception as ex:  # building the graph is not this property
        return dict(req=req, status="build_skip", why="%s: %s" % (type(ex).__name__, str(ex)[:100]))
    try:
        with warnings.catch_warnings(), open(os.devnull, "w") as devnull, contextlib.redirect_stdout(devnull):
            warnings.simplefilter("ignore")
            text = g.tostring(target, debug=req.get("debug", 0))
    except Exception as ex:
        if type(ex).__name__ == "InvalidInput":
            # the package's own formatter (black) rejects the text the printer produced: the emitted source does not load
            proj, _ = P.project(g)
            return dict(req=req, status="accepted", text="", proj=proj, prog=dict(params=[], stmts=[], rows=[], ret=""), fname="", wild={},
                        loads=False, load_error="formatter rejects the emitted text: " + str(ex).replace("\n", " ")[:160], samples=[], inputs_ok=False)
        # the target does not accept the graph
        return dict(req=req, status="declined", why="%s: %s" % (type(ex).__name__, str(ex)[:120]))
    proj, exprs = P.project(g)
    res.update(text=text, proj=proj)
    renamed = [str(a.operands[0]) for a in g.operands[1:-1] if a.kind == "symbol" and a.ref != str(a.operands[0])]
    if renamed:
        # an expression named by .reference() was rewritten to an argument and the name moved onto the argument:
        # reported as such, nothing else is judged
        res.update(param_mismatch=True, status="param_mismatch", samples=[], prog=dict(params=[], stmts=[], rows=[], ret=""), wild={}, loads=True)
        return res
    if any(p["t"] == "list" for p in proj["params"]) or any(n["k"] in ("list", "item") or n["t"].startswith("list") for n in proj["nodes"]):
        return dict(req=req, status="build_skip", why="list-valued program")
    tabs = wild_tables(fa)[tname]
    res["wild"] = {k: v for k, v in tabs["patterns"].items() if v["o"] not in ("none", "callable", "unparsable")}
    wild_templates = {k: tabs["templates"][k] for k in tabs["wildkinds"] if k in tabs["templates"]}
    # parse with the independent parser
    try:
        prog = P.parse_cpp(text) if tname == "cpp" else P.parse_python(text)
    except P.ParseError as ex:
        if tname != "cpp":
            # text that Python's own parser accepted but the term builder does not know: machinery
            raise
        # C++ text the subset parser cannot read: decided by the compiler below (does not compile -> `loads`)
        res.update(parse_failed=str(ex)[:300], prog=dict(params=[], stmts=[], rows=[], ret=""), fname="", loads=True, load_error="",
                   samples=None, inputs_ok=False)
        return res
    res["prog"] = dict(params=prog["params"], stmts=prog["stmts"], rows=prog["rows"], ret=prog["ret"])
    res["fname"] = prog["fname"]
    res["loads"] = prog["loads"]
    res["load_error"] = prog["error"]
    params = ir_params(proj)
    rng = random.Random("%s/%s" % (seed, json.dumps(req, sort_keys=True, default=str)))
    inputs = make_inputs(params, nsamples, rng)
    res["inputs_ok"] = inputs is not None
    if inputs is None or not prog["loads"]:
        res["samples"] = []
        return res
    if [p["name"] for p in prog["params"]] != [p[0] for p in params]:
        # the text's parameter list is not the graph's argument list: reported as such, nothing else is judged
        res["samples"] = []
        res["param_mismatch"] = True
        res["status"] = "param_mismatch"
        return res
    res["inputs"] = inputs
    if tname == "cpp":
        try:
            res["ref_cpp"] = cpp_reference(proj["nodes"], exprs, proj["root"], params, wild_templates, "ref")
        except NotEvaluable as ex:
            res["ref_cpp"] = None
            res["ref_why"] = str(ex)
        except Exception as ex:  # noqa
            res["ref_cpp"] = None
            res["ref_why"] = "%s: %s" % (type(ex).__name__, ex)
        res["ret"] = proj["nodes"][proj["root"] - 1]["t"]
        if any(t not in CPP_T for _, t in params) or res["ret"] not in CPP_T:
            res["inputs_ok"] = False
        res["samples"] = None   # filled after the batch is compiled
        return res
    # Python / NumPy: load and run here
    ns = {}
    try:
        with warnings.catch_warnings():
            warnings.simplefilter("ignore")
            exec(target.source_file_header, ns)
            exec(text, ns)
        f = ns[prog["fname"]]
    except Exception as ex:  # noqa
        res["loads"] = False
        res["load_error"] = "%s: %s" % (type(ex).__name__, str(ex)[:200])
        res["samples"] = []
        return res
    samples = []
    names = [p[0] for p in params]
    for i, args in enumerate(inputs):
        targs = [to_target_value(tname, a) for a in args]
        with warnings.catch_warnings():
            warnings.simplefilter("ignore")
            with numpy.errstate(all="ignore"):
                try:
                    out = enc(f(*targs))
                except Exception as ex:  # noqa
                    out = enc_raise(ex)
                try:
                    ref = enc(direct_eval(tname, proj["nodes"], exprs, proj["root"], dict(zip(names, targs)), wild_templates))
                except NotEvaluable:
                    ref = SKIP
                except Exception as ex:  # noqa
                    ref = enc_raise(ex)
        samples.append(dict(out=out, ref=ref, ieee=i < nieee, **({"in": {n: enc(a) for n, a in zip(names, targs)}} if i < nieee else {"in": {}})))
    res["samples"] = samples
    return res


_WILD = {}
SPEC_WILD = dict(python={"sign", "round", "list", "item"}, numpy={"round", "list", "item"}, cpp={"sign", "round", "remainder", "list", "item"})


def wild_tables(fa):
    """per target: parsed patterns of the package's templates and the raw templates of wild-carded kinds"""
    if not _WILD:
        for tname in TARGETS:
            target = getattr(fa.targets, tname)
            tabs = P.extract_tables(target, LANG[tname])
            _WILD[tname] = dict(patterns={k: v for k, v in tabs["kinds"].items() if k in SPEC_WILD[tname]},
                                templates=dict(getattr(target, "kind_to_target", {})), wildkinds=SPEC_WILD[tname], tables=tabs)
    return _WILD


# ------------------------------------------------------------------------------------------
# worker pool (fork): produce() for many requests
# ------------------------------------------------------------------------------------------
_FA = None


def warm_up_numpy():
    """NumPy takes a different code path the first time a ufunc sees a scalar dtype in a process (observed:
    numpy.square(complex128 scalar) returns (-inf+infj) on the first call and (nan+infj) afterwards for an
    overflowing argument).  Call every primitive once per dtype so that emitted code and direct evaluation
    both run on the steady-state path."""
    vals = [numpy.float16(1.5), numpy.float32(1.5), numpy.float64(1.5), numpy.complex64(1.5 + 0.5j), numpy.complex128(1.5 + 0.5j),
            numpy.int32(3), numpy.int64(3), numpy.bool_(True)]
    with warnings.catch_warnings():
        warnings.simplefilter("ignore")
        with numpy.errstate(all="ignore"):
            for f in set(NP_PRIM.values()):
                if isinstance(f, numpy.ufunc):
                    for v in vals:
                        for _ in range(2):
                            try:
                                f(*([v] * f.nin))
                            except Exception:  # noqa
                                pass


def _worker(args):
    reqs, nsamples, nieee, seed = args
    warm_up_numpy()
    out = []
    for r in reqs:
        try:
            out.append(produce(_FA, r, nsamples, nieee, seed))
        except P.ParseError as ex:
            out.append(dict(req=r, status="parse_error", why=str(ex)[:300]))
    return out


def produce_all(fa, reqs, nsamples, nieee, seed):
    global _FA
    _FA = fa
    wild_tables(fa)
    import multiprocessing as mp
    chunks = [reqs[i::NWORK * 4] for i in range(NWORK * 4)]
    chunks = [c for c in chunks if c]
    ctx = mp.get_context("fork")
    with ctx.Pool(NWORK) as pool:
        parts = pool.map(_worker, [(c, nsamples, nieee, seed) for c in chunks])
    res = [r for p in parts for r in p]
    order = {json.dumps(r, sort_keys=True, default=str): i for i, r in enumerate(reqs)}
    res.sort(key=lambda r: order[json.dumps(r["req"], sort_keys=True, default=str)])
    return res


def run_cpp_programs(fa, results, nieee):
    """compile all accepted C++ programs in batches, execute, fill samples"""
    cpps = [r for r in results if r["status"] == "accepted" and r["req"]["target"] == "cpp" and r.get("samples") is None]
    if not cpps:
        return
    header = fa.targets.cpp.source_file_header
    wd = tlc.workdir()
    nb = max(1, min(NWORK * 2, (len(cpps) + 59) // 60))
    batches = [CppBatch(header, "%d_%d" % (os.getpid(), b)) for b in range(nb)]
    for i, r in enumerate(cpps):
        r["key"] = i
        if not r["inputs_ok"]:
            # cannot be marshalled (e.g. an unsupported parameter type): compile-only, via a dummy entry
            pass
        batches[i % nb].items.append(dict(key=i, emitted=r["text"], ref=r.get("ref_cpp"), fname=r["fname"],
                                          params=ir_params(r["proj"]) if r["inputs_ok"] else [], ret=r.get("ret", "float64")
                                          if r["inputs_ok"] else "float64", runnable=r["inputs_ok"]))
    # programs that cannot be marshalled are compiled without wrapper: treat by giving them no params is wrong;
    # keep it simple: they are syntax-checked separately
    for b in batches:
        b.items = [it for it in b.items if it["runnable"]]
    with cf.ThreadPoolExecutor(max_workers=NWORK) as ex:
        built = list(ex.map(lambda b: b.build(wd) if b.items else (None, {}, set()), batches))
    bykey = {r["key"]: r for r in cpps}
    for b, (so, bad_e, bad_r) in zip(batches, built):
        runnable = []
        for it in b.items:
            r = bykey[it["key"]]
            if it["key"] in bad_e:
                r["loads"] = False
                r["load_error"] = bad_e[it["key"]]
                r["samples"] = []
                continue
            it["has_ref"] = it["ref"] is not None and it["key"] not in bad_r
            if it["ref"] is not None and it["key"] in bad_r:
                r["ref_why"] = "reference rendering does not compile"
            runnable.append(it)
        got = run_cpp_protected(so, runnable, {it["key"]: bykey[it["key"]]["inputs"] for it in runnable}) if runnable else {}
        for it in runnable:
            r = bykey[it["key"]]
            if isinstance(got[it["key"]], str):
                # the compiled code trapped (both the emitted function and the reference live in the child): not judged
                r["trapped"] = got[it["key"]]
                r["samples"] = []
                continue
            outs, refs = got[it["key"]]
            names = [p[0] for p in it["params"]]
            r["samples"] = [dict(out=o, ref=f, ieee=i < nieee, **{"in": ({n: enc(a) for n, a in zip(names, r["inputs"][i])} if i < nieee else {})})
                            for i, (o, f) in enumerate(zip(outs, refs))]
    for r in cpps:
        if r.get("samples") is None:
            # not runnable (or not parsable by the subset parser): syntax check only
            src = header + CPP_PRELUDE + r["text"]
            p = os.path.join(wd, "single_%d.cpp" % r["key"])
            with open(p, "w") as f:
                f.write(src)
            q = subprocess.run(["g++", "-std=c++17", "-fsyntax-only", "-w", p], capture_output=True, text=True)
            r["loads"] = q.returncode == 0
            m = re.search(r"error: (.*)", q.stderr)
            r["load_error"] = (m.group(1)[:200] if m else q.stderr[-300:]) if q.returncode else ""
            r["samples"] = []
            if r.get("parse_failed") and r["loads"]:
                r["status"] = "parse_error"
                r["why"] = r["parse_failed"]


# ------------------------------------------------------------------------------------------
# U1: model checks
# ------------------------------------------------------------------------------------------
def tables_module(fa):
    """TargetTables.tla: the live template tables of the three targets as TLA+ data"""
    tabs = wild_tables(fa)
    parts = []
    for tname in TARGETS:
        t = tabs[tname]["tables"]
        kinds = "<<%s>>" % ",\n    ".join("<<%s, %s>>" % (P.tla_value(k), P.tla_value(v)) for k, v in t["kinds"].items())
        consts = "<<%s>>" % ",\n    ".join("<<%s, %s>>" % (P.tla_value(k), P.tla_value(v)) for k, v in t["constants"].items())
        parts.append("%s |-> [kinds |-> %s,\n  constants |-> %s]" % (tname, kinds, consts))
    return ("---- MODULE TargetTables ----\n(* generated from functional_algorithms/targets/{python,numpy,cpp}.py at check time *)\n"
            "Tables == [%s]\n====\n" % ",\n ".join(parts))


def check_tables(fa, chk):
    wd = tlc.workdir()
    with open(os.path.join(wd, "TargetTables.tla"), "w") as f:
        f.write(tables_module(fa))
    for fn in ("MC_TargetTables.tla", "MC_TargetTables.cfg"):
        with open(os.path.join(tlc.SPEC, fn)) as f, open(os.path.join(wd, fn), "w") as g:
            g.write(f.read())
    r = tlc.run("MC_TargetTables", "MC_TargetTables.cfg", workers=1, cwd=wd, library=tlc.SPEC)
    chk.add_mc("MC_TargetTables(live tables)", r)
    if not r.finished:
        raise tlc.MachineryError("MC_TargetTables failed:\n" + r.out[-2500:])
    bad = tlaval.fast_tuples(r.out, "BAD")
    rows = tlaval.fast_tuples(r.out, "ROWS")
    info = tlaval.fast_tuples(r.out, "INFO")
    if len(rows) != 3:
        raise tlc.MachineryError("MC_TargetTables did not report all targets:\n" + r.out[-1500:])
    chk.cov["table_entries_judged"] = {x[1]: dict(kinds=x[2], constants_x_types=x[3]) for x in rows}
    chk.cov["table_entries_not_judged"] = sorted({"%s:%s:%s" % (x[1], x[2], x[3]) for x in info})
    for b in bad:
        _, tname, table, name = b[:4]
        detail = " ".join(str(x) for x in b[4:])
        chk.fail("table:%s:%s:%s" % (tname, table, name),
                 "%s target, %s table entry %s is not what the language defines: %s" % (tname, table, name, detail),
                 dict(table=True, target=tname, entry=name, detail=detail))
    return len(bad)


def check_algorithm(chk, tier):
    cfg = "MC_Printer.cfg" if tier == "quick" else "MC_Printer_5.cfg"
    r = tlc.run("MC_Printer", cfg, workers=NWORK)
    chk.add_mc(cfg, r)
    if not r.finished and not r.invariant_violated:
        raise tlc.MachineryError("MC_Printer failed:\n" + r.out[-2500:])
    if r.invariant_violated:
        chk.drift_note("the transcribed printing algorithm violates the machine on a small DAG:\n" + r.error_trace()[:1500])
    r2 = tlc.run("MC_Printer", "MC_Printer_alias.cfg", workers=2)
    chk.add_mc("MC_Printer_alias.cfg (must be violated)", r2)
    if "Sound" not in r2.invariant_violated:
        raise tlc.MachineryError("vacuous model: two nodes sharing a reference name are not rejected by the machine")


# ------------------------------------------------------------------------------------------
# U2: TLC's generators
# ------------------------------------------------------------------------------------------
def gen_terms(module, cfgname, gen, chk, subst=(), seed=1):
    with open(os.path.join(tlc.SPEC, cfgname)) as f:
        txt = f.read()
    txt = re.sub(r'Gen = "\w+"', 'Gen = "%s"' % gen, txt)
    for a, b in subst:
        txt = re.sub(a, b, txt)
    p = os.path.join(tlc.workdir(), "%s_%s_%d.cfg" % (module, gen, seed))
    with open(p, "w") as f:
        f.write(txt)
    r = tlc.run(module, p, workers=1, extra=["-seed", str(seed)], timeout=1800)
    if not r.ok:
        raise tlc.MachineryError("%s %s failed:\n%s" % (module, gen, r.out[-2000:]))
    chk.add_mc("%s(%s)" % (module, gen), r)
    return [h[1] for h in tlaval.fast_tuples(r.out, "H")]


def generated_requests(chk, tier, seed):
    quick = tier == "quick"
    rng = random.Random(seed)
    reqs = []

    def add(src, terms, targets=TARGETS, variants=(0, 1), frac=1.0, debugs=None):
        for i, t in enumerate(terms):
            if frac < 1.0 and rng.random() > frac:
                continue
            for tname in targets:
                vs = (0,) if tname == "python" else variants
                for v in vs:
                    dbg = debugs if debugs is not None else ((i + v) % 2 if tname == "numpy" else 0)
                    reqs.append(dict(src=src, target=tname, term=t, variant=v, debug=dbg, simplify=(i % 3 != 0)))

    kinds = gen_terms("PrinterTerms", "PrinterTerms.cfg", "kinds", chk)
    add("PrinterTerms.kinds", kinds, variants=(0, 1) if quick else (0, 1, 2))
    consts = gen_terms("PrinterTerms", "PrinterTerms.cfg", "consts", chk)
    add("PrinterTerms.consts", consts)
    # the same graphs traced in enable_alt contexts (every other way of configuring the context): the terms with numeric constants
    n0 = len(reqs)
    # not explored in alt contexts (each would need its own reading of "the constant's type"): integer-typed graphs (a float
    # default_constant_type makes their literals ill-typed by construction), constants given as NumPy scalars of another width
    with_num = [t for t in kinds + consts if '"num"' in json.dumps(t) and not any(w in json.dumps(t) for w in ('"I"', "_32", "_64", "int:"))]
    add("PrinterTerms.alt", with_num, variants=(0, 1), frac=0.35 if quick else 1.0)
    for j, r in enumerate(reqs[n0:]):
        r["ctx"] = ("alt:float64", "alt", "alt:float32")[j % 3]
    # integer constants beyond int32 only make sense in the 64-bit integer variant (variant 0)
    reqs[:] = [r for r in reqs if not (r.get("variant", 0) >= 1 and "int:2^" in json.dumps(r.get("term", "")) or "int:-2^" in json.dumps(r.get("term", "")) and r.get("variant", 0) >= 1)]
    # (the Python target has a single float type: "the literal in the alternative type" has no reading there)
    reqs[n0:] = [r for r in reqs[n0:] if r["target"] != "python"]
    dags = gen_terms("PrinterTerms", "PrinterTerms.cfg", "dags", chk)
    add("PrinterTerms.dags", dags, variants=(0,) if quick else (0, 1), frac=0.2 if quick else 1.0)
    rnd = gen_terms("PrinterTerms", "PrinterTerms.cfg", "random", chk, subst=[(r"NumRandom = \d+", "NumRandom = %d" % (160 if quick else 4000)),
                                                                              (r"MaxDepth = \d+", "MaxDepth = %d" % (4 if quick else 5)),
                                                                              (r"Seed = \d+", "Seed = %d" % (seed % 1000000))], seed=seed + 3)
    add("PrinterTerms.random", rnd, variants=(0, 1))
    small = gen_terms("FATerms", "FATerms.cfg", "small", chk, subst=[(r"MaxOps = \d+", "MaxOps = %d" % (1 if quick else 2))])
    add("FATerms.small", small, variants=(0, 1), frac=1.0 if quick else 0.1)
    # (FATerms' "random" mode draws with TLC's RandomElement, which is not reproducible: not used here)
    ops1 = gen_terms("TypedTerms", "TypedTerms.cfg", "ops1", chk)
    # typed terms carry their own dtypes: one variant; Python gets the unsized image of the types
    add("TypedTerms.ops1", ops1, variants=(0,), frac=0.05 if quick else 1.0)
    if not quick:
        ops2 = gen_terms("TypedTerms", "TypedTerms.cfg", "ops2", chk)
        add("TypedTerms.ops2", ops2, variants=(0,), frac=0.07)
    # two CONFUSABLE constants in one graph, each used in two distinct expressions (so each gets a variable):
    # the TLC-enumerated ValuePairs shapes of C07 (neighbours, equal leading digits, equal integer part, shifted
    # exponent, permuted / regrouped bytes), concretised as Python floats
    from . import c07
    rp = tlc.run("ValuePairs", "ValuePairs.cfg", workers=1)
    if not rp.ok:
        raise tlc.MachineryError("ValuePairs export failed:\n" + rp.out[-1500:])
    chk.add_mc("ValuePairs.cfg", rp)
    X, Y, B = ["sym", "x", "F"], ["sym", "y", "F"], ["sym", "b", "B"]
    terms = []
    for fam, ty in sorted((h[1], h[2]) for h in tlaval.fast_tuples(rp.out, "H")):
        if ty != "float":
            continue
        for a, b in c07.make_pairs(fam, ty, 2 if quick else 8, rng):
            if not (isinstance(a, float) and isinstance(b, float)) or a != a or b != b or abs(a) == float("inf") or abs(b) == float("inf"):
                continue
            with numpy.errstate(all="ignore"):
                if a == b or numpy.float32(a) == numpy.float32(b):
                    continue      # 0.0 / -0.0 (also after rounding to the float32 variant): the shared name constant_f0 is a
                                  # known finding with its own programs (PrinterTerms.consts)
            c1, c2 = ["numv", float(a).hex(), X], ["numv", float(b).hex(), X]
            terms.append(["add", ["select", B, ["multiply", X, c1], ["multiply", Y, c1]],
                          ["select", B, ["multiply", X, c2], ["multiply", Y, c2]]])
    add("ValuePairs.constpairs", terms, variants=(0, 1))
    chk.cov["confusable_constant_pair_graphs"] = len(terms)
    return reqs


# ------------------------------------------------------------------------------------------
# verdict keys
# ------------------------------------------------------------------------------------------
def describe(req):
    if req["src"] == "shipped":
        return "%s(%s)" % (req["func"], ",".join(req["sig"]))
    return "%s v%s %s%s" % (req["src"], req.get("variant", 0), json.dumps(req["term"], separators=(",", ":")),
                            " [ctx %s]" % req["ctx"] if req.get("ctx", "plain") != "plain" else "")


def shape_of(term, depth=0):
    if not isinstance(term, list):
        return str(term)
    k = term[0]
    if k in ("sym", "bool", "const0"):
        return k
    if k in ("num", "named", "const", "constT"):
        return "%s:%s" % (k, term[1])
    if k == "ref":
        return "ref(%s)" % shape_of(term[3], depth)
    if depth >= 1:
        return k
    return "%s(%s)" % (k, ",".join(shape_of(t, depth + 1) for t in term[1:]))


def static_keys(r, triples):
    """one key per (clause, what it is about): narrow classes of failing behaviour"""
    tname = r["req"]["target"]
    rows = r["prog"]["rows"]
    out = {}
    for clause, row, what in triples:
        if clause in ("computed_type", "constant_type", "ill_formed") and " as " in str(what):
            detail = what
        elif clause in ("constant_value", "constant_type"):
            o = rows[row - 1]["o"] if row else ""
            detail = "literal" if o in ("lit", "un:-") else o
            # which node type has no such constant: summarise by the types of constant nodes in the graph
            detail += "@" + "+".join(sorted({n["t"] for n in r["proj"]["nodes"] if n["k"] == "constant" and not n["t"].startswith(("integer", "boolean"))}))
        elif clause == "distinct_share":
            detail = "variable " + ("constant_<value>" if str(what).startswith("constant_") else str(what))
        elif clause in ("operator", "operand_order"):
            detail = str(what)
        elif clause in ("def_before_use", "single_assignment", "assert_target", "declared_type"):
            detail = "param" if what in [p["name"] for p in r["prog"]["params"]] else ("result" if what == "result" else "var")
            if clause == "def_before_use" and what in ("inf", "nan", "eps", "smallest_subnormal", "largest", "smallest", "posinf", "neginf", "pi"):
                detail = what
        else:
            detail = str(what)
        out.setdefault("%s:%s:%s" % (tname, clause, detail), []).append([clause, row, what])
    return out


PRIMARY = ["float32 computed with double literals", "integer literals computed in int", "complex constant printed as a real literal",
           "constants share a generated name"]


def root_cause(key):
    """static failure key -> tag used to attribute execution differences"""
    t, clause, detail = key.split(":", 2)
    if t == "cpp" and clause in ("computed_type", "constant_type", "constant_value"):
        if detail in ("float32 as double", "literal@float32") or detail.startswith("name:M_PI@float32"):
            return "float32 computed with double literals"
        if re.fullmatch(r"complex\d+ as (double|float)", detail):
            return "complex constant printed as a real literal"
        if re.fullmatch(r"float\d+ as int", detail):
            return "integer literals computed in int"
    if clause == "distinct_share" and detail == "variable constant_<value>":
        return "constants share a generated name"
    return "%s:%s" % (clause, detail)


def program_class(r):
    req = r["req"]
    if req["src"] == "shipped":
        return "shipped:%s(%s)" % (req["func"], ",".join(req["sig"]))
    return "%s:%s" % (req["src"], shape_of(req["term"]))


# ------------------------------------------------------------------------------------------
# run / replay
# ------------------------------------------------------------------------------------------
def event_of(r, eid):
    return dict(id=eid, target=r["req"]["target"], loads=bool(r["loads"]), parsed=not r.get("parse_failed"), nodes=r["proj"]["nodes"], root=r["proj"]["root"],
                prog=r["prog"], wild=r["wild"], samples=r["samples"] or [])


def judge(chk, results, nproc=None):
    """validate all accepted programs; -> (events, tlc result)"""
    acc = [r for r in results if r["status"] == "accepted"]
    # identical (target, text, graph) programs are validated once
    uniq = {}
    for r in acc:
        h = hashlib.sha256(json.dumps([r["req"]["target"], r["text"], r["proj"]["nodes"], r["proj"]["root"]], sort_keys=True).encode()).hexdigest()
        r["dup_of"] = uniq.setdefault(h, r) is not r
    todo = [r for r in acc if not r["dup_of"]]
    # spread the big programs over the chunks
    todo.sort(key=lambda r: -len(r["prog"]["rows"]))
    nproc = nproc or tlc.NCPU
    nchunks = max(1, min(nproc * 2, len(todo)))
    order = [r for c in range(nchunks) for r in todo[c::nchunks]]
    events = []
    for r in order:
        r["eid"] = len(events)
        events.append(event_of(r, r["eid"]))
    chunk = (len(events) + nchunks - 1) // nchunks if events else 1
    res = tlc.validate_events("Trace_Printer", "Trace.cfg", events, name="printer", nproc=nproc, chunk=chunk, timeout=7200)
    return order, res


def collect(chk, order, res, path_hint=None):
    byid = {r["eid"]: r for r in order}
    notes = {}
    for eid, n in res["notes"]:
        v = tlaval.parse(n)
        notes.setdefault(eid, {})[v[0]] = v
    nieee = 0
    for eid, d in notes.items():
        if "lit_conv" in d:
            raise tlc.MachineryError("host decimal->binary conversion of a literal disagrees with the spec in %s (rows %s)"
                                     % (describe(byid[eid]["req"]), d["lit_conv"][1]))
        if "samples" in d:
            nieee += d["samples"][2]
    chk.cov["samples_evaluated_by_the_spec"] = nieee
    drift = 0
    for eid, clauses in res["fails"]:
        r = byid[eid]
        req = r["req"]
        tname = req["target"]
        d = notes.get(eid, {})
        base = dict(request=req, text=r.get("text", ""), clauses=clauses)
        if "loads" in clauses:
            kinds_in = {n["k"] for n in r["proj"]["nodes"]}
            fmt_class = "formatter rejects the emitted text:" + (
                "remainder" if "remainder" in kinds_in else "+".join(sorted(kinds_in & SPEC_WILD[tname])) or "other")
            chk.fail("%s:loads:%s" % (tname, fmt_class if r.get("load_error", "").startswith("formatter rejects") else load_class(r)),
                     "%s: emitted %s text does not load/compile: %s" % (describe(req), tname, r.get("load_error", "")[:200]),
                     dict(base, error=r.get("load_error", "")))
            continue
        skeys = {}
        exec_only = req.get("ctx", "plain") != "plain"
        # enable_alt contexts: the structural clauses of FAPrinter.tla do not model constants that are expressions of an
        # alternative context (folded there, typed there); such programs are judged by EXECUTION only (emitted text vs
        # direct evaluation of the graph, the alt constant denoting its number in the alternative type converted to the node's)
        if "static" in d and not exec_only:
            triples = set_items(d["static"][1])
            skeys = static_keys(r, triples)
            for key, trs in skeys.items():
                chk.fail(key, "%s: %s" % (describe(req), json.dumps(trs[:3])), dict(base, failures=trs))
        if "samples" in d:
            bad = [x for x in set_items(d["samples"][1]) if x[0] in ("exec_equal", "exec_ieee")]
            for clause in sorted({x[0] for x in bad}):
                j = min(x[1] for x in bad if x[0] == clause)
                inp = r["inputs"][j - 1]
                s = r["samples"][j - 1]
                # an execution difference in a program whose text already fails a typing / constant clause is
                # attributed to that class; otherwise to the program class
                # an execution difference in a program whose text already fails static clauses is attributed to them
                explained = sorted({root_cause(k) for k in skeys})
                if s["out"]["c"] == "raise" and s["out"]["fmt"] == "AssertionError" and tname == "numpy" and not explained:
                    explained = ["debug dtype assertion fails"]
                if not explained and any(row["o"] == "lit" and row["s"] == "imag" for row in r["prog"]["rows"]) and zero_sign_only(s["out"], s["ref"]):
                    explained = ["complex literal loses the sign of a zero part"]
                # one primary explanation (bounded number of classes): the static failures themselves are all reported above
                explained.sort(key=lambda tag: (not tag.startswith("def_before_use"), tag not in PRIMARY, PRIMARY.index(tag) if tag in PRIMARY else 0, tag))
                key = ("%s:%s:explained_by:%s" % (tname, clause, explained[0])) if explained else \
                    "%s:%s:%s" % (tname, clause, program_class(r))
                chk.fail(key, "%s: input %s: executed %s, direct evaluation %s" % (describe(req), [repr(x) for x in inp], show(s["out"]), show(s["ref"])),
                         dict(base, sample=j, input=[repr(x) for x in inp], out=s["out"], ref=s["ref"]))
    for eid, d in notes.items():
        if "samples" in d:
            dr = [x for x in set_items(d["samples"][1]) if x[0] == "oracle_drift"]
            if dr:
                drift += len(dr)
                r = byid[eid]
                j = dr[0][1]
                chk.drift_note("harness interpreter and spec evaluation disagree: %s sample %d input %s ref %s"
                               % (describe(r["req"]), j, [repr(x) for x in r["inputs"][j - 1]], show(r["samples"][j - 1]["ref"])))
    chk.cov["oracle_drift_samples"] = drift
    want = os.environ.get("C05_DUMP_KEY")
    if want:   # debugging aid: show one failing program of every class whose key contains the given text
        seen = set()
        for key, what, rp in chk.violations:
            if re.search(want, key) and key not in seen and rp:
                seen.add(key)
                print("DUMP %s\n%s\n%s\n%s" % (key, json.dumps(rp.get("request")), rp.get("text"), what[:1500]))


def zero_sign_only(a, b):
    """two complex results that differ only in the sign of zero components"""
    if a["c"] != "z" or b["c"] != "z" or a["fmt"] != b["fmt"]:
        return False
    w = bits.WIDTH[a["fmt"]]

    def same(x, y):
        xi, yi = bits.unnat(x), bits.unnat(y)
        return xi == yi or (xi & ~(1 << (w - 1))) == 0 == (yi & ~(1 << (w - 1)))
    return same(a["bits"], b["bits"]) and same(a["im"], b["im"])


def set_items(v):
    return v["__set__"] if isinstance(v, dict) and "__set__" in v else v


def show(v):
    if v["c"] == "f":
        return "%s:%r" % (v["fmt"], bits.from_bits(v["bits"], v["fmt"]))
    if v["c"] == "z":
        return "%s:(%r, %r)" % (v["fmt"], bits.from_bits(v["bits"], v["fmt"]), bits.from_bits(v["im"], v["fmt"]))
    if v["c"] in ("b", "i"):
        return "%s:%d" % (v["c"], bits.unzint(v["z"]))
    return "%s:%s" % (v["c"], v["fmt"])


def load_class(r):
    """class of a load/compile error: identifiers kept, argument lists, C++ type names and numbers abstracted"""
    e = r.get("load_error", "")
    if "(const char*) noexcept" in e:
        return "a NaN constant is printed as the identifier `nan` (the function std::nan)"
    m = re.match(r"request for member ‘(\w+)’ in ", e)
    if m:
        return "request for member `%s` in an expression of non-class (real) type" % m.group(1)
    if e.startswith("could not convert") and "complex<" in e:
        # (the quoted expression varies with the program: the class is the conversion between complex widths)
        return "could not convert an expression from `complex<T>` to `complex<T>` (complex widths mixed)"
    e = re.sub(r"\(.*?\)", "()", e)
    e = re.sub(r"(std::complex<\w+>|\b(long double|double|float|int|long|bool)\b)&?", "T", e)
    e = re.sub(r"\d+", "N", e)
    e = re.sub(r"[‘’']", "`", e)
    e = re.sub(r"; did you mean.*", "", e)
    m = re.match(r"`(\w+)` was not declared in this scope", e)
    if m and m.group(1) not in ("True", "False", "eps", "smallest_subnormal", "nan", "inf", "pi", "largest", "smallest"):
        e = "`<name>` was not declared in this scope"
    return e[:90].strip()


ROUND = 9000     # requests per round (bounds memory: a round's programs are judged and dropped)


def trim_ieee(results, nieee, only_cpp=False):
    """the spec evaluates fewer samples of big graphs"""
    for r in results:
        if r["status"] == "accepted" and r.get("samples") and (not only_cpp or r["req"]["target"] == "cpp"):
            budget = max(2, min(nieee, 600 // max(1, len(r["proj"]["nodes"]))))
            for i, s in enumerate(r["samples"]):
                if i >= budget:
                    s["ieee"] = False
                    s["in"] = {}


def run(tier, seed):
    fa = import_repo()
    chk = Check(PID, tier, seed, level="translation_validation")
    quick = tier == "quick"
    t0 = time.time()

    def phase(name):
        print("phase %-40s %6.1fs" % (name, time.time() - t0))
        sys.stdout.flush()
    # U1
    check_algorithm(chk, tier)
    check_tables(fa, chk)
    phase("U1 model checks")
    # U2
    reqs = [dict(r, debug=d) for r in shipped_requests(fa) for d in (0, 1)]
    reqs += generated_requests(chk, tier, seed)
    phase("TLC generators (%d requests)" % len(reqs))
    nsamples, nieee = (40, 8) if quick else (100, 12)
    stat, declined = {}, {}
    covk = {t: set() for t in TARGETS}
    covt = {t: set() for t in TARGETS}
    covc = {t: set() for t in TARGETS}
    tot = dict(programs=0, validated=0, execs=0, noref=0, ieee=0, drift=0, events=0)
    texts = set()
    always_raise = []
    tr = dict(fails=[], notes=[], states=0, transitions=0, chunks=0, wall=0.0)
    sample_prog = None
    rounds = [reqs[i:i + ROUND] for i in range(0, len(reqs), ROUND)]
    for ri, rreqs in enumerate(rounds):
        results = produce_all(fa, rreqs, nsamples, nieee, seed)
        trim_ieee(results, nieee)
        run_cpp_programs(fa, results, nieee)
        trim_ieee(results, nieee, only_cpp=True)
        for r in results:
            stat.setdefault(r["req"]["src"], {}).setdefault(r["req"]["target"], {}).setdefault(r["status"], 0)
            stat[r["req"]["src"]][r["req"]["target"]][r["status"]] += 1
            if r["status"] == "declined":
                k = "%s:%s" % (r["req"]["target"], r["why"].split(":")[0])
                declined[k] = declined.get(k, 0) + 1
        perr = [r for r in results if r["status"] == "parse_error"]
        if perr:
            raise tlc.MachineryError("the independent parser cannot parse an emitted text (%d programs), e.g. %s: %s"
                                     % (len(perr), describe(perr[0]["req"]), perr[0]["why"]))
        for r in results:
            if r.get("param_mismatch"):
                chk.fail("%s:parameters" % r["req"]["target"], "%s: parameter list of the text differs from the graph's arguments" % describe(r["req"]),
                         dict(request=r["req"], text=r["text"]))
        order, res = judge(chk, results)
        acc = [r for r in results if r["status"] == "accepted"]
        for k in ("states", "transitions", "chunks", "wall"):
            tr[k] += res[k]
        tr["fails"] += res["fails"]
        collect(chk, order, res)
        tot["ieee"] += chk.cov.get("samples_evaluated_by_the_spec", 0)
        tot["drift"] += chk.cov.get("oracle_drift_samples", 0)
        tot["programs"] += len(acc)
        tot["validated"] += len(order)
        tot["execs"] += sum(len(r["samples"] or []) for r in acc)
        tot["noref"] += sum(1 for r in acc if r.get("samples") and all(s["ref"]["c"] == "skip" for s in r["samples"]))
        for r in acc:
            t = r["req"]["target"]
            if sum(1 for s in r["prog"]["stmts"] if s["op"] == "assign") >= 1 or len(r["proj"]["nodes"]) >= 4:
                texts.add(hashlib.sha256((t + r["text"]).encode()).digest()[:12])
            for n in r["proj"]["nodes"]:
                covk[t].add(n["k"])
                covt[t].add(n["t"])
                if n["v"]["c"] == "named":
                    covc[t].add(n["v"]["name"])
            if r.get("samples") and all(s["out"]["c"] == "raise" and s["ref"]["c"] == "raise" for s in r["samples"]):
                always_raise.append(describe(r["req"]))
        if sample_prog is None and order:
            mid = order[len(order) // 2]
            sample_prog = dict(request=mid["req"], text=mid["text"], nodes=len(mid["proj"]["nodes"]), first_sample=(mid["samples"] or [None])[0])
        phase("round %d/%d: %d requests, %d programs judged" % (ri + 1, len(rounds), len(rreqs), len(order)))
        del results, order, res, acc
    chk.add_trace("Trace_Printer", tr, tot["programs"], ntraces=tot["validated"])
    chk.cov["requests"] = stat
    chk.cov["declined_by_exception_class"] = declined
    chk.cov["samples_evaluated_by_the_spec"] = tot["ieee"]
    chk.cov["oracle_drift_samples"] = tot["drift"]
    chk.cov["kinds_printed"] = {t: sorted(covk[t]) for t in TARGETS}
    chk.cov["dtypes_printed"] = {t: sorted(covt[t]) for t in TARGETS}
    chk.cov["named_constants_printed"] = {t: sorted(covc[t]) for t in TARGETS}
    chk.cov["kinds_declared_not_printed"] = {
        t: sorted(k for k, v in wild_tables(fa)[t]["tables"]["kinds"].items() if v["o"] != "none" and k not in covk[t]) for t in TARGETS}
    chk.cov["wild_carded_kinds"] = {t: sorted(SPEC_WILD[t]) for t in TARGETS}
    classes = {}
    for key, what, rp in chk.violations:
        classes[key] = classes.get(key, 0) + 1
    for key, v in chk.known_hit.items():
        classes[key] = v[1]
    chk.cov["failure_classes"] = dict(sorted(classes.items()))
    chk.cov["executions_compared"] = tot["execs"]
    chk.cov["programs_without_reference"] = tot["noref"]
    if always_raise:
        chk.note("%d programs raise on every input in the emitted code and in the direct evaluation alike (not judged), e.g. %s"
                 % (len(always_raise), sorted(always_raise)[0][:200]))
    if sample_prog:
        chk.sample(sample_prog)
    chk.assumptions += [
        "trusted base for clause exec_equal: the harness's direct evaluation of the node table (Python/NumPy interpreter over the harness's own primitive table; "
        "for C++ a reference rendering, one typed statement per node, compiled with the same g++ flags in the same translation unit)",
        "clause exec_ieee (graphs over +,-,*,/,sqrt,abs,neg,min,max,comparisons,select,logical ops,casts,square,is_finite,complex parts; uniform precision) is decided "
        "by FAPrinterEval.tla on the first samples of every program; disagreement between it and the harness interpreter is reported as drift",
        "decimal literals are converted by Python's float() (= correctly rounded strtod) in the parser and re-verified by DecIsRN in the spec",
        "node static types are taken from Expr.get_type() (their correctness is C08's subject)",
        "g++ -std=c++17 -O0 -fno-fast-math -ffp-contract=off -frounding-math (no compile-time folding of libm calls) on x86-64 SSE2; exec() for Python/NumPy with the target's source_file_header",
        "leniencies: NaN = NaN; samples whose strict direct evaluation raises are not judged; `p = T(p)` / `T(p)` with T the declared type of parameter p is the argument; constants of equal value "
        "and type are one sub-expression; complex literals are not interpreted by the spec (they may denote any complex constant; covered by execution); 0-d arrays and scalars of the same "
        "dtype and bits are the same result; wild-carded kinds are matched against the package's own template; a term above an undefined name is not judged again",
        "a graph is 'accepted' by a target when rewrite(target) and tostring(target) return without raising (a formatter exception on the emitted text counts as text that does not load); "
        "list-valued programs, alt-context constants and long double are not covered",
    ]
    return chk.finish(rule="programs = every shipped (function, signature) of trace_arguments accepted by the target x debug 0/1, plus TLC-generated terms "
                           "(PrinterTerms kinds/consts/dags/random, FATerms small, TypedTerms ops1/ops2) x target x dtype variant; each executed on "
                           "%d inputs; non-trivial = distinct emitted texts with at least one assignment or >= 4 graph nodes" % nsamples,
                      distinct_nontrivial=len(texts),
                      extra_cov=dict(programs=tot["programs"], distinct_programs_validated=tot["validated"]))


def replay(path):
    fa = import_repo()
    with open(path) as f:
        rp = json.load(f)["replay"]
    chk = Check(PID, "quick", 0, level="translation_validation")
    if rp.get("table"):
        n = check_tables(fa, chk)
        for v in chk.violations:
            print("VIOLATION property=%s replay=%s  # %s" % (PID, path, v[1]))
        return 1 if n else 0
    req = rp["request"]
    results = produce_all(fa, [req], 40, 8, 0)
    run_cpp_programs(fa, results, 8)
    r = results[0]
    print("status:", r["status"], r.get("why", ""))
    if r["status"] != "accepted":
        return 0
    print(r["text"])
    order, res = judge(chk, results, nproc=1)
    for eid, n in res["notes"]:
        print("NOTE", n[:2000])
    for eid, clauses in res["fails"]:
        print("VIOLATION property=%s replay=%s  # clauses %s" % (PID, path, clauses))
    return 1 if res["fails"] else 0
