"""C05 - executable targets (Python, NumPy, C++) compute exactly the traced graph.

U1: MC_Printer (transcription of need_ref + PrinterBase.tostring on ALL small DAGs x force_ref sets, run
    through the FAPrinter machine) and MC_TargetTables (the package's template tables, extracted from
    the working tree into a generated TLA+ module, against the spec's own Implements table).
U2: programs = every shipped (function, signature) each target accepts x debug 0/1, plus graphs from
    TLC's term generators (FATerms, TypedTerms, PrinterTerms) built in the real package.
U3: each emitted text is parsed by parsers that are independent of the package (harness/fa_printer.py),
    the real graph is projected into a node table, the text is compiled/exec'ed and run on inputs, and
    Trace_Printer.tla judges every clause.
"""
import ctypes
import json
import math
import os
import random
import subprocess
import sys
import time
import warnings

import numpy

from .. import tlc, tlaval, bits
from .. import fa_printer as P
from ..common import Check, import_repo, REPO

PID = "C05"
TARGETS = ("python", "numpy", "cpp")
LANG = dict(python="python", numpy="python", cpp="cpp")
