"""C13 - number-representation conversions are lossless and mutually inverse.

U1: MC_Convert: on a toy IEEE format TLC checks that the oracle itself is coherent (RN(Val(x)) = x,
    Val strictly monotone in Ord, NextUp adjacent in value), that the TLA+ binary-string parser
    inverts a TLA+ printer of float2bin's format, and runs transcriptions of float2fraction's
    field arithmetic and of mpf2multiword's chunking loop against the Convert.tla clauses.
U2: the shapes of inputs that must be covered in the wide formats (class x sign x binade position x
    significand shape) are enumerated by TLC from MC_Convert and concretised here per dtype.
U3: every float16 pattern, and for float32/float64 every binade (sub-normal ones too), extremes,
    powers of two +-1 ulp, the U2 shapes and random patterns go through the real
    float2fraction/fraction2float, float2bin/bin2float, float2mpf/mpf2float,
    mpf2expansion/expansion2mpf, mpf2multiword/multiword2mpf, float2expansion; the driver records
    the input bits, the intermediate object in an uninterpreted encoding and the bits that came
    back; Trace_Convert.tla computes every value and decides every clause.
"""
import json
import os
import random
import signal

import numpy

from .. import tlc, tlaval, bits
from ..common import Check, import_repo

PID = "C13"
DTYPES = ("float16", "float32", "float64")
NARROWER = {"float16": (), "float32": ("float16",), "float64": ("float32", "float16")}
EBITS = {"float16": 5, "float32": 8, "float64": 11}
TIMEOUT_S = 0.75


class Timeout(BaseException):
    pass


def _on_alarm(signum, frame):
    raise Timeout()


class WrongType(Exception):
    """A conversion back returned something that is not a scalar of the requested dtype."""


class Guard:
    """Run calls of the code under test with a limit on the CPU time of the call (a conversion that never
    returns is an observation, not a reason for the harness to hang; CPU time, so that a loaded machine
    cannot turn a slow call into a false observation)."""

    def __enter__(self):
        self.old = signal.signal(signal.SIGPROF, _on_alarm)
        return self

    def __exit__(self, *a):
        signal.setitimer(signal.ITIMER_PROF, 0)
        signal.signal(signal.SIGPROF, self.old)

    def call(self, fn, *a, **kw):
        """-> ("ok", value) | ("raised", repr) | ("timeout", None)"""
        signal.setitimer(signal.ITIMER_PROF, TIMEOUT_S)
        try:
            r = fn(*a, **kw)
            signal.setitimer(signal.ITIMER_PROF, 0)
            return "ok", r
        except Timeout:
            return "timeout", "no result after %.2f s of CPU time" % TIMEOUT_S
        except Exception as ex:  # noqa
            signal.setitimer(signal.ITIMER_PROF, 0)
            return "raised", "%s: %s" % (type(ex).__name__, str(ex)[:80])
        finally:
            signal.setitimer(signal.ITIMER_PROF, 0)


def mpf_tuple(m):
    """mpmath mpf -> [sign, man limbs, exp, bc] (uninterpreted copy of its _mpf_ field)."""
    sign, man, exp, bc = m._mpf_
    return [int(sign), bits.nat(int(man)), int(exp), int(bc)]


NOBITS = []
NOMPF = [0, [], 0, 0]


class Driver:
    def __init__(self, utils, mpmath):
        self.u = utils
        self.mp = mpmath.mp
        self.fractions = __import__("fractions")

    # ---- the routes; each returns the record logged for the spec ------------------------------
    def frac(self, g, dt, x):
        st, q = g.call(self.u.float2fraction, x)
        if st != "ok":
            return dict(st="fwd_" + st, num=[0, []], den=[], back=NOBITS, err=q)
        rec = dict(num=bits.zint(q.numerator), den=bits.nat(q.denominator))
        st, b = g.call(self.u.fraction2float, dt, q)
        if st != "ok":
            return dict(rec, st="back_" + st, back=NOBITS, err=b)
        return dict(rec, st="ok", back=self.bits_of(b, dt))

    def bin(self, g, dt, x):
        st, s = g.call(self.u.float2bin, x)
        if st != "ok" or not isinstance(s, str):
            return dict(st="fwd_" + (st if st != "ok" else "raised"), s=[], back=NOBITS, err=str(s))
        rec = dict(s=[ord(c) for c in s])
        st, b = g.call(self.u.bin2float, dt, s)
        if st != "ok":
            return dict(rec, st="back_" + st, back=NOBITS, err=b)
        return dict(rec, st="ok", back=self.bits_of(b, dt))

    def mpf(self, g, dt, x, tag, prec):
        with self.mp.workprec(prec):
            st, m = g.call(self.u.float2mpf, self.mp, x)
            if st != "ok":
                return dict(tag=tag, prec=prec, st="fwd_" + st, m=NOMPF, back=NOBITS, err=m)
            rec = dict(tag=tag, prec=prec, m=mpf_tuple(m))
            st, b = g.call(self.u.mpf2float, dt, m)
            if st != "ok":
                return dict(rec, st="back_" + st, back=NOBITS, err=b)
            return dict(rec, st="ok", back=self.bits_of(b, dt))

    def private_ctx(self, prec):
        """a context of its own (as vectorize_with_mpmath creates them): nothing may depend on the global mpmath.mp instead"""
        if getattr(self, "_priv", None) is None:
            self._priv = self.mp.clone()
        self._priv.prec = prec
        return self._priv

    def words(self, g, dt, x, tag, prec, wdt, fwd, back, unbounded, via_mpf=True, lb=0, fwd_only=False, private=False):
        """x -(float2mpf)-> mpf -fwd-> word list -back-> mpf -(mpf2float)-> float.
        private: the mpf objects live in a private context of precision prec while the GLOBAL context works at 8 bits."""
        name = dt.__name__
        wname = wdt.__name__
        base = dict(tag=tag, prec=prec, wfmt=wname, unbounded=unbounded, words=[], hasbm=False, bm=NOMPF,
                    back=NOBITS, lb=lb)
        mpc = self.private_ctx(prec) if private else self.mp
        with self.mp.workprec(8 if private else prec):
            if via_mpf:
                st, m = g.call(self.u.float2mpf, mpc, x)
                if st != "ok":
                    return dict(base, st="fwd_" + st, err=m)
                st, ws = g.call(fwd, wdt, m)
            else:
                st, ws = g.call(fwd, wdt, x)
            if st != "ok":
                return dict(base, st="fwd_" + st, err=ws)
            try:
                base["words"] = [bits.fbits(w, wname) for w in ws]
                assert all(type(w) is wdt for w in ws)
            except Exception as ex:  # not a list of words of the requested type
                return dict(base, st="fwd_raised", err="result is not a list of %s: %r" % (wname, ex))
            if not ws and not via_mpf:
                return dict(base, st="back_skipped_empty")
            if fwd_only:
                return dict(base, st="ok_fwd_only")
            st, bm = g.call(back, mpc, ws)
            if st != "ok":
                return dict(base, st="back_" + st, err=bm)
            base["hasbm"] = True
            base["bm"] = mpf_tuple(bm)
            st, b = g.call(self.u.mpf2float, dt, bm)
            if st != "ok":
                return dict(base, st="back_" + st, err=b)
            return dict(base, st="ok", back=self.bits_of(b, name))

    @staticmethod
    def bits_of(v, dt):
        name = dt if isinstance(dt, str) else dt.__name__
        if type(v).__name__ != name:
            raise WrongType("conversion returned %s, not %s" % (type(v).__name__, name))
        return bits.fbits(v, name)

    # ---- one input through the selected routes ------------------------------------------------
    def event(self, g, eid, name, pattern, level):
        """level 0: core routes; 1: + rotating extra configurations; 2: every configuration."""
        u = self.u
        dt = bits.FLOAT[name]
        x = bits.from_bits_int(pattern, name)
        tp = bits.PREC[name]
        finite = bool(numpy.isfinite(x))
        ev = dict(id=eid, fmt=name, x=bits.nat(pattern))
        ev["frac"] = self.safe(self.frac, g, dt, x)
        ev["bin"] = self.safe(self.bin, g, dt, x)
        ev["mpf"] = [self.safe(self.mpf, g, dt, x, "mpf/p", tp)]
        wl = []

        def ex(tag, wdt, prec, **kw):
            unb = kw.get("length") is None
            wl.append(self.safe(self.words, g, dt, x, tag, prec, wdt,
                                lambda d, m: u.mpf2expansion(d, m, **kw), u.expansion2mpf, unb))

        def exb(tag, wdt, prec, lb, listform):
            # the `base` convention (words scaled by base^i), asked for one value or - the other way to phrase it - a list of values
            wl.append(self.safe(self.words, g, dt, x, tag, prec, wdt,
                                (lambda d, m: u.mpf2expansion(d, [m], base=2 ** lb)[0]) if listform else
                                (lambda d, m: u.mpf2expansion(d, m, base=2 ** lb)), None, True, lb=lb, fwd_only=True))

        def expriv(tag, wdt, prec, **kw):
            unb = kw.get("length") is None
            wl.append(self.safe(self.words, g, dt, x, tag, prec, wdt,
                                lambda d, m: u.mpf2expansion(d, m, **kw), u.expansion2mpf, unb, private=True))

        def mw(tag, prec, **kw):
            wl.append(self.safe(self.words, g, dt, x, tag, prec, dt,
                                lambda d, m: u.mpf2multiword(d, m, **kw), u.multiword2mpf, True))

        def f2e(tag, wdt, prec):
            wl.append(self.safe(self.words, g, dt, x, tag, prec, wdt,
                                lambda d, v: u.float2expansion(d, v), u.expansion2mpf, True, via_mpf=False))

        def f2epy(tag, wdt, prec):
            # the same value handed over as a plain Python float (number2expansion dispatches on the type; NumPy's
            # promotion treats a Python float as "weak", so arithmetic with it can happen in the narrow dtype)
            wl.append(self.safe(self.words, g, dt, x, tag, prec, wdt,
                                lambda d, v: u.number2expansion(d, float(v)), u.expansion2mpf, True, via_mpf=False))

        half = (tp + 1) // 2
        small = max(2, tp // 4)
        extras = [
            lambda: ev["mpf"].append(self.safe(self.mpf, g, dt, x, "mpf/2p", 2 * tp)),
            lambda: ex("ex/len1", dt, tp, length=1),
            lambda: expriv("expriv/default", dt, 2 * tp),
            lambda: ex("ex/fun3", dt, 2 * tp, length=3, functional=True),
            lambda: mw("mw/half", tp, p=half),
            lambda: mw("mw/half_ml2", 2 * tp, p=half, max_length=2),
            lambda: mw("mw/ml3", tp, max_length=3),
        ]
        if finite:
            # float2expansion has no treatment of inf/nan at all (it would not return); the
            # statement's "where the format can express them" is not pressed on it
            extras.append(lambda: f2e("f2e/same", dt, tp))
            extras.append(lambda: f2epy("f2epy/same", dt, tp))
            if x != 0:
                extras.append(lambda: mw("mwsmallp/quarter", tp, p=small))
            for wn in NARROWER[name]:
                # efficiency only (the spec decides the domain): float2expansion does not return when the
                # first word overflows the narrow dtype
                if not abs(float(x)) <= float(numpy.finfo(bits.FLOAT[wn]).max):
                    continue
                extras.append(lambda wn=wn: ex("exnarrow/" + wn, bits.FLOAT[wn], tp))
                extras.append(lambda wn=wn: expriv("exprivnarrow/" + wn, bits.FLOAT[wn], 2 * tp))
                if x != 0 and abs(float(x)) <= float(numpy.finfo(bits.FLOAT[wn]).max) / 64:
                    extras.append(lambda wn=wn: exb("exbase2/" + wn, bits.FLOAT[wn], tp, 1, False))
                    extras.append(lambda wn=wn: exb("exbase32list/" + wn, bits.FLOAT[wn], tp, 5, True))
                    extras.append(lambda wn=wn: exb("exbase2list/" + wn, bits.FLOAT[wn], tp, 1, True))
                extras.append(lambda wn=wn: f2e("f2enarrow/" + wn, bits.FLOAT[wn], tp))
                extras.append(lambda wn=wn: f2epy("f2epynarrow/" + wn, bits.FLOAT[wn], tp))
        fb = tp - 1
        canonical_nan = (pattern & ((1 << (bits.WIDTH[name] - 1)) - 1)) == (((1 << EBITS[name]) - 1) << fb) | (1 << (fb - 1))
        if finite or numpy.isinf(x) or canonical_nan:
            ex("ex/default", dt, tp)
        else:
            # NaN: the unbounded mpf2expansion is only tried on the canonical quiet NaN of either sign (it may
            # not return); every other NaN pattern goes through the bounded variant
            ex("ex/len1", dt, tp, length=1)
        mw("mw/default", tp)
        if level >= 2:
            for fn in extras:
                fn()
            if finite and x != 0:
                mw("mwmaxlen1/default", tp, max_length=1)
        elif level == 1:
            k = len(extras)
            for j in (eid % k, (eid // k + eid + 1 + k // 2) % k):
                extras[j]()
        ev["wl"] = wl
        return ev

    @staticmethod
    def safe(fn, g, *a, **kw):
        """A result of the wrong type (no bit pattern of the dtype can be recorded) is logged as the
        back conversion not having produced a value."""
        try:
            return fn(g, *a, **kw)
        except WrongType as ex:
            tag = a[2] if len(a) > 2 and isinstance(a[2], str) else "x"
            return dict(tag=tag, st="back_raised", err=str(ex), prec=0, wfmt=a[0].__name__, unbounded=False,
                        words=[], hasbm=False, bm=NOMPF, back=NOBITS, m=NOMPF, num=[0, []], den=[], s=[])


# ---- inputs ----------------------------------------------------------------------------------------
def structured_patterns(name, rng, rich=True):
    """Every binade (normal and sub-normal) with its edges, extremes, specials; both signs."""
    w = bits.WIDTH[name]
    p = bits.PREC[name]
    fb = p - 1
    eb = EBITS[name]
    top = (1 << eb) - 1
    sign = 1 << (w - 1)
    pats = []
    ones = (1 << fb) - 1
    for e in range(0, top + 1):
        mans = [0, 1, ones, rng.getrandbits(fb)]
        if rich:
            mans += [ones - 1, 1 << (fb - 1), rng.getrandbits(fb) | 1]
        for m in mans:
            pats.append((e << fb) | m)
    for k in range(fb):  # sub-normal binades: leading bit k
        lo = 1 << k
        for m in {lo, lo | 1, (lo << 1) - 1, lo | rng.getrandbits(k) if k else lo, lo | (lo >> 1)}:
            pats.append(m)
    out = []
    for q in pats:
        s = rng.getrandbits(1)
        out.append(q | (sign if s else 0))
        if q < (1 << fb) + 2 or q >= (top << fb) - 2 or rng.random() < 0.15:
            out.append(q | (0 if s else sign))
    return out


def specials(name):
    w = bits.WIDTH[name]
    fb = bits.PREC[name] - 1
    top = (1 << EBITS[name]) - 1
    sign = 1 << (w - 1)
    inf = top << fb
    out = []
    for s in (0, sign):
        out += [s, s | inf, s | inf | 1, s | inf | (1 << (fb - 1)), s | inf | ((1 << fb) - 1),
                s | 1, s | ((1 << fb) - 1), s | (1 << fb), s | (inf - 1)]
    return out


def shape_patterns(shapes, name, rng):
    """U2: concretise the (class, sign, binade position, significand shape) tuples printed by TLC."""
    w = bits.WIDTH[name]
    fb = bits.PREC[name] - 1
    top = (1 << EBITS[name]) - 1
    out = []
    for cls, sgn, pos, sh in shapes:
        if cls == "zero":
            mag = 0
        elif cls == "inf":
            mag = top << fb
        elif cls == "nan":
            frac = {"zero": 1 << (fb - 1), "lsb": 1, "ones": (1 << fb) - 1}.get(sh, rng.getrandbits(fb) | 1)
            mag = (top << fb) | (frac or 1)
        else:
            if cls == "sub":
                k = {"lo": 0, "lo1": 1, "mid": fb // 2, "hi1": fb - 2, "hi": fb - 1}[pos]
                width, lead, e = k, 1 << k, 0
            else:
                e = {"lo": 1, "lo1": 2, "mid": top // 2, "hi1": top - 2, "hi": top - 1}[pos]
                width, lead = fb, 0
            if width == 0:
                frac = 0
            else:
                frac = {"zero": 0, "lsb": 1, "msb": 1 << (width - 1), "ones": (1 << width) - 1,
                        "ones1": (1 << width) - 2, "alt": int("10" * width, 2) >> width,
                        "gap": (1 << (width - 1)) | 1 if width > 1 else 1}[sh]
            mag = (e << fb) | lead | frac
        out.append(mag | ((1 << (w - 1)) if sgn else 0))
    return out


def export_shapes(chk):
    r = tlc.run("MC_Convert", "MC_Convert_shapes.cfg", workers=1, timeout=300)
    if not r.ok:
        raise tlc.MachineryError("shape export failed:\n" + r.out[-2000:])
    chk.add_mc("MC_Convert_shapes", r)
    shapes = [tuple(v[1:]) for v in tlaval.printed_values(r.out, "SHAPE")]
    if len(shapes) < 50:
        raise tlc.MachineryError("shape export printed only %d shapes" % len(shapes))
    return shapes


# ---- U1 --------------------------------------------------------------------------------------------
U1_ACTIONS = ("StepZero", "StepSub", "StepNormal", "StepInf", "StepNaN")


def run_u1(chk, tier):
    cfgs = ["MC_Convert.cfg"] if tier == "quick" else ["MC_Convert.cfg", "MC_Convert_t5.cfg"]
    for cfg in cfgs:
        r = tlc.run("MC_Convert", cfg, workers=2, extra=["-coverage", "1"], timeout=1500)
        chk.add_mc(cfg, r)
        if not r.ok:
            if r.invariant_violated:
                chk.fail("model:" + "+".join(r.invariant_violated), "MC_Convert (%s): the oracle/design is incoherent" % cfg,
                         r.error_trace())
                continue
            raise tlc.MachineryError("MC_Convert %s did not complete:\n%s" % (cfg, r.out[-3000:]))
        cov = r.coverage()
        never = [a for a in U1_ACTIONS if cov.get(a, (0, 0))[0] == 0]
        if never:
            raise tlc.MachineryError("vacuous MC_Convert run: actions never taken: %s" % never)
        chk.cov.setdefault("action_coverage", {})[cfg] = {k: v[0] for k, v in cov.items() if k in U1_ACTIONS}
        for v in tlaval.printed_values(r.out, "U1"):
            chk.cov.setdefault("u1_counts", {})[cfg + ":" + str(v[1])] = v[2]


# ---- the check -------------------------------------------------------------------------------------
def build_inputs(tier, seed, shapes):
    rng = random.Random(seed)
    plan = []  # (dtype name, pattern, level)
    # float16: every pattern
    structured16 = set(specials("float16") + shape_patterns(shapes, "float16", rng))
    if tier == "thorough":
        structured16 |= set(structured_patterns("float16", rng))
    for pat in range(1 << 16):
        if pat in structured16:
            lvl = 2
        elif tier == "thorough":
            lvl = 2 if pat % 4 == seed % 4 else 1
        else:
            lvl = 1 if pat % 4 == seed % 4 else 0
        plan.append(("float16", pat, lvl))
    nrand = {"quick": 20000, "thorough": 220000}[tier]
    for name in ("float32", "float64"):
        seen = set()
        for pat in specials(name) + shape_patterns(shapes, name, rng):
            if pat not in seen:
                seen.add(pat)
                plan.append((name, pat, 2))
        st = structured_patterns(name, rng, rich=(tier == "thorough" or name == "float32"))
        if tier == "thorough":  # a second, differently seeded pass over every binade
            st += structured_patterns(name, rng) + structured_patterns(name, rng)
        for pat in st:
            if pat not in seen:
                seen.add(pat)
                plan.append((name, pat, 2 if tier == "thorough" else 1))
        w = bits.WIDTH[name]
        for i in range(nrand):
            pat = rng.getrandbits(w)
            if pat not in seen:
                seen.add(pat)
                plan.append((name, pat, 1 if (tier == "thorough" or i % 3 == 0) else 0))
    return plan


def _work(args):
    """Worker: drive a slice of the plan through the real package (forked; the package is already imported)."""
    start, items = args
    drv = _work.drv
    out = []
    import warnings
    with Guard() as g, numpy.errstate(all="ignore"), warnings.catch_warnings():
        warnings.simplefilter("ignore")
        for i, (name, pat, lvl) in enumerate(items):
            out.append(drv.event(g, start + i, name, pat, lvl))
    return out


def drive(plan, nproc, first_id=0):
    import multiprocessing as mp
    step = 2000
    jobs = [(first_id + i, plan[i:i + step]) for i in range(0, len(plan), step)]
    if nproc <= 1:
        res = [_work(j) for j in jobs]
    else:
        with mp.get_context("fork").Pool(nproc) as pool:
            res = pool.map(_work, jobs, chunksize=1)
    events = []
    for r in res:
        events += r
    return events


def collect_fails(res):
    """[(id, [clauses])] with one entry per event; the trace spec prints one FAIL line per clause and a NOTE
    with the number of clauses: a mismatch means a line was not understood (machinery, not a verdict)."""
    got = {}
    for eid, clauses in res["fails"]:
        got.setdefault(eid, []).extend(clauses)
    want = {eid: int(n) for eid, n in res["notes"]}
    if {k: len(v) for k, v in got.items()} != want:
        bad = [k for k in set(got) | set(want) if len(got.get(k, [])) != want.get(k)]
        raise tlc.MachineryError("FAIL lines and their announced counts disagree for events %s" % bad[:10])
    return sorted(got.items())


def key_of(ev, clause):
    """dtype : route family (the configuration after '/' is dropped) : clause @ class of the input."""
    tag, rest = clause.split(":", 1)
    return "%s:%s:%s" % (ev["fmt"], tag.split("/")[0], rest)


def describe(ev, clause):
    tag = clause.split(":")[0]
    rec = None
    if tag in ("frac", "bin"):
        rec = ev.get(tag)
    else:
        for r in ev.get("mpf", []) + ev.get("wl", []):
            if r.get("tag") == tag:
                rec = r
    pat = bits.unnat(ev["x"])
    x = bits.from_bits_int(pat, ev["fmt"])
    return "%s x=%r (bits 0x%x) clause %s record %s" % (ev["fmt"], x, pat, clause, json.dumps(rec)[:600])


def run(tier, seed):
    fa = import_repo()
    from functional_algorithms import utils
    import mpmath
    chk = Check(PID, tier, seed)
    # U1
    run_u1(chk, tier)
    # U2
    shapes = export_shapes(chk)
    # drive + U3, in batches (the recorded events of the thorough tier do not fit in memory at once)
    plan = build_inputs(tier, seed, shapes)
    _work.drv = Driver(utils, mpmath)
    nproc = min(8, tlc.NCPU)
    BATCH = 120000
    nroutes = 0
    nontrivial = set()
    tot = dict(fails=[], notes=[], states=0, transitions=0, chunks=0, wall=0.0)
    for b0 in range(0, len(plan), BATCH):
        part = plan[b0:b0 + BATCH]
        events = drive(part, nproc, b0)
        if b0 == 0:
            for i in (0, len(events) // 3, len(events) // 2, len(events) - 1):
                chk.sample(dict(input=part[i][:2], event=events[i]))
        res = tlc.validate_events("Trace_Convert", "Trace.cfg", events, name="convert")
        byid = {e["id"]: e for e in events}
        for eid, clauses in collect_fails(res):
            ev = byid[eid]
            for c in clauses:
                chk.fail(key_of(ev, c), describe(ev, c),
                         dict(fmt=ev["fmt"], pattern=bits.unnat(ev["x"]), clause=c, event=ev))
        for k in ("states", "transitions", "chunks", "wall"):
            tot[k] += res[k]
        tot["fails"] += res["fails"]
        nroutes += sum(2 + len(e["mpf"]) + len(e["wl"]) for e in events)
        for e in events:
            if e["frac"]["st"] == "ok" and e["frac"]["num"][1] != []:
                nontrivial.add((e["fmt"], bits.unnat(e["x"])))
        del events, byid, res
    chk.add_trace("Trace_Convert", tot, len(plan), ntraces=len(plan))
    chk.cov["route_records"] = nroutes
    chk.cov["inputs_per_dtype"] = {n: sum(1 for p in plan if p[0] == n) for n in DTYPES}
    chk.cov["u2_shapes"] = len(shapes)
    chk.assumptions += [
        "L1: -0 may come back as +0 through a fraction (stated) and through any mpmath mpf (mpmath has no signed "
        "zero: the format cannot express it); the binary string must round-trip -0 bit-identically",
        "L2: nothing is demanded of inf/NaN through fractions (the format cannot express them)",
        "L3: NaN must come back as some NaN (sign/payload free)",
        "L4: an empty word list has the value zero; float2expansion of zero (empty list) has nothing to convert back",
        "L5: word lists in a narrower dtype are judged only when the value lies in that dtype's exact domain "
        "(decided by the spec) and no length limit was requested",
        "L6: float2expansion is not driven with inf/NaN (it has no inverse named by the property and does not "
        "return for them)",
        "mpmath special values are recognised by mpmath's fixed _mpf_ tuples finf/fninf/fnan",
    ]
    return chk.finish(rule="one event per input float carrying every conversion route exercised on it; all 65536 "
                           "float16 patterns; float32/float64: every binade incl. sub-normal ones, extremes, "
                           "specials, TLC-enumerated shapes and seeded random patterns; non-trivial = distinct "
                           "(dtype, pattern) inputs that are finite and non-zero",
                      distinct_nontrivial=len(nontrivial), extra_cov=dict(inputs=len(plan)))


def replay(path):
    import_repo()
    from functional_algorithms import utils
    import mpmath
    with open(path) as f:
        rp = json.load(f)["replay"]
    drv = Driver(utils, mpmath)
    with Guard() as g:
        ev = drv.event(g, 0, rp["fmt"], int(rp["pattern"]), 2)
    print(json.dumps(ev))
    res = tlc.validate_events("Trace_Convert", "Trace.cfg", [ev], name="convert_replay")
    known = {k["key"] for k in Check(PID, "quick", 0).known}
    rc = 0
    for eid, clauses in collect_fails(res):
        for c in clauses:
            if key_of(ev, c) in known:
                print("KNOWN-FINDING property=%s  # %s" % (PID, describe(ev, c)))
            else:
                rc = 1
                print("VIOLATION property=%s replay=%s  # %s" % (PID, path, describe(ev, c)))
    return rc
