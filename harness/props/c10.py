"""C10 - error-free transformations are exact.

U1: TLC checks MC_EFT exhaustively: the TLA+ transcriptions of 2Sum, Fast2Sum, both Veltkamp splitter
    variants (every option), Dekker's product on every splitter configuration and the three-term sum, on
    ALL operands / ordered pairs of the toy formats T4..T7, satisfy the relations of spec/EFT.tla on the
    domains the spec computes; in-domain counts are measured (guards not vacuous); deliberately wrong
    algorithms are rejected (witnesses).
U2: TLC enumerates the operand shapes (spec/EFTShapes.tla: exponent gap x mantissa patterns x magnitude
    class x signs for sums, magnitude-class pairs for products, every binade for the splitter); this
    driver concretises each in float16/float32/float64 and calls EVERY copy and option combination of
    the real functions on it (floating_point_algorithms, apmath wrappers, utils, and the copies inlined
    in algorithms.py evaluated through their traced graph on the numpy target).  Plus: the float16
    splitter exhaustively (63488 finite values, every option), float16 pairs sampled uniformly from all
    pairs, random float32/float64 pairs.
U3: one ndjson line per INPUT carrying the results of all variants (identical results merged with a
    multiplicity); spec/Trace_EFT.tla judges every result: the domain is computed by the spec from the
    logged inputs, the clauses compare exact dyadic values.

The driver never decides a clause: it builds inputs (bit patterns) and logs results (bit patterns).
"""
import json
import random
import warnings

import numpy

from .. import tlc, tlaval, bits
from ..common import Check, import_repo

PID = "C10"
FMTS = ["float16", "float32", "float64"]
TRACE = "Trace_EFT"
CFG = "Trace.cfg"
STAT_NAMES = ["sum_calls", "sum_in_domain", "split_calls", "split_in_domain", "prod_calls", "prod_in_domain",
              "prod_exact_domain", "sum3_calls", "sum3_in_domain", "drift", "fix_overflow_inexact_outside_domain"]


# --------------------------------------------------------------------------------------------- formats
class Fmt:
    def __init__(self, name):
        self.name = name
        self.p = bits.PREC[name]
        self.emax = bits.EMAX[name]
        self.w = bits.WIDTH[name]
        self.emin = 1 - self.emax
        self.qmin = self.emin - (self.p - 1)
        self.s = (self.p + 1) // 2
        self.dt = bits.FLOAT[name]
        self.ut = bits.UINT[name]
        self.sign = 1 << (self.w - 1)
        self.inf = ((1 << (self.w - self.p)) - 1) << (self.p - 1)
        self.largest = self.inf - 1

    def mk(self, sign, E, mant):
        """Bit pattern of (-1)^sign * mant * 2^(E - (n-1)), mant an n-bit integer with its top bit set;
        n = p for E >= emin, n = E - qmin + 1 in the subnormal range."""
        if E >= self.emin:
            assert mant >> (self.p - 1) == 1, (E, mant)
            mag = ((E - self.emin + 1) << (self.p - 1)) | (mant - (1 << (self.p - 1)))
        else:
            assert 0 < mant < (1 << (self.p - 1))
            mag = mant
        assert mag < self.inf
        return mag | (self.sign if sign else 0)

    def width(self, E):
        return self.p if E >= self.emin else E - self.qmin + 1

    def arr(self, ints):
        return numpy.array(ints, dtype=self.ut).view(self.dt)

    def ints(self, a):
        return numpy.ascontiguousarray(a).view(self.ut).tolist()

    def value_bits(self, v):
        """bits of a Python int/float that is exactly representable"""
        return int(numpy.array([v], dtype=self.dt).view(self.ut)[0])

    def exponent_of(self, b):
        mag = b & (self.sign - 1)
        f = mag >> (self.p - 1)
        if f:
            return f - 1 + self.emin
        return self.qmin + mag.bit_length() - 1 if mag else self.qmin


F = {n: Fmt(n) for n in FMTS}


def pattern(name, n, s, rng):
    """n-bit mantissa with the top bit set"""
    top = 1 << (n - 1)
    if n == 1:
        return 1
    if name == "pow2":
        return top
    if name == "pow2p":
        return top | 1
    if name in ("ones", "pow2m"):
        return (1 << n) - 1
    if name == "alt":
        m = 0
        for i in range(n):
            m = (m << 1) | (1 - i % 2)
        return m
    if name == "onehalf":
        return top | (1 << (n - 1 - s)) if n > s else top | 1
    if name == "lowrand":
        return top | rng.getrandbits(n - s) if n > s else top | rng.getrandbits(n - 1)
    if name == "half":
        if n > s:
            hi = (1 << (n - s - 1)) | rng.getrandbits(n - s - 1) if n - s > 1 else 1
            return (hi << s) | (1 << (s - 1))
        return top | (1 << (n - 2))
    return top | rng.getrandbits(n - 1)


DELTA = {"pow2": 0, "pow2p": 1, "pow2m": -1, "ones": 2, "half": -2, "onehalf": 3, "lowrand": -3}


def special_value(f, mag, pat, rng):
    """magnitude classes that are a specific threshold of the code + an offset in ulps chosen by the pattern"""
    if mag == "xmax":
        base = f.value_bits((2 ** (f.p // 2) - 1) * 2 ** (f.emax + 1 - f.p // 2))
    else:  # largestC: where (2^s + 1) * x resp. 2^s * x overflows
        if rng.random() < 0.5:
            with numpy.errstate(all="ignore"):
                base = int(numpy.array([numpy.finfo(f.dt).max / f.dt(2 ** f.s + 1)], dtype=f.dt).view(f.ut)[0])
        else:
            base = f.mk(0, f.emax + 1 - f.s, 1 << (f.p - 1))
    d = DELTA.get(pat)
    if d is None:
        d = rng.randint(3, 64) if pat == "alt" else rng.randint(-64, 64)
    return max(1, min(f.largest, base + d))


def class_exponent(f, mag, rng):
    if mag == "sub":
        return rng.randint(f.qmin, f.emin - 1)
    if mag == "minnorm":
        return f.emin
    if mag == "lownorm":
        return rng.randint(f.emin + 1, f.emin + f.p)
    if mag == "anybin":
        return rng.randint(f.qmin, f.emax)
    if mag == "one":
        return 0
    if mag == "sqrtmax":
        # product overflow edge and the two underflow edges (error term / product itself)
        return rng.choice([f.emax // 2 - 1, f.emax // 2, f.emax // 2 + 1, (f.emax + 1) // 2 + 1,
                           f.emin // 2 - 1, f.emin // 2, f.emin // 2 + 1, (f.emin - f.p) // 2, (f.emin - f.p) // 2 + 1])
    if mag == "largest":
        return f.emax
    raise tlc.MachineryError("unknown magnitude class %r" % mag)


def place(f, sign, E, pat, rng):
    """the pattern at lead exponent E (pow2m = 2^E - 1ulp: all ones one binade down)"""
    if pat == "pow2m" and E - 1 >= f.qmin:
        E -= 1
    if E < f.qmin or E > f.emax:
        return None
    return f.mk(sign, E, pattern(pat, f.width(E), f.s, rng))


def operand(f, mag, pat, sign, rng):
    if mag == "clamp":
        xmax = f.value_bits((2 ** (f.p // 2) - 1) * 2 ** (f.emax + 1 - f.p // 2))
        return rng.randint(xmax + 1, f.largest) | (f.sign if sign else 0)
    if mag in ("xmax", "largestC"):
        return special_value(f, mag, pat, rng) | (f.sign if sign else 0)
    return place(f, sign, class_exponent(f, mag, rng), pat, rng)


def concretise_sum(f, sh, rng):
    _, _, gap, px, py, mag, sx, sy = sh
    if rng.random() < 0.5:
        sx, sy = 1 - sx, 1 - sy
    g = abs(gap)
    # the anchor operand carries the magnitude class; the other one is |gap| binades away
    big_is_x = gap > 0 or (gap == 0 and rng.random() < 0.5)
    pb, ps = (px, py) if big_is_x else (py, px)
    sb, ss = (sx, sy) if big_is_x else (sy, sx)
    if mag in ("xmax", "largestC", "clamp"):
        b = operand(f, mag, pb, sb, rng)
        small = place(f, ss, f.exponent_of(b) - g, ps, rng)
        if small is None:
            return None
        return (b, small) if big_is_x else (small, b)
    E = class_exponent(f, mag, rng)
    anchor_small = rng.random() < 0.5 or E - g < f.qmin
    if anchor_small and E + g > f.emax:
        anchor_small = False
    Eb, Es = (E + g, E) if anchor_small else (E, E - g)
    b = place(f, sb, Eb, pb, rng)
    small = place(f, ss, Es, ps, rng)
    if b is None or small is None:
        return None
    return (b, small) if big_is_x else (small, b)


def concretise_sum3(f, sh, rng):
    _, _, g1, g2, px, sy, sz = sh
    lo = max(f.emin, f.qmin + g1 + g2)
    if lo > f.emax - 2:
        return None
    E = rng.randint(lo, f.emax - 2)
    x = place(f, rng.getrandbits(1), E, px, rng)
    y = place(f, sy, E - g1, rng.choice(["rand", "pow2", "ones", "half"]), rng)
    z = place(f, sz, E - g1 - g2, rng.choice(["rand", "pow2", "ones"]), rng)
    if x is None or y is None or z is None:
        return None
    return x, y, z


# --------------------------------------------------------------------------------------------- code under test
class Mods:
    def __init__(self):
        import_repo()
        import functional_algorithms as fa
        from functional_algorithms import floating_point_algorithms as fpa, utils, apmath, algorithms, targets, rewrite
        self.fa, self.fpa, self.utils, self.apmath, self.alg = fa, fpa, utils, apmath, algorithms
        self.targets, self.rewrite = targets, rewrite
        self.ctx = {n: utils.NumpyContext(F[n].dt) for n in FMTS}
        self._traced = {}

    def traced(self, name, fmt):
        """A helper inlined in algorithms.py, evaluated through its traced graph on the numpy target."""
        key = (name, fmt)
        if key not in self._traced:
            alg = self.alg

            def split(ctx, x: float):
                C = alg.get_veltkamp_splitter_constant(ctx, ctx.constant("largest", x))
                return alg.split_veltkamp(ctx, C, x)

            def square(ctx, x: float):
                C = alg.get_veltkamp_splitter_constant(ctx, ctx.constant("largest", x))
                xh, xl = alg.split_veltkamp(ctx, C, x)
                return alg.square_dekker(ctx, x, xh, xl)

            def add_2sum(ctx, x: float, y: float):
                return alg.add_2sum(x, y, fast=False)

            def add_fast2sum(ctx, x: float, y: float):
                return alg.add_2sum(x, y, fast=True)

            def sum2_2sum(ctx, x: float, y: float):
                return alg.sum_2sum([x, y], fast=False)

            def sum2_fast2sum(ctx, x: float, y: float):
                return alg.sum_2sum([x, y], fast=True)

            def sum3_2sum(ctx, x: float, y: float, z: float):
                return alg.sum_2sum([x, y, z], fast=False)

            def sum3_fast2sum(ctx, x: float, y: float, z: float):
                return alg.sum_2sum([x, y, z], fast=True)

            fn = locals()[name]
            nargs = fn.__code__.co_argcount - 1
            dt = F[fmt].dt
            with warnings.catch_warnings():
                warnings.simplefilter("ignore")
                ctx = self.fa.Context(paths=[alg])
                graph = ctx.trace(fn, *([dt] * nargs))
                graph2 = graph.rewrite(self.targets.numpy, self.rewrite)
                self._traced[key] = self.targets.numpy.as_function(graph2, debug=0)
        return self._traced[key]


class V:
    """One variant: a copy of a transformation with one option combination and one call protocol."""

    def __init__(self, kind, name, call, mode="array", rate=1, only_equal=False, **opts):
        self.kind, self.name, self.call, self.mode, self.rate, self.only_equal, self.opts = kind, name, call, mode, rate, only_equal, opts

    def __repr__(self):
        return self.name


def tf(b):
    return "T" if b else "F"


def build_variants(m):
    """Every copy x option combination.  call(f, ops, aux) -> (a, b) arrays (array mode) or scalars."""
    fpa, utils, apmath = m.fpa, m.utils, m.apmath
    vs = []
    SC = 53       # scalar-protocol variants are called on every SC-th input
    # ---- sums
    for fast in (False, True):
        for fix in (False, True):
            for mode, rate in (("array", 1), ("scalar", SC)):
                tag = "" if mode == "array" else ",scalar"
                vs.append(V("sum", "fpa.add_2sum[fast=%s,fix_overflow=%s%s]" % (tf(fast), tf(fix), tag),
                            lambda f, o, a, fast=fast, fix=fix: fpa.add_2sum(m.ctx[f.name], o[0], o[1], fast=fast, fix_overflow=fix),
                            mode=mode, rate=rate, fast=fast, fix=fix))
            vs.append(V("sum", "apmath.two_sum[fix_overflow=%s,assume_fma=%s]" % (tf(fix), tf(fast)),
                        lambda f, o, a, fast=fast, fix=fix: apmath.two_sum(m.ctx[f.name], o[0], o[1], fix_overflow=fix, assume_fma=fast),
                        fast=fast, fix=fix))
    for fix in (False, True):
        vs.append(V("sum", "apmath.quick_two_sum[fix_overflow=%s]" % tf(fix),
                    lambda f, o, a, fix=fix: apmath.quick_two_sum(m.ctx[f.name], o[0], o[1], fix_overflow=fix), fast=True, fix=fix))
    for mode, rate in (("array", 1), ("scalar", SC)):
        tag = "" if mode == "array" else "[scalar]"
        vs.append(V("sum", "utils.add_2sum" + tag, lambda f, o, a: utils.add_2sum(o[0], o[1]), mode=mode, rate=rate, fast=False, fix=False))
        vs.append(V("sum", "utils.add_fast2sum" + tag, lambda f, o, a: utils.add_fast2sum(o[0], o[1]), mode=mode, rate=rate, fast=True, fix=False))
    vs.append(V("sum", "utils.sum_2sum[len=2]", lambda f, o, a: utils.sum_2sum([o[0], o[1]]), fast=False, fix=False))
    vs.append(V("sum", "utils.sum_fast2sum[len=2]", lambda f, o, a: utils.sum_fast2sum([o[0], o[1]]), fast=True, fix=False))
    vs.append(V("sum", "utils.double_2sum", lambda f, o, a: utils.double_2sum(o[0]), only_equal=True, fast=False, fix=False))
    vs.append(V("sum", "utils.double_fast2sum", lambda f, o, a: utils.double_fast2sum(o[0]), only_equal=True, fast=True, fix=False))
    for fast in (False, True):
        nm = "add_fast2sum" if fast else "add_2sum"
        vs.append(V("sum", "algorithms.add_2sum[fast=%s,traced]" % tf(fast),
                    lambda f, o, a, nm=nm: m.traced(nm, f.name)(o[0], o[1]), fast=fast, fix=False))
        nm2 = "sum2_fast2sum" if fast else "sum2_2sum"
        vs.append(V("sum", "algorithms.sum_2sum[len=2,fast=%s,traced]" % tf(fast),
                    lambda f, o, a, nm2=nm2: m.traced(nm2, f.name)(o[0], o[1]), fast=fast, fix=False))
    # ---- three-term sums
    vs.append(V("sum3", "utils.sum_2sum[len=3]", lambda f, o, a: utils.sum_2sum([o[0], o[1], o[2]]), fast=False))
    vs.append(V("sum3", "utils.sum_fast2sum[len=3]", lambda f, o, a: utils.sum_fast2sum([o[0], o[1], o[2]]), fast=True))
    for fast in (False, True):
        nm = "sum3_fast2sum" if fast else "sum3_2sum"
        vs.append(V("sum3", "algorithms.sum_2sum[len=3,fast=%s,traced]" % tf(fast),
                    lambda f, o, a, nm=nm: m.traced(nm, f.name)(o[0], o[1], o[2]), fast=fast))
    # ---- splitter.  cfg = (alg, constant given, which constant, scale); "std" = 2^s + 1, "k" = 2^k + 1 (aux)
    for scale in (False, True):
        for mode, rate in (("array", 1), ("scalar", SC)):
            tag = "" if mode == "array" else ",scalar"
            vs.append(V("split", "fpa.split_veltkamp[C=None,scale=%s%s]" % (tf(scale), tag),
                        lambda f, o, a, scale=scale: fpa.split_veltkamp(m.ctx[f.name], o[0], scale=scale),
                        mode=mode, rate=rate, cfg=("n", False, None, scale)))
            vs.append(V("split", "fpa.split_veltkamp[C=2^s+1,scale=%s%s]" % (tf(scale), tag),
                        lambda f, o, a, scale=scale: fpa.split_veltkamp(m.ctx[f.name], o[0], f.dt(2 ** f.s + 1), scale=scale),
                        mode=mode, rate=rate, cfg=("n", True, "std", scale)))
    vs.append(V("split", "apmath.split", lambda f, o, a: apmath.split(m.ctx[f.name], o[0]), cfg=("n", False, None, True)))
    vs.append(V("split", "fpa.split_veltkamp[C=2^k+1,scale=F]",
                lambda f, o, a: fpa.split_veltkamp(m.ctx[f.name], o[0], a["C"], scale=False), cfg=("n", True, "k", False)))
    vs.append(V("split", "utils.split_veltkamp[C=2^s+1]", lambda f, o, a: utils.split_veltkamp(o[0], C=f.dt(2 ** f.s + 1)),
                cfg=("c", True, "std", False)))
    vs.append(V("split", "utils.split_veltkamp[C=2^k+1]", lambda f, o, a: utils.split_veltkamp(o[0], C=a["C"]), cfg=("c", True, "k", False)))
    vs.append(V("split", "utils.split_veltkamp[default,scalar]", lambda f, o, a: utils.split_veltkamp(o[0]),
                mode="scalar", rate=SC, cfg=("c", False, None, False)))
    vs.append(V("split", "utils.split_veltkamp[s=k,scalar]", lambda f, o, a: utils.split_veltkamp(o[0], s=a["k"]),
                mode="scalar", rate=SC, cfg=("c", True, "k", False)))
    vs.append(V("split", "algorithms.split_veltkamp[traced]", lambda f, o, a: m.traced("split", f.name)(o[0]), cfg=("c", False, None, False)))
    # ---- Dekker's product
    for cname, cg in (("None", False), ("2^s+1", True)):
        for scale in (False, True):
            for fix in (False, True):
                for mode, rate in (("array", 1), ("scalar", SC)):
                    tag = "" if mode == "array" else ",scalar"
                    vs.append(V("prod", "fpa.mul_dekker[C=%s,scale=%s,fix_overflow=%s%s]" % (cname, tf(scale), tf(fix), tag),
                                lambda f, o, a, cg=cg, scale=scale, fix=fix: fpa.mul_dekker(
                                    m.ctx[f.name], o[0], o[1], C=(f.dt(2 ** f.s + 1) if cg else None), scale=scale, fix_overflow=fix),
                                mode=mode, rate=rate, cfg=("n", cg, "std" if cg else None, scale), fix=fix, fma=False))
    for scale in (False, True):
        for fix in (False, True):
            vs.append(V("prod", "apmath.two_prod[scale=%s,fix_overflow=%s]" % (tf(scale), tf(fix)),
                        lambda f, o, a, scale=scale, fix=fix: apmath.two_prod(m.ctx[f.name], o[0], o[1], scale=scale, fix_overflow=fix),
                        cfg=("n", False, None, scale), fix=fix, fma=False))
    for fix in (False, True):
        # assume_fma=True: the result cannot be observed without a fused multiply-add (L4); only the call is checked
        vs.append(V("prod", "fpa.mul_dekker[assume_fma=T,fix_overflow=%s]" % tf(fix),
                    lambda f, o, a, fix=fix: fpa.mul_dekker(m.ctx[f.name], o[0], o[1], fix_overflow=fix, assume_fma=True),
                    rate=101, cfg=("n", False, None, True), fix=fix, fma=True))
        vs.append(V("prod", "apmath.two_prod[assume_fma=T,fix_overflow=%s]" % tf(fix),
                    lambda f, o, a, fix=fix: apmath.two_prod(m.ctx[f.name], o[0], o[1], fix_overflow=fix, assume_fma=True),
                    rate=101, cfg=("n", False, None, True), fix=fix, fma=True))
    vs.append(V("prod", "utils.multiply_dekker[C=2^s+1]", lambda f, o, a: utils.multiply_dekker(o[0], o[1], C=f.dt(2 ** f.s + 1)),
                cfg=("c", True, "std", False), fix=False, fma=False))
    vs.append(V("prod", "utils.multiply_dekker[default,scalar]", lambda f, o, a: utils.multiply_dekker(o[0], o[1]),
                mode="scalar", rate=SC, cfg=("c", False, None, False), fix=False, fma=False))
    vs.append(V("prod", "utils.square_dekker[C=2^s+1]", lambda f, o, a: utils.square_dekker(o[0], C=f.dt(2 ** f.s + 1)),
                only_equal=True, cfg=("c", True, "std", False), fix=False, fma=False))
    vs.append(V("prod", "utils.square_dekker[default,scalar]", lambda f, o, a: utils.square_dekker(o[0]),
                mode="scalar", rate=7, only_equal=True, cfg=("c", False, None, False), fix=False, fma=False))
    vs.append(V("prod", "algorithms.square_dekker[traced]", lambda f, o, a: m.traced("square", f.name)(o[0]),
                only_equal=True, cfg=("c", False, None, False), fix=False, fma=False))
    return vs


# --------------------------------------------------------------------------------------------- running the code
def as_bits(f, r, n):
    """(problem, list of n bit patterns) for one returned array / scalar"""
    if isinstance(r, numpy.ndarray):
        if r.dtype != f.dt:
            return "ResultDtype:%s" % r.dtype, None
        if r.shape == ():
            r = r.reshape(1)
        if r.shape != (n,):
            return "ResultShape:%s" % (r.shape,), None
        return "", f.ints(r)
    if type(r) is f.dt:
        return "", [f.value_bits(r)]
    if isinstance(r, (int, float, numpy.floating, numpy.integer)) and not isinstance(r, bool):
        # leniency: a Python / other-width number is accepted when it is exactly a value of the format (e.g. the literal 0)
        with numpy.errstate(all="ignore"):
            c = f.dt(r)
        if c == r or (c != c and r != r):
            return "", [f.value_bits(c)]
        return "ResultNotInFormat:%s" % type(r).__name__, None
    return "ResultType:%s" % type(r).__name__, None


def call_variant(v, f, ops, aux, idx):
    """Run variant v on the inputs selected by idx -> (err, A, B): lists of bit patterns aligned with idx."""
    n = len(idx)
    sel = [o[idx] for o in ops]
    saux = {k: (val[idx] if isinstance(val, numpy.ndarray) else val) for k, val in aux.items()}
    with warnings.catch_warnings(), numpy.errstate(all="ignore"):
        warnings.simplefilter("ignore")
        if v.mode == "array":
            try:
                r = v.call(f, sel, saux)
                if not (isinstance(r, (tuple, list)) and len(r) == 2):
                    return "ResultNotAPair:%s" % type(r).__name__, None, None
                ea, A = as_bits(f, r[0], n)
                eb, B = as_bits(f, r[1], n)
            except Exception as ex:  # noqa: any exception is a recorded outcome
                return type(ex).__name__, None, None
            if ea or eb:
                return ea or eb, None, None
            if len(A) == 1 and n > 1:       # a scalar returned for an array input
                return "ResultShape:scalar", None, None
            return "", A, B
        # scalar protocol: one call per input with NumPy scalars
        A, B, errs = [], [], []
        for j in range(n):
            o = [s[j] for s in sel]
            a1 = {k: (val[j] if isinstance(val, numpy.ndarray) else val) for k, val in saux.items()}
            if "k" in a1:
                a1["k"] = int(a1["k"])
            try:
                r = v.call(f, o, a1)
                if not (isinstance(r, (tuple, list)) and len(r) == 2):
                    e, a, b = "ResultNotAPair:%s" % type(r).__name__, 0, 0
                else:
                    ea, a = as_bits(f, r[0], 1)
                    eb, b = as_bits(f, r[1], 1)
                    e = ea or eb
                    a, b = (a[0], b[0]) if not e else (0, 0)
            except Exception as ex:  # noqa
                e, a, b = type(ex).__name__, 0, 0
            errs.append(e)
            A.append(a)
            B.append(b)
        return errs, A, B


def cfg_json(f, cfg, kbits):
    alg, cg, which, scale = cfg
    if which == "std":
        c = f.value_bits(2 ** f.s + 1)
    elif which == "k":
        c = kbits
    else:
        c = 0
    return dict(alg=alg, cg=bool(cg), c=bits.nat(c), scale=bool(scale))


class Batch:
    """Inputs of one kind and format; produces the trace lines and keeps which variants are behind each entry."""

    def __init__(self, kind, f, operands, src):
        self.kind, self.f, self.src = kind, f, src
        self.ops_int = operands                   # list (per operand) of lists of bit patterns
        self.n = len(operands[0])

    def run(self, variants, id0):
        f, n, kind = self.f, self.n, self.kind
        ops = [f.arr(o) for o in self.ops_int]
        aux = {}
        if kind == "split":
            ks = numpy.array([2 + (i % (f.p - 3)) for i in range(n)], dtype=numpy.int64)
            aux = dict(k=ks, C=(2.0 ** ks + 1).astype(f.dt))
            kb = f.ints(aux["C"])
        equal = None
        if kind in ("sum", "prod"):
            equal = numpy.nonzero(ops[0].view(f.ut) == ops[1].view(f.ut))[0]
        entries = [dict() for _ in range(n)]       # per input: returned pair -> option class -> variant indices
        slots = [dict() for _ in range(n)] if kind in ("split", "prod") else None
        for vi, v in enumerate(variants):
            if v.kind != kind:
                continue
            idx = equal if v.only_equal else numpy.arange(n)
            if v.rate > 1:
                idx = idx[idx % v.rate == (vi % v.rate)]
            if len(idx) == 0:
                continue
            err, A, B = call_variant(v, f, ops, aux, idx)
            o = v.opts
            for j, i in enumerate(idx.tolist()):
                e = err if isinstance(err, str) else err[j]
                out = (0, 0, e) if e else (A[j], B[j], "")
                if kind in ("sum", "sum3"):
                    kc = 1 if o["fast"] else 0
                else:
                    cfg = o["cfg"]
                    ck = (cfg, kb[i] if cfg[2] == "k" else 0)
                    sl = slots[i].setdefault(ck, len(slots[i]) + 1)
                    kc = sl if kind == "split" else (sl, 1 if o["fma"] else 0)
                entries[i].setdefault(out, {}).setdefault(kc, []).append(vi)
        lines, who = [], []
        nat = bits.nat
        hi, lo = ("s", "t") if kind in ("sum", "sum3") else ("h", "l")
        for i in range(n):
            if not entries[i]:
                continue
            line = dict(id=id0 + len(lines), kind=kind, fmt=f.name, x=nat(self.ops_int[0][i]))
            if kind != "split":
                line["y"] = nat(self.ops_int[1][i])
            if kind == "sum3":
                line["z"] = nat(self.ops_int[2][i])
            if slots is not None:
                line["cfgs"] = [cfg_json(f, ck[0], ck[1]) for ck, _ in sorted(slots[i].items(), key=lambda kv: kv[1])]
            rs, w = [], []
            for out, classes in entries[i].items():
                ks, wk = [], []
                for kc, vis in classes.items():
                    if kind == "sum":
                        ks.append([kc, len(vis), sum(1 for vi in vis if variants[vi].opts["fix"])])
                    elif kind == "sum3":
                        ks.append([kc, len(vis)])
                    elif kind == "split":
                        ks.append([kc, len(vis)])
                    else:
                        ks.append([kc[0], len(vis), kc[1]])
                    wk.append(vis)
                rs.append({hi: nat(out[0]), lo: nat(out[1]), "err": out[2], "ks": ks})
                w.append(wk)
            line["rs"] = rs
            lines.append(line)
            who.append((i, w))
        return lines, who


# --------------------------------------------------------------------------------------------- verdict plumbing
def fl(f, b):
    return "%r (0x%x)" % (float(bits.from_bits_int(b, f.name)), b)


def describe(line, entry, vname):
    f = F[line["fmt"]]
    un = bits.unnat
    ins = ", ".join(fl(f, un(line[k])) for k in ("x", "y", "z") if k in line)
    if "err" in entry and entry["err"]:
        return "%s %s(%s) raised/returned %s" % (line["fmt"], vname, ins, entry["err"])
    a, b = (entry["s"], entry["t"]) if "s" in entry else (entry["h"], entry["l"])
    return "%s %s(%s) -> (%s, %s)" % (line["fmt"], vname, ins, fl(f, un(a)), fl(f, un(b)))


def judge(chk, variants, lines, who, stats, batch_of):
    if not lines:
        return
    res = tlc.validate_events(TRACE, CFG, lines, name="eft")
    ncalls = sum(k[1] for ln in lines for e in ln["rs"] for k in e["ks"])
    chk.add_trace(TRACE, res, ncalls, ntraces=res["chunks"])
    stats["lines"] += len(lines)
    byid = {ln["id"]: (ln, w) for ln, (_, w) in zip(lines, who)}
    for eid, text in res["notes"]:
        val = tlaval.parse(text)
        if eid == -1:
            for k, nm in enumerate(STAT_NAMES):
                stats[nm] += val[k]
            continue
        ln, w = byid[eid]
        for tag in val["__set__"]:
            what, gi = tag.split("@")
            ei, kj = (int(t) - 1 for t in gi.split("."))
            ent = ln["rs"][ei]
            for vi in w[ei][kj]:
                stats["drift_examples"].setdefault(variants[vi].name, describe(ln, ent, variants[vi].name))
    for eid, clauses in res["fails"]:
        ln, w = byid[eid]
        for tag in clauses:
            clause, gi = tag.split("@")
            ei, kj = (int(t) - 1 for t in gi.split("."))
            ent = ln["rs"][ei]
            for vi in w[ei][kj]:
                v = variants[vi]
                base = v.name.replace(",scalar]", "]").replace("[scalar]", "")
                key = "%s:%s" % (base, clause) if clause == "raised" else "%s:%s:%s" % (base, ln["fmt"], clause)
                chk.fail(key, describe(ln, ent, v.name) + ": clause " + clause,
                         dict(kind=ln["kind"], fmt=ln["fmt"], inputs=[bits.unnat(ln[k]) for k in ("x", "y", "z") if k in ln],
                              variant=v.name, clause=clause, src=batch_of[ln["id"]].src, line=ln))
                stats["failing_calls"] += 1


# --------------------------------------------------------------------------------------------- U1
U1_MUST_WITNESS = ["wit_fast", "wit_drop", "wit_noclamp", "wit_split_c"]


def run_u1(tier):
    cfg = "MC_EFT_quick.cfg" if tier == "quick" else "MC_EFT.cfg"
    return cfg, tlc.run("MC_EFT", cfg, workers=4 if tier == "quick" else 6, timeout=3000, tag="u1")


def join_u1(chk, cfg, r, tier):
    chk.add_mc(cfg, r)
    if not r.ok:
        if r.invariant_violated:
            raise tlc.MachineryError("MC_EFT: the design does not satisfy %s (the relations or the transcriptions are wrong; "
                                     "nothing below can be trusted):\n%s" % (r.invariant_violated, r.error_trace()))
        raise tlc.MachineryError("MC_EFT did not complete:\n" + r.out[-2000:])
    tot = {}
    for v in tlaval.printed_values(r.out, "CNT"):
        _, fn, rel, x, c = v
        t = tot.setdefault("%s %s" % (fn, rel), dict(first_operands=0, in_domain=0, exact_domain=0, violating=0))
        t["first_operands"] += 1
        t["in_domain"] += c[0]
        t["exact_domain"] += c[1]
        t["violating"] += c[2]
        if c[2] and "example" not in t:
            t["example"] = [x] + c[3]
    fmts_pair = ["T4"] if tier == "quick" else ["T4", "T5"]
    for fn in fmts_pair:
        for rel in ("sum2", "fast", "prod:nCS", "prod:nCU", "prod:nDS", "prod:nDU", "prod:cC"):
            t = tot.get("%s %s" % (fn, rel))
            if not t or t["in_domain"] == 0 or (rel.startswith("prod") and t["exact_domain"] == 0):
                raise tlc.MachineryError("vacuous model run: no in-domain pair for %s %s" % (fn, rel))
    for fn in ("T4", "T5", "T6", "T7"):
        for rel in ("split:nCS", "split:nCU", "split:nDS", "split:nDU", "split:cC", "splitk"):
            t = tot.get("%s %s" % (fn, rel))
            if not t or t["in_domain"] == 0:
                raise tlc.MachineryError("vacuous model run: no in-domain operand for %s %s" % (fn, rel))
    for w in U1_MUST_WITNESS + (["wit_prod_c"] if tier != "quick" else []):
        if not any(t["violating"] for k, t in tot.items() if k.endswith(" " + w)):
            raise tlc.MachineryError("model run: the wrong algorithm %s is not rejected by the clauses" % w)
    chk.cov["u1"] = tot
    # negative control: the pre-92b9285 default multiplier 2^s must be rejected by the clauses (even p)
    for w in ("split:nNS", "prod:nNS"):
        if not any(t["violating"] for k, t in tot.items() if k.endswith(" " + w)):
            raise tlc.MachineryError("model run: the splitter with multiplier 2^s (%s) is not rejected by the clauses" % w)


# --------------------------------------------------------------------------------------------- inputs
def export_shapes(chk, tier):
    cfg = "EFTShapes_quick.cfg" if tier == "quick" else "EFTShapes.cfg"
    r = tlc.run("EFTShapes", cfg, workers=1, timeout=1200, tag="shapes")
    if not r.ok:
        raise tlc.MachineryError("shape export failed:\n" + r.out[-2000:])
    chk.add_mc(cfg, r)
    shapes = [v[1] for v in tlaval.printed_values(r.out, "H")]
    shapes.sort(key=lambda s: json.dumps(s))
    if len(shapes) != r.distinct or len(shapes) < 30000:
        raise tlc.MachineryError("shape export: %d shapes parsed, %d states" % (len(shapes), r.distinct))
    return shapes


def random_sum_pairs(f, n, rng):
    xs, ys = [], []
    for _ in range(n):
        ex = rng.randint(f.qmin, f.emax)
        ey = max(f.qmin, min(f.emax, ex + rng.randint(-(f.p + 3), f.p + 3)))
        xs.append(rand_float(f, ex, rng))
        ys.append(rand_float(f, ey, rng))
    return xs, ys


def rand_float(f, E, rng):
    n = f.width(E)
    u = rng.random()
    if n == 1:
        mant = 1
    elif u < 0.7:
        mant = (1 << (n - 1)) | rng.getrandbits(n - 1)
    elif u < 0.85:       # few significant bits
        k = rng.randint(1, n)
        mant = ((1 << (k - 1)) | rng.getrandbits(k - 1) if k > 1 else 1) << (n - k)
    else:                # long runs of ones / zeros
        k = rng.randint(1, n - 1)
        mant = ((1 << n) - 1) ^ ((1 << k) - 1) if rng.random() < 0.5 else (1 << (n - 1)) | ((1 << k) - 1)
    return f.mk(rng.getrandbits(1), E, mant)


def random_prod_pairs(f, n, rng):
    xs, ys = [], []
    for _ in range(n):
        ex = rng.randint(f.qmin, f.emax)
        lo, hi = max(f.qmin, f.qmin - 2 - ex), min(f.emax, f.emax + 1 - ex)
        ey = rng.randint(lo, hi) if lo <= hi else rng.randint(f.qmin, f.emax)
        xs.append(rand_float(f, ex, rng))
        ys.append(rand_float(f, ey, rng))
    return xs, ys


def uniform_f16(n, rng):
    f = F["float16"]
    out = []
    while len(out) < n:
        b = rng.getrandbits(16)
        if b & (f.sign - 1) < f.inf:
            out.append(b)
    return out


def all_finite(f):
    return [b | s for s in (0, f.sign) for b in range(f.inf)]


# --------------------------------------------------------------------------------------------- the check
def run(tier, seed):
    import concurrent.futures as cf
    quick = tier == "quick"
    chk = Check(PID, tier, seed)
    rng = random.Random(seed)
    m = Mods()
    variants = build_variants(m)
    pool = cf.ThreadPoolExecutor(max_workers=1)
    u1 = pool.submit(run_u1, tier)
    shapes = export_shapes(chk, tier)
    stats = dict.fromkeys(STAT_NAMES, 0)
    stats.update(lines=0, failing_calls=0, drift_examples={}, infeasible_shapes=0)
    by_kind = {}
    next_id = [0]
    nontrivial = set()
    u1_joined = []

    pending = []          # (lines, who, batch) of the batches waiting for TLC
    npending = [0]
    flush_at = 120000

    def flush():
        if not pending:
            return
        if not u1_joined:
            # U1 first: if the design itself is wrong nothing below means anything (and the CPUs are shared)
            join_u1(chk, *u1.result(), tier)
            u1_joined.append(1)
        lines, who, batch_of = [], [], {}
        for ls, ws, b in pending:
            for ln in ls:
                batch_of[ln["id"]] = b
            lines += ls
            who += ws
        # one trace for all kinds and formats (fewer JVM starts); shuffled so that the chunks cost about the same
        order = list(range(len(lines)))
        random.Random(seed * 1000003 + lines[0]["id"]).shuffle(order)
        judge(chk, variants, [lines[i] for i in order], [who[i] for i in order], stats, batch_of)
        del pending[:]
        npending[0] = 0

    def submit(kind, f, operands, src):
        if not operands[0]:
            return
        b = Batch(kind, f, operands, src)
        lines, who = b.run(variants, next_id[0])
        next_id[0] += len(lines)
        by_kind["%s:%s:%s" % (kind, f.name, src)] = by_kind.get("%s:%s:%s" % (kind, f.name, src), 0) + len(lines)
        for k in range(0, len(lines), 997):
            chk.sample(dict(src=src, line=lines[k]), limit=8)
        for i in range(b.n):
            nontrivial.add((kind, f.name) + tuple(o[i] for o in operands))
        pending.append((lines, who, b))
        npending[0] += len(lines)
        if npending[0] >= flush_at:
            flush()

    reps = 1          # draws per shape (thorough enumerates ~10 times more shapes instead)
    for name in FMTS:
        f = F[name]
        # ---- U2: the TLC shapes
        sums, prods, splits, sum3s = ([], []), ([], []), [[]], ([], [], [])
        dense = ([], [])
        ndense = ((160 if name == "float16" else 30) if quick else (1000 if name == "float16" else 200))
        for sh in shapes:
            if sh[1] != name:
                continue
            if quick and ((sh[0] == "sum" and rng.random() < 0.5) or (sh[0] == "prod" and rng.random() < 0.4)):
                continue      # quick: a seeded half of the sum shapes / 60% of the product shapes
            if sh[0] == "proddense":
                # many random-mantissa pairs inside one (class, class) cell: regions, not only their edges
                for _ in range(ndense):
                    x, y = operand(f, sh[2], "rand", rng.getrandbits(1), rng), operand(f, sh[3], "rand", rng.getrandbits(1), rng)
                    if x is not None and y is not None:
                        dense[0].append(x)
                        dense[1].append(y)
                continue
            for _ in range(reps):
                if sh[0] == "sum":
                    c = concretise_sum(f, sh, rng)
                    if c is None:
                        stats["infeasible_shapes"] += 1
                        continue
                    sums[0].append(c[0])
                    sums[1].append(c[1])
                elif sh[0] == "prod":
                    _, _, mx, my, px, py, sx, sy = sh
                    x, y = operand(f, mx, px, sx, rng), operand(f, my, py, sy, rng)
                    if x is None or y is None:
                        stats["infeasible_shapes"] += 1
                        continue
                    prods[0].append(x)
                    prods[1].append(y)
                elif sh[0] == "sum3":
                    c = concretise_sum3(f, sh, rng)
                    if c is None:
                        stats["infeasible_shapes"] += 1
                        continue
                    for k in range(3):
                        sum3s[k].append(c[k])
                elif sh[0] == "split":
                    _, _, mag, px, sx = sh
                    if mag == "binade":
                        step = 8 if (quick and name == "float64") else 1
                        for E in range(f.qmin + rng.randrange(step), f.emax + 1, step):
                            x = place(f, sx, E, px, rng)
                            if x is not None:
                                splits[0].append(x)
                    else:
                        x = operand(f, mag, px, sx, rng)
                        if x is not None:
                            splits[0].append(x)
        # squares: the x = y lines exercise square_dekker / double_2sum
        k = max(1, len(prods[0]) // (400 if quick else 4000))
        sq = prods[0][::k]
        submit("sum", f, list(sums), "shapes")
        submit("sum", f, [sq, sq], "shapes-equal")
        submit("prod", f, list(prods), "shapes")
        submit("prod", f, list(dense), "shapes-dense")
        submit("prod", f, [sq, sq], "shapes-equal")
        submit("split", f, splits, "shapes")
        submit("sum3", f, list(sum3s), "shapes")
        # ---- float16: the splitter exhaustively; pairs sampled uniformly from all finite pairs
        if name == "float16":
            if quick:
                # quick: every non-negative value (the splitter is odd-symmetric) + sampled negative ones
                submit("split", f, [list(range(f.inf))], "exhaustive-nonnegative")
                submit("split", f, [[b | f.sign for b in rng.sample(range(f.inf), 3000)]], "sampled-negative")
            else:
                submit("split", f, [all_finite(f)], "exhaustive")
            n16 = 5000 if quick else 100000
            for kind in ("sum", "prod"):
                for lo in range(0, n16, 100000):
                    cnt = min(100000, n16 - lo)
                    submit(kind, f, [uniform_f16(cnt, rng), uniform_f16(cnt, rng)], "uniform")
            sq = uniform_f16(1000 if quick else 20000, rng)
            submit("prod", f, [sq, sq], "uniform-equal")
        # ---- random pairs with nearby exponents (sums) / representable products
        nr = (4000 if quick else 80000) if name != "float16" else (2000 if quick else 40000)
        for lo in range(0, nr, 100000):
            cnt = min(100000, nr - lo)
            submit("sum", f, list(random_sum_pairs(f, cnt, rng)), "random")
            submit("prod", f, list(random_prod_pairs(f, cnt * 3 // 5, rng)), "random")
        if name != "float16":
            xs = [rand_float(f, rng.randint(f.qmin, f.emax), rng) for _ in range(2000 if quick else 40000)]
            submit("split", f, [xs], "random")
            sq = xs[:1000 if quick else 30000]
            submit("prod", f, [sq, sq], "random-equal")
    flush()
    if not u1_joined:
        join_u1(chk, *u1.result(), tier)
    # ---- every variant must have been exercised in every format
    # (a variant that is never called would silently drop out of the claim)
    for nm in ("sum_in_domain", "split_in_domain", "prod_in_domain", "prod_exact_domain", "sum3_in_domain"):
        if stats[nm] == 0:
            raise tlc.MachineryError("vacuous run: %s = 0" % nm)
    if stats["drift"]:
        ex = sorted(stats["drift_examples"].items())[:6]
        chk.drift_note("%d results differ from the TLA+ transcription (domains are computed from the transcription), e.g. %s"
                       % (stats["drift"], "; ".join("%s" % e[1] for e in ex)))
    if stats["fix_overflow_inexact_outside_domain"]:
        chk.note("fix_overflow=True, x + y finite but an intermediate of 2Sum overflows: the returned pair (x+y, 0) is not exact "
                 "on %d calls (outside the domain of C10, not judged)" % stats["fix_overflow_inexact_outside_domain"])
    chk.assumptions += [
        "the sign of a zero in a returned pair is free (values are compared)",
        "'fitting in half the significand' = at most ceil(p/2) significant bits (max(k, p-k) for a caller-supplied constant 2^k+1)",
        "fix_overflow=True does not enlarge the judged domain: outside 'no intermediate overflow' the pair is only noted",
        "assume_fma=True cannot be observed under NumPy (no fused multiply-add): only 'the call returns a pair' is demanded",
        "three-term sum_2sum: judged only where the transcription's t1 + t2 is exact",
        "a returned Python/NumPy number of another type is accepted when it is exactly a value of the format (the literal 0 of fix_overflow)",
        "domains are computed from the TLA+ transcription of each algorithm variant; a code change that alters which intermediates overflow shows up as drift, not as a violation",
    ]
    stats_out = {k: v for k, v in stats.items() if k != "drift_examples"}
    return chk.finish(
        rule="events = calls judged (one per variant x input; identical results of one input are judged once with a multiplicity); "
             "non-trivial = distinct (kind, format, operand bit patterns) inputs; every TLC shape concretised %d time(s) per format, "
             "float16 splitter exhaustive" % reps,
        distinct_nontrivial=len(nontrivial),
        extra_cov=dict(trace_lines=stats["lines"], spec_counters=stats_out, lines_by_source=by_kind, shapes=len(shapes),
                       variants=[v.name for v in variants]))


# --------------------------------------------------------------------------------------------- replay
def replay(path):
    with open(path) as fh:
        rp = json.load(fh)["replay"]
    m = Mods()
    variants = build_variants(m)
    f = F[rp["fmt"]]
    ln = rp["line"]
    ops = [[bits.unnat(ln[k])] for k in ("x", "y", "z") if k in ln]
    # the same input position is not known any more: run every variant of the kind at rate 1
    vs = []
    for v in variants:
        if v.kind == rp["kind"]:
            v2 = V(v.kind, v.name, v.call, mode=v.mode, rate=1, only_equal=v.only_equal, **v.opts)
            vs.append(v2)
    b = Batch(rp["kind"], f, ops, "replay")
    if rp["kind"] == "split":
        # reproduce the caller-supplied constant of the recorded line
        want = [bits.unnat(c["c"]) for c in ln["cfgs"] if c["cg"] and bits.unnat(c["c"]) != f.value_bits(2 ** f.s + 1)]
        if want:
            kk = int(round(numpy.log2(float(bits.from_bits_int(want[0], f.name)) - 1)))
            pad = (kk - 2) % (f.p - 3)
            b = Batch("split", f, [[ops[0][0]] * (pad + 1)], "replay")
    lines, who = b.run(vs, 0)
    lines, who = lines[-1:], who[-1:]
    print(json.dumps(lines[0]))
    res = tlc.validate_events(TRACE, CFG, lines, nproc=1)
    rc = 0
    for eid, clauses in res["fails"]:
        for tag in clauses:
            clause, gi = tag.split("@")
            ei, kj = (int(t) - 1 for t in gi.split("."))
            for vi in who[0][1][ei][kj]:
                if vs[vi].name == rp["variant"] or clause != rp["clause"]:
                    print("VIOLATION property=%s replay=%s  # %s: clause %s" % (PID, path, describe(lines[0], lines[0]["rs"][ei], vs[vi].name), clause))
                    rc = 1
    return rc
