"""C11 - emulated compound operations meet their documented error bounds.

U1: spec/MC_Compound.tla - TLA+ transcriptions of next, is_power_of_two, add_3sum, add_4sum, mul_add, dot2
    and all 32 variants of the emulated fused multiply-add run over the operand tuples of toy IEEE
    formats (T3 triples/quadruples, T6 unary; thorough: also T4) against the clauses of spec/Compound.tla;
    a second, domain-only run with -coverage shows that no domain guard is vacuous.  Arithmetic on the
    toy format is memoised in tables written by spec/MC_CompoundTab.tla.
U2: spec/CompoundShapes.tla - TLC enumerates the operand shapes (mantissa patterns x magnitude class x
    relation of the addend to the product: cancellation, ties, near ties, exponent gaps, subnormal
    results, top-of-range); this driver concretises every shape in float16/32/64 and calls the real code.
    next and is_power_of_two are called on every float16 value.
U3: every call is recorded (raw bit patterns) and judged by spec/Trace_Compound.tla.

The driver never decides a clause.  It computes products / sums of floats only to CONSTRUCT inputs
(e.g. z = -fl(x*y) for a cancellation shape); which tuples are in the documented domain, which are ties,
and every verdict come from the specification.
"""
import json
import math
import os
import random
import warnings

import numpy

from .. import tlc, tlaval, bits
from ..common import Check, import_repo

PID = "C11"
TRACE = "Trace_Compound"
CFG = "Trace.cfg"
FMTS = ["float16", "float32", "float64"]
ALGS = ["a7", "a8", "a9", "apmath"]
COPIES = ["apmath", "algo"]
MANT = ["one", "onep", "max", "maxm", "two", "few", "rand"]
TAB_OVERRIDES = ("XAdd XMul XNeg XAbs XLt XLe XEq Val COne C32 C98 C78 CQ CP CQ13 CP13 CSplitN CSplitC "
                 "CSplitInvN CXMax CLargest CNext").split()


# --------------------------------------------------------------------------- float construction
class Fm:
    """Parameters of a format and bit-level construction of its values (inputs only)."""

    def __init__(self, fmt):
        self.fmt = fmt
        self.p = bits.PREC[fmt]
        self.emax = bits.EMAX[fmt]
        self.emin = 1 - self.emax
        self.qmin = self.emin - (self.p - 1)
        self.w = bits.WIDTH[fmt]
        self.dt = bits.FLOAT[fmt]
        self.half = (self.emax + 1) // 2 - 2          # largest exponent with 4 x^2 < largest for every mantissa

    def mk(self, sign, E, frac):
        """Float with leading exponent E (E < emin: subnormal, frac is then the whole field)."""
        p = self.p
        if E < self.emin:
            mag = frac % (1 << (p - 1))
        else:
            mag = ((min(E, self.emax) - self.emin + 1) << (p - 1)) | (frac % (1 << (p - 1)))
        return bits.from_bits_int(((sign & 1) << (self.w - 1)) | mag, self.fmt)

    def frac(self, m, rng):
        p = self.p
        if m == "one":
            return 0
        if m == "onep":
            return 1
        if m == "max":
            return (1 << (p - 1)) - 1
        if m == "maxm":
            return (1 << (p - 1)) - 2
        if m == "two":
            return 1 << rng.randrange(p - 1)
        if m == "few":
            return rng.getrandbits(3) << (p - 4)
        return rng.getrandbits(p - 1)

    def val(self, sign, E, m, rng):
        if E < self.emin:          # subnormal: the pattern fills the field below the leading bit
            k = max(0, min(self.p - 2, E - self.qmin))
            f = (1 << k) | (self.frac(m, rng) >> (self.p - 1 - k) if k else 0)
            return self.mk(sign, self.emin - 1, f)
        return self.mk(sign, E, self.frac(m, rng))

    def rnd(self, E, rng, lim=None, sign=None):
        lim = self.emax if lim is None else lim
        E = max(self.qmin, min(lim, E))
        return self.val(rng.getrandbits(1) if sign is None else sign, E, rng.choice(MANT), rng)

    def pow2(self, sign, E):
        E = max(self.qmin, min(self.emax, E))
        if E < self.emin:
            return self.mk(sign, self.emin - 1, 1 << (E - self.qmin))
        return self.mk(sign, E, 0)

    def expo(self, x):
        """Leading exponent of a finite non-zero float, else None."""
        x = float(x) if self.fmt != "float64" else x
        if not numpy.isfinite(x) or x == 0:
            return None
        return math.frexp(float(x))[1] - 1

    def step(self, x, k):
        """The float k lattice steps above x (saturating at the largest finite number)."""
        n = bits.fbits_int(x, self.fmt)
        sign, mag = n >> (self.w - 1), n & ((1 << (self.w - 1)) - 1)
        o = (-mag if sign else mag) + k
        top = ((2 * self.emax + 1) << (self.p - 1)) - 1
        o = max(-top, min(top, o))
        return bits.from_bits_int(((1 << (self.w - 1)) | -o) if o < 0 else o, self.fmt)

    def sign(self, x):
        return int(numpy.signbit(x))

    def ldexp(self, n, e):
        """n * 2^e for an integer n of at most p bits, exactly (or None when not representable)."""
        if n == 0:
            return self.dt(0)
        s, n = (1, -n) if n < 0 else (0, n)
        tz = (n & -n).bit_length() - 1
        n >>= tz
        e += tz
        bl = n.bit_length()
        E = e + bl - 1
        if bl > self.p or E > self.emax or e < self.qmin:
            return None
        if E < self.emin:
            return self.mk(s, self.emin - 1, n << (e - self.qmin))
        return self.mk(s, E, (n << (self.p - bl)) & ((1 << (self.p - 1)) - 1))


def _small_steps(rng):
    return rng.choice([0, 0, 1, -1, 2, -2, rng.randint(3, 9), -rng.randint(3, 9)])


def tie_triple(F, rng, Ep, lim, zlim):
    """x, y, z with x*y + z exactly half-way between two floats (unless the sum leaves z's binade).

    x = +-o1 * 2^a, y = +-o2 * 2^(t-a) with small odd o1, o2 (x*y = o * 2^t, o odd), z = +-m * 2^(t+1) with m of p
    bits: x*y + z = (m +- o/2) * 2^(t+1).  lim / zlim bound the exponents of x, y / of z."""
    p = F.p
    o1 = rng.getrandbits(max(1, p // 2 - 1)) | 1
    o2 = rng.getrandbits(max(1, p // 2 - 2)) | 1
    b1, b2 = o1.bit_length(), o2.bit_length()
    t = Ep - ((o1 * o2).bit_length() - 1)
    t = max(F.qmin - 1, min(t, zlim - p))
    a_lo, a_hi = max(F.qmin, t - lim + b2 - 1), min(lim - b1 + 1, t - F.qmin)
    if a_lo > a_hi:
        return None
    a = rng.randint(a_lo, a_hi)
    x = F.ldexp(o1 if rng.getrandbits(1) else -o1, a)
    y = F.ldexp(o2 if rng.getrandbits(1) else -o2, t - a)
    m = (1 << (p - 1)) | rng.getrandbits(p - 1)
    if rng.random() < 0.3:
        m = (1 << p) - 1 - rng.getrandbits(2)          # the tie may carry into the next binade
    z = F.ldexp(m if rng.getrandbits(1) else -m, t + 1)
    if x is None or y is None or z is None:
        return None
    return x, y, z


def conc_ps(F, sh, rng, op):
    """Concretise a product-sum shape for op in {"fma", "muladd"} -> (x, y, z)."""
    _, mx, my, pe, zr, zs = sh
    p, emax, emin, qmin = F.p, F.emax, F.emin, F.qmin
    lim = emax if op == "fma" else F.half
    zlim = emax if op == "fma" else emax - 1
    if pe == "sub":
        Ep = rng.randint(qmin - 1, emin - 1)
    elif pe == "lowerr":
        Ep = rng.randint(emin, emin + 2 * p - 1)
    elif pe == "mid":
        Ep = rng.randint(-p, p) if rng.getrandbits(1) else rng.randint(emin + 2 * p, emax - 4)
    elif pe == "hi":
        Ep = 2 * F.half - rng.choice([0, 0, 1]) if op == "muladd" else emax - rng.randint(1, 3)
    else:
        Ep = emax - rng.choice([0, 0, 0, 1]) if op == "fma" else 2 * F.half + 1
    if zr == "tie":
        t = tie_triple(F, rng, Ep, lim, zlim)
        if t is not None:
            return t
    lo, hi = max(emin, Ep - lim), min(lim, Ep - emin)
    if lo > hi:
        lo = hi = max(emin, min(lim, Ep // 2))
    u = rng.random()
    ex = lo if u < 0.12 else hi if u < 0.24 else rng.randint(lo, hi)
    ey = max(emin, min(lim, Ep - ex))
    eps_b = False
    if zr == "tieeps":
        # x = 1+u, y = 1+u or 2-u (u = 2^-(p-1)): x*y = 2^s (1 + 2u + u^2) or 2^(s+1) (1 + u/2 - u^2/2), s = ex + ey;
        # below, z = m * 2^(s+1) or m * 2^(s+2): the sum is a tie displaced by low bits far below the rounding point
        eps_b = bool(rng.getrandbits(1))
        x = F.mk(rng.getrandbits(1), ex, 1)
        y = F.mk(rng.getrandbits(1), ey, (1 << (p - 1)) - 1 if eps_b else 1)
    elif zr == "zmaxhalf" and op == "fma":
        # integers a, b of p bits with a*b just below 2^(2p-1): RN(x*y) is a power of two
        for _ in range(64):
            a = (1 << (p - 1)) | rng.getrandbits(p - 1)
            b, r = divmod(1 << (2 * p - 1), a)
            if 0 < r < (1 << (p - 2)) and (1 << (p - 1)) <= b < (1 << p):
                break
        else:
            a, b = (1 << p) - 1, 1 << (p - 1)
        s = emax - p - 1                              # E(x) + E(y): RN(x*y) = 2^(emax-p) = ulp(largest)/2
        ex = rng.randint(max(emin, s - emax), min(emax, s - emin))
        x = F.mk(rng.getrandbits(1), ex, a)
        y = F.mk(rng.getrandbits(1), s - ex, b)
    else:
        x = F.mk(rng.getrandbits(1), ex, F.frac(mx, rng))
        y = F.mk(rng.getrandbits(1), ey, F.frac(my, rng))
    with numpy.errstate(all="ignore"):
        pxy = x * y
    ps = F.sign(pxy)
    sz = ps if zs == "same" else 1 - ps
    Epx = F.expo(pxy)
    if Epx is None:
        Epx = max(qmin, min(emax, Ep))
    finite = bool(numpy.isfinite(pxy))
    if zr == "zero":
        z = F.dt(0)
    elif zr == "negzero":
        z = -F.dt(0)
    elif zr in ("cancel0", "cancel1", "cancelk") and finite:
        k = 0 if zr == "cancel0" else rng.choice([1, -1]) if zr == "cancel1" else rng.choice([1, -1]) * rng.randint(2, 9)
        z = F.step(-pxy, k)
    elif zr == "tieeps":
        m = (1 << (p - 1)) | rng.getrandbits(p - 1)
        z = F.ldexp(m if sz == 0 else -m, ex + ey + (2 if eps_b else 1))
        if z is None:
            z = F.rnd(Epx + p, rng, zlim, sz)
    elif zr == "zsub":
        z = F.mk(sz, emin - 1, rng.randint(1, (1 << (p - 1)) - 1))
    elif zr in ("zmax", "zmaxhalf"):
        if zr == "zmaxhalf" and op == "fma":
            z = F.mk(ps, emax, (1 << (p - 1)) - 1)
        else:
            z = F.mk(sz, zlim, F.frac(rng.choice(["max", "maxm", "maxm", "rand"]), rng))
    else:
        g = {"gapbig": rng.randint(p + 2, p + 6), "gapup": rng.randint(1, p + 1), "gap0": 0,
             "gapdown": -rng.randint(1, p - 1), "gaphalf": rng.choice([-p - 1, -p, -p, 1 - p, p, p + 1]),
             "gapfar": -rng.randint(2 * p, 3 * p)}.get(zr, rng.randint(-p, p))
        mz = rng.choice(["one", "one", "onep", "max"]) if zr == "gaphalf" else rng.choice(MANT)
        z = F.val(sz, max(qmin, min(zlim, Epx + g)), mz, rng)
    return x, y, z


def conc_sum(F, sh, rng):
    """Concretise a sum shape -> tuple of n floats."""
    _, n, pat, mag, m = sh
    p, emax, emin, qmin = F.p, F.emax, F.emin, F.qmin
    lim = emax - 2
    if mag == "sub":
        Ex = rng.randint(qmin, emin + 1)
    elif mag == "low":
        Ex = rng.randint(emin, emin + 2 * p)
    elif mag == "mid":
        Ex = rng.randint(-p, p) if rng.getrandbits(1) else rng.randint(emin + 2 * p, lim - 3)
    else:
        Ex = lim - rng.choice([0, 0, 1])
    s0 = rng.getrandbits(1)
    x = F.val(s0, Ex, m, rng)
    rnd = lambda E, sign=None: F.rnd(E, rng, lim, sign)  # noqa: E731
    tiny = lambda sign: F.rnd(Ex - 2 * p - rng.randint(1, p), rng, lim, sign)  # noqa: E731
    with numpy.errstate(all="ignore"):
        if pat == "rand":
            v = [x] + [rnd(Ex + rng.randint(-2 * p - 2, p + 2)) for _ in range(n - 1)]
        elif pat == "cancel2":
            y = F.step(-x, _small_steps(rng))
            e2 = F.expo(x + y)
            rest = [rnd((e2 if e2 is not None else Ex - rng.randint(0, 2 * p)) + rng.randint(-p - 2, 2)) for _ in range(n - 2)]
            v = [x, y] + rest
        elif pat == "cancel3":
            y = rnd(Ex + rng.randint(-3, 3))
            z = F.step(-(x + y), _small_steps(rng)) if numpy.isfinite(x + y) else rnd(Ex)
            v = [x, y, z]
            if n == 4:
                e3 = F.expo((x + y) + z)
                v.append(rnd((e3 if e3 is not None else Ex - 2 * p) + rng.randint(-p, 2)))
        elif pat == "cancelall":
            y, z = rnd(Ex + rng.randint(-3, 3)), rnd(Ex + rng.randint(-p, 3))
            t = (x + y) + z
            v = [x, y, z, F.step(-t, _small_steps(rng)) if numpy.isfinite(t) else rnd(Ex)]
        elif pat == "cancelpairs":
            b = rnd(Ex - rng.randint(p - 2, p + 2))
            v = [x, b, F.step(-x, rng.choice([0, 0, 1, -1])), F.step(-b, rng.choice([0, 1, -1, 2, -2]))]
        elif pat == "ladder":
            v, E = [x], Ex
            for _ in range(n - 1):
                E -= p + rng.randint(0, 2)
                v.append(rnd(E))
        elif pat == "ladderhalf":
            v = [x] + [F.pow2(rng.getrandbits(1), Ex - k * p) for k in range(1, n)]
        elif pat == "tie":
            v = [x, F.pow2(rng.getrandbits(1), Ex - p)]
            for _ in range(n - 2):
                v.append(F.pow2(rng.getrandbits(1), Ex - p + 1 + rng.randint(0, 3)) if rng.random() < 0.8 else F.dt(0))
        elif pat in ("tieup", "tiedown"):
            sy = rng.getrandbits(1)
            v = [x, F.pow2(sy, Ex - p)]
            if n == 4:
                v.append(F.pow2(rng.getrandbits(1), Ex - p + 1 + rng.randint(0, 3)) if rng.getrandbits(1) else F.dt(0))
            v.append(tiny(sy if pat == "tieup" else 1 - sy))
        elif pat == "pow2edge":
            x = F.pow2(s0, Ex)
            v = [x, F.val(1 - s0, Ex - p - rng.randint(0, 2), rng.choice(MANT), rng)] + [tiny(None) for _ in range(n - 2)]
        elif pat == "equal":
            v = [x, x] + [rng.choice([x, -x, -(x + x) if numpy.isfinite(x + x) else x]) for _ in range(n - 2)]
        elif pat == "zeros":
            v = [x] + [rnd(Ex + rng.randint(-p, p)) for _ in range(n - 1)]
            for k in rng.sample(range(n), rng.randint(1, n - 1)):
                v[k] = -F.dt(0) if rng.getrandbits(1) else F.dt(0)
        else:  # overlap
            v, E = [x], Ex
            for _ in range(n - 1):
                E -= p // 2 + rng.randint(-1, 1)
                v.append(rnd(E))
    if rng.random() < 0.7:
        rng.shuffle(v)
    return tuple(v)


def conc_dot(F, sh, rng):
    """Concretise a dot shape -> (x, y, z, w)."""
    _, mx, my, pe, rel = sh
    p, emin, qmin, lim = F.p, F.emin, F.qmin, F.half

    def erange(target):
        """exponents e with emin <= e <= lim and emin <= target - e <= lim (or None)"""
        lo, hi = max(emin, target - lim), min(lim, target - emin)
        return (lo, hi) if lo <= hi else None

    if rel == "tie":
        # z a power of two, so that z*w is exact: (x, y, z*w) is a tie triple
        t = tie_triple(F, rng, {"sub": emin - 3, "lowerr": emin + p, "mid": 0, "hi": 2 * lim - p}[pe], lim, 2 * lim - 1)
        ez = F.expo(t[2]) if t is not None else None
        er = erange(ez) if ez is not None else None
        if er is not None:
            k = rng.randint(*er)
            with numpy.errstate(all="ignore"):
                w = t[2] * F.pow2(0, -k)
            return t[0], t[1], F.pow2(0, k), w
    x, y, _ = conc_ps(F, ("ps", mx, my, pe, "zero", "same"), rng, "muladd")
    with numpy.errstate(all="ignore"):
        pxy = x * y
        Epx = F.expo(pxy)
        if Epx is None:
            Epx = rng.randint(2 * emin, 2 * lim)

        def pair(target):
            er = erange(target)
            ez = rng.randint(*er) if er is not None else max(emin, min(lim, target // 2))
            return (F.val(rng.getrandbits(1), ez, rng.choice(MANT), rng),
                    F.val(rng.getrandbits(1), max(emin - 2, min(lim, target - ez)), rng.choice(MANT), rng))

        if rel == "cancel" and numpy.isfinite(pxy) and pxy != 0:
            er = erange(Epx) or (emin, lim)
            z = F.val(rng.getrandbits(1), rng.randint(*er), rng.choice(MANT), rng)
            w = F.dt(-pxy / z)
            w = F.step(w, _small_steps(rng)) if numpy.isfinite(w) else F.dt(1)
        elif rel == "cancelexact":
            z, w = -x, F.step(y, rng.choice([0, 0, 1, -1, 2, -2]))
        elif rel == "tiny":
            z, w = pair(qmin - rng.randint(0, 3))
        elif rel in ("gapup", "gapdown", "gaphalf", "gapfar"):
            g = {"gapup": rng.randint(1, p + 1), "gapdown": -rng.randint(1, p - 1),
                 "gaphalf": rng.choice([-p - 1, -p, 1 - p, p, p + 1]), "gapfar": -rng.randint(2 * p, 3 * p)}[rel]
            z, w = pair(Epx + g)
        else:
            z, w = F.rnd(rng.randint(emin, lim), rng, lim), F.rnd(rng.randint(emin, lim), rng, lim)
    if rng.getrandbits(1):
        x, y, z, w = z, w, x, y
    return x, y, z, w


def conc_una(F, sh, rng):
    _, m, reg = sh
    p, emax, emin = F.p, F.emax, F.emin
    s = rng.getrandbits(1)
    if reg == "sublo":
        return F.mk(s, emin - 1, rng.randint(1, 8))
    if reg == "submid":
        return F.mk(s, emin - 1, rng.randint(1, (1 << (p - 1)) - 1))
    if reg == "subhi":
        return F.mk(s, emin - 1, (1 << (p - 1)) - rng.randint(1, 8))
    E = {"minnormal": emin, "low": rng.randint(emin + 1, emin + p), "mid": rng.randint(-p, p),
         "winedge": emax + 2 - p - rng.choice([0, 1, 1, 2]), "high": rng.randint(emax - p, emax - 1), "max": emax}[reg]
    return F.mk(s, E, F.frac(m, rng))


# --------------------------------------------------------------------------- the code under test
class Code:
    def __init__(self):
        self.fa = import_repo()
        from functional_algorithms import floating_point_algorithms as fpa, apmath, apmath_algorithms, utils
        self.fpa, self.apmath, self.algo, self.utils = fpa, apmath, apmath_algorithms, utils
        self.ctx = {f: utils.NumpyContext(bits.FLOAT[f]) for f in FMTS}
        self.par = {}
        for f in FMTS:
            dt, p = bits.FLOAT[f], bits.PREC[f]
            self.par[f] = dict(Q=dt(1 << (p - 1)), P=dt((1 << (p - 1)) + 1), C=dt((1 << ((p + 1) // 2)) + 1), T=dt(1.5))
        self._fma = {}

    def scalar(self, kind, fmt, args):
        """One scalar call through NumpyContext, as the repository's tests do -> (results tuple, raised)."""
        fpa, ctx, k = self.fpa, self.ctx[fmt], self.par[fmt]
        try:
            with warnings.catch_warnings(), numpy.errstate(all="ignore"):
                warnings.simplefilter("ignore")
                if kind == "sum3":
                    r = fpa.add_3sum(ctx, *args, k["Q"], k["P"], k["T"])
                elif kind == "sum4":
                    r = (fpa.add_4sum(ctx, *args, k["Q"], k["P"], k["T"]),)
                elif kind == "muladd":
                    r = (fpa.mul_add(ctx, *args, k["C"], k["Q"], k["P"], k["T"]),)
                elif kind == "dot2":
                    r = (fpa.dot2(ctx, *args, k["C"], k["Q"], k["P"], k["T"]),)
                else:
                    raise tlc.MachineryError("unknown kind " + kind)
            return tuple(r), ""
        except tlc.MachineryError:
            raise
        except Exception as ex:  # noqa: any exception of the code is a recorded outcome
            return (), type(ex).__name__

    def pow2_calls(self, fmt, x):
        """The four call styles of is_power_of_two -> list of (style, invert, result, raised)."""
        fpa, ctx, k = self.fpa, self.ctx[fmt], self.par[fmt]
        out = []
        for style, inv in (("default", False), ("default_inv", True), ("QP", False), ("QP_inv", True)):
            try:
                with warnings.catch_warnings(), numpy.errstate(all="ignore"):
                    warnings.simplefilter("ignore")
                    if style.startswith("QP"):
                        r = fpa.is_power_of_two(ctx, x, k["Q"], k["P"], invert=inv)
                    else:
                        r = fpa.is_power_of_two(ctx, x, invert=inv)
                out.append((style, inv, bool(r), ""))
            except Exception as ex:  # noqa
                out.append((style, inv, False, type(ex).__name__))
        return out

    def pow2_helper(self, fmt, xs):
        """is_power_of_two with the constants of the repository's own helper get_is_power_of_two_constants
        (the way traced algorithms obtain Q, P - see tests/test_profile.py), traced to a NumPy function
        -> (list of bool or None, raised)."""
        key = ("pow2helper", fmt)
        try:
            with warnings.catch_warnings(), numpy.errstate(all="ignore"):
                warnings.simplefilter("ignore")
                if key not in self._fma:
                    fa, fpa, dt = self.fa, self.fpa, bits.FLOAT[fmt]

                    def ispow2_helper(ctx, x):
                        Q, P = fpa.get_is_power_of_two_constants(ctx, fpa.get_largest(ctx, x))
                        return fpa.is_power_of_two(ctx, x, Q, P)

                    graph = fa.Context().trace(ispow2_helper, dt)
                    graph = graph.rewrite(fa.targets.numpy, fa.rewrite, fa.rewrite)
                    self._fma[key] = fa.targets.numpy.as_function(graph, debug=0, force_cast_arguments=False)
                r = numpy.asarray(self._fma[key](xs))
            if r.shape != xs.shape or r.dtype != numpy.bool_:
                return None, "ResultType:%s%s" % (r.dtype, r.shape)
            return [bool(b) for b in r], ""
        except Exception as ex:  # noqa
            return None, type(ex).__name__

    def next_array(self, fmt, xs, up):
        with warnings.catch_warnings(), numpy.errstate(all="ignore"):
            warnings.simplefilter("ignore")
            r = self.fpa.next(self.ctx[fmt], xs, up=up)
        if not (isinstance(r, numpy.ndarray) and r.shape == xs.shape and r.dtype == xs.dtype):
            raise tlc.MachineryError("next(%s array) returned %r" % (fmt, type(r)))
        return r

    def next_scalar(self, fmt, x, up):
        try:
            with warnings.catch_warnings(), numpy.errstate(all="ignore"):
                warnings.simplefilter("ignore")
                fn = self.fpa.nextup if up else self.fpa.nextdown
                return fn(self.ctx[fmt], x), ""
        except Exception as ex:  # noqa
            return None, type(ex).__name__

    def fma_func(self, fmt, copy, alg, fo, pz):
        """The variant traced into a NumPy function (how the repository itself evaluates these)."""
        key = (fmt, copy, alg, fo, pz)
        if key not in self._fma:
            fa, dt = self.fa, bits.FLOAT[fmt]
            with warnings.catch_warnings():
                warnings.simplefilter("ignore")
                ctx = fa.Context(paths=[self.algo])
                if copy == "algo":
                    graph = ctx.trace(self.algo.fma, dt, dt, dt, algorithm=alg, fix_overflow=fo, possibly_zero_z=pz)
                else:
                    graph = ctx.trace(self.apmath.fma, dt, dt, dt, functional=True, size=None, possibly_zero_z=pz, scale=True,
                                      fix_overflow=fo, algorithm=alg, assume_fma=False)
                graph = graph.rewrite(fa.targets.numpy, fa.rewrite, fa.rewrite)
                self._fma[key] = fa.targets.numpy.as_function(graph, debug=0, force_cast_arguments=False)
        return self._fma[key]

    def fma_all(self, fmt, xs, ys, zs):
        """Every variant on the arrays -> list of (name, fo, results array or None, raised)."""
        out = []
        for copy in COPIES:
            for alg in ALGS:
                for fo in (True, False):
                    for pz in (True, False):
                        name = "%s.%s.fo%d.pz%d" % (copy, alg, fo, pz)
                        try:
                            f = self.fma_func(fmt, copy, alg, fo, pz)
                            with warnings.catch_warnings(), numpy.errstate(all="ignore"):
                                warnings.simplefilter("ignore")
                                r = f(xs, ys, zs)
                            r = numpy.asarray(r)
                            if r.shape != xs.shape or r.dtype != xs.dtype:
                                out.append((name, fo, None, "ResultType:%s%s" % (r.dtype, r.shape)))
                            else:
                                out.append((name, fo, r, ""))
                        except Exception as ex:  # noqa
                            out.append((name, fo, None, type(ex).__name__))
        return out


_CODE = None


def code():
    global _CODE
    if _CODE is None:
        _CODE = Code()
    return _CODE


# --------------------------------------------------------------------------- events
def fb(x, fmt):
    return bits.fbits(x, fmt)


def scalar_event(kind, fmt, args, cls):
    res, raised = code().scalar(kind, fmt, args)
    ev = dict(kind=kind, fmt=fmt, raised=raised, cls=cls)
    for name, a in zip("xyzw", args):
        ev[name] = fb(a, fmt)
    dt = bits.FLOAT[fmt]
    if not raised and not all(type(r) is dt for r in res):
        ev["raised"] = raised = "ResultType:" + ",".join(type(r).__name__ for r in res)
    if kind == "sum3":
        for name, r in zip("set", res if not raised else (dt(0),) * 3):
            ev[name] = fb(r, fmt)
    else:
        ev["r"] = fb(res[0], fmt) if not raised else []
    return ev


def chunk_worker(task):
    """Forked worker: concretise shapes and run the scalar operations -> events without ids."""
    kind, fmt, shapes, seed, reps, cls_every = task
    rng = random.Random(seed)
    F = Fm(fmt)
    out = []
    n = 0
    for sh in shapes:
        for _ in range(reps * (6 if sh[0] == "sum" and sh[2] == "cancelpairs" else 1)):
            if kind == "muladd":
                args = conc_ps(F, sh, rng, "muladd")
            elif kind in ("sum3", "sum4"):
                args = conc_sum(F, sh, rng)
            else:
                args = conc_dot(F, sh, rng)
            ev = scalar_event(kind, fmt, args, n % cls_every == 0)
            ev["shape"] = "/".join(str(t) for t in sh)
            out.append(ev)
            n += 1
    return out


def fma_events(fmt, triples, shapes, cls_every):
    F = Fm(fmt)
    xs = numpy.array([t[0] for t in triples], dtype=F.dt)
    ys = numpy.array([t[1] for t in triples], dtype=F.dt)
    zs = numpy.array([t[2] for t in triples], dtype=F.dt)
    res = code().fma_all(fmt, xs, ys, zs)
    bx, by, bz = bits.arr_bits(xs), bits.arr_bits(ys), bits.arr_bits(zs)
    rb = [(name, fo, bits.arr_bits(r) if r is not None else None, raised) for name, fo, r, raised in res]
    out = []
    for k in range(len(triples)):
        rs = [dict(v=name, fo=fo, r=r[k] if r is not None else [], raised=raised) for name, fo, r, raised in rb]
        out.append(dict(kind="fma", fmt=fmt, x=bx[k], y=by[k], z=bz[k], rs=rs, cls=k % cls_every == 0, shape=shapes[k]))
    return out


def next_events(fmt, xs, cls_every, scalar_every):
    c = code()
    up, dn = c.next_array(fmt, xs, True), c.next_array(fmt, xs, False)
    bx, bu, bd = bits.arr_bits(xs), bits.arr_bits(up), bits.arr_bits(dn)
    out = []
    for k in range(len(xs)):
        rs = [dict(v="up", up=True, r=bu[k], raised=""), dict(v="down", up=False, r=bd[k], raised="")]
        if k % scalar_every == 0:      # also the scalar entry points nextup / nextdown
            for name, u in (("nextup", True), ("nextdown", False)):
                r, raised = c.next_scalar(fmt, xs[k], u)
                ok = not raised and type(r) is bits.FLOAT[fmt]
                rs.append(dict(v=name, up=u, r=fb(r, fmt) if ok else [], raised=raised if raised or ok else "ResultType:" + type(r).__name__))
        out.append(dict(kind="next", fmt=fmt, x=bx[k], rs=rs, cls=k % cls_every == 0))
    return out


def pow2_events(fmt, xs, cls_every):
    c = code()
    bx = bits.arr_bits(xs)
    hb, hraised = c.pow2_helper(fmt, xs)
    out = []
    for k in range(len(xs)):
        rs = [dict(v=style, inv=inv, b=b, raised=raised) for style, inv, b, raised in c.pow2_calls(fmt, xs[k])]
        rs.append(dict(v="helper", inv=False, b=hb[k] if hb is not None else False, raised=hraised))
        out.append(dict(kind="pow2", fmt=fmt, x=bx[k], rs=rs, cls=k % cls_every == 0))
    return out


def ncalls(ev):
    return len(ev["rs"]) if "rs" in ev else 1


# --------------------------------------------------------------------------- verdicts
def key_of(ev, clause):
    """Class of failing behaviour: operation, format, clause (+ call style / variant)."""
    c, _, tag = clause.partition(":")
    if ev["kind"] == "fma":
        parts = tag.split(".")          # copy.alg.foN.pzN
        alg, fo = (parts[1], parts[2]) if len(parts) == 4 else ("?", "?")
        return "fma:%s:%s:%s" % (alg, fo, c)
    if tag:
        return "%s:%s:%s:%s" % (ev["kind"], ev["fmt"], tag, c)
    return "%s:%s:%s" % (ev["kind"], ev["fmt"], c)


def describe(ev, clause):
    fmt = ev["fmt"]
    ops = ", ".join("%s=%s" % (n, float(bits.from_bits(ev[n], fmt)).hex()) for n in "xyzw" if n in ev)
    c, _, tag = clause.partition(":")
    got = ""
    if "rs" in ev:
        for r in ev["rs"]:
            if r["v"] == tag:
                got = r["raised"] or (str(r["b"]) if "b" in r else float(bits.from_bits(r["r"], fmt)).hex())
    elif ev.get("raised"):
        got = ev["raised"]
    elif ev["kind"] == "sum3":
        got = "(%s)" % ", ".join(float(bits.from_bits(ev[n], fmt)).hex() for n in "set")
    else:
        got = float(bits.from_bits(ev["r"], fmt)).hex()
    return "%s[%s] %s(%s) -> %s violates %s" % (ev["kind"], tag or "-", fmt, ops, got, c)


class Stats:
    def __init__(self):
        self.notes = {}
        self.by_kind = {}
        self.calls = {}
        self.nontrivial = set()

    def count(self, ev):
        k = ev["kind"] + ":" + ev["fmt"]
        self.by_kind[k] = self.by_kind.get(k, 0) + 1
        self.calls[ev["kind"]] = self.calls.get(ev["kind"], 0) + ncalls(ev)
        self.nontrivial.add(hash((ev["kind"], ev["fmt"]) + tuple(tuple(ev[n]) for n in "xyzw" if n in ev)))

    def note(self, ev, labels):
        d = self.notes.setdefault(ev["kind"], {})
        for lab in labels:
            d[lab] = d.get(lab, 0) + 1


def validate(chk, events, stats):
    if not events:
        return
    res = tlc.validate_events(TRACE, CFG, events, name="compound")
    chk.add_trace(TRACE, res, sum(ncalls(e) for e in events))
    byid = {e["id"]: e for e in events}
    for eid, text in res["notes"]:
        stats.note(byid[eid], tlaval.parse(text)["__set__"])
    for eid, clauses in res["fails"]:
        ev = byid[eid]
        for c in clauses:
            chk.fail(key_of(ev, c), describe(ev, c), dict(event=ev, clause=c))


# --------------------------------------------------------------------------- U1
def expected_states(np_, s3, sf, s4, ops):
    n = 0
    for o in ops:
        if o in ("next", "pow2"):
            n += np_
        elif o in ("sum3", "muladd"):
            n += (np_ ** 3 - 1) // s3 + 1
        elif o == "fma":
            n += (np_ ** 3 - 1) // sf + 1
        else:
            n += (np_ ** 4 - 1) // s4 + 1
    return 2 * n


U1_RUNS = {
    # name: (table cfg or None, main cfg, domain cfg, NP, Stride3, StrideF, Stride4)
    "quick": [("unary", None, "MC_Compound_unary.cfg", "MC_Compound_unary_dom.cfg", 1024, 1, 1, 1, ("next", "pow2")),
              ("T3", "MC_CompoundTab_T3.cfg", "MC_Compound_quick.cfg", "MC_Compound_dom_quick.cfg", 64, 61, 251, 4093,
               ("sum3", "muladd", "fma", "sum4", "dot2"))],
    "thorough": [("unary", None, "MC_Compound_unary.cfg", "MC_Compound_unary_dom.cfg", 1024, 1, 1, 1, ("next", "pow2")),
                 ("T3", "MC_CompoundTab_T3.cfg", "MC_Compound.cfg", "MC_Compound_dom.cfg", 64, 1, 3, 251,
                  ("sum3", "muladd", "fma", "sum4", "dot2")),
                 ("T4", "MC_CompoundTab_T4.cfg", "MC_Compound_T4.cfg", "MC_Compound_dom_T4.cfg", 128, 31, 127, 65521,
                  ("sum3", "muladd", "fma", "sum4", "dot2"))],
}


def run_u1(tier):
    """All U1 model-checking runs of the tier -> list of (name, TLCResult, kind, expected states)."""
    out = []
    nw = 6 if tier == "quick" else 8
    for name, tabcfg, cfg, domcfg, np_, s3, sf, s4, ops in U1_RUNS[tier]:
        env = {}
        if tabcfg:
            d = os.path.join(tlc.workdir(), "c11tab_" + name)
            os.makedirs(d, exist_ok=True)
            env = {"C11_TAB_DIR": d}
            r = tlc.run("MC_CompoundTab", tabcfg, workers=4, env=env, timeout=1800, tag="tab" + name)
            out.append(("MC_CompoundTab/" + tabcfg, r, "tab", 3 * np_ + 1))
            if not r.ok:
                return out
        exp = expected_states(np_, s3, sf, s4, ops)
        r = tlc.run("MC_Compound", cfg, workers=nw if tabcfg else 2, env=env, timeout=3000, tag="mc" + name)
        out.append(("MC_Compound/" + cfg, r, "main", exp))
        r = tlc.run("MC_Compound", domcfg, workers=2, env=env, timeout=3000, extra=["-coverage", "1"], tag="dom" + name)
        out.append(("MC_Compound/" + domcfg, r, "dom:" + ",".join(ops), exp // 2 * 3))
    return out


def join_u1(chk, fut):
    known = {}
    cov_all = {}
    for name, r, kind, exp in fut.result():
        chk.add_mc(name, r)
        if not r.ok:
            raise tlc.MachineryError("%s did not complete:\n%s" % (name, r.out[-2500:]))
        if r.distinct != exp:
            raise tlc.MachineryError("%s explored %d states, expected %d" % (name, r.distinct, exp))
        if kind == "main":
            bad = tlaval.printed_values(r.out, "U1FAIL")
            if bad:
                raise tlc.MachineryError("%s: the transcribed design violates the clauses on the toy format "
                                         "(%d tuples), e.g. %r" % (name, len(bad), bad[0]))
            for v in tlaval.printed_values(r.out, "K"):
                for c in v[2]["__set__"]:
                    k = "%s:%s" % (c[0], c[1][2])
                    known[name + ":" + k] = known.get(name + ":" + k, 0) + 1
        elif kind.startswith("dom:"):
            cov = r.coverage()
            for o in kind[4:].split(","):
                i, u = cov.get("In_" + o, (0, 0))[1], cov.get("Out_" + o, (0, 0))[1]
                if i == 0 or u == 0:
                    raise tlc.MachineryError("%s: domain guard of %s is vacuous or trivial (in=%d out=%d)" % (name, o, i, u))
                cov_all["%s:%s" % (name, o)] = dict(in_domain=i, out_of_domain=u)
    chk.cov["u1"] = dict(domain_coverage=cov_all, known_region_tuples=known)


# --------------------------------------------------------------------------- U2 + U3
def export_shapes(chk):
    r = tlc.run("CompoundShapes", "CompoundShapes.cfg", workers=1, timeout=600)
    if not r.ok:
        raise tlc.MachineryError("shape export failed:\n" + r.out[-2000:])
    chk.add_mc("CompoundShapes", r)
    sh = sorted((tuple(v[1]) for v in tlaval.printed_values(r.out, "S")), key=lambda t: json.dumps(t))
    by = {}
    for t in sh:
        by.setdefault(t[0], []).append(t)
    if len(by.get("ps", ())) < 3000 or len(by.get("sum", ())) < 600 or len(by.get("dot", ())) < 800 or len(by.get("una", ())) < 60:
        raise tlc.MachineryError("shape export too small: %r" % {k: len(v) for k, v in by.items()})
    return by


def all_float16():
    a = numpy.arange(0, 1 << 16, dtype=numpy.uint16).view(numpy.float16)
    return a[numpy.isfinite(a)]


def run(tier, seed):
    import concurrent.futures as cf
    import multiprocessing
    quick = tier == "quick"
    chk = Check(PID, tier, seed)
    c = code()
    # forked workers for the scalar calls (before any thread exists)
    nproc = 6 if quick else 12
    pool = multiprocessing.get_context("fork").Pool(nproc)
    tpool = cf.ThreadPoolExecutor(max_workers=1)
    u1 = tpool.submit(run_u1, tier)
    try:
        rc = _run(chk, c, pool, u1, quick, seed)
    finally:
        pool.terminate()
        tpool.shutdown(wait=False, cancel_futures=True)
    return rc


def _run(chk, c, pool, u1, quick, seed):
    import time
    rng = random.Random(seed)
    phases = {}
    t_last = [time.time()]

    def phase(name):
        now = time.time()
        phases[name] = round(phases.get(name, 0) + now - t_last[0], 1)
        t_last[0] = now

    shapes = export_shapes(chk)
    phase("shape_export")
    stats = Stats()
    events = []
    eid = [0]
    batch = 120000

    def push(evs):
        for ev in evs:
            ev["id"] = eid[0]
            eid[0] += 1
            stats.count(ev)
            events.append(ev)
            if ev["id"] % 4001 == 0:
                chk.sample({k: v for k, v in ev.items() if k != "rs"} | ({"rs": ev["rs"][:2]} if "rs" in ev else {}))

    def flush(force=False):
        nonlocal events
        if events and (force or len(events) >= batch):
            phase("drive")
            validate(chk, events, stats)
            phase("validate")
            events = []

    reps = dict(muladd=1, sum3=8, sum4=8, dot2=3, fma=1, una=40) if quick else dict(muladd=40, sum3=400, sum4=350, dot2=120, fma=16, una=400)
    cls_every = 4 if quick else 16
    # ---- scalar operations: forked workers concretise and call, in chunks
    tasks = []
    for fmt in FMTS:
        for kind, fam, sel in (("muladd", "ps", None), ("sum3", "sum", 3), ("sum4", "sum", 4), ("dot2", "dot", None)):
            shs = [t for t in shapes[fam] if sel is None or t[1] == sel]
            if kind == "muladd":
                shs = [t for t in shs if t[3] != "top" or t[4] in ("zmax", "zero", "cancel0", "gapup")]
            per = max(1, 3000 // reps[kind])
            for i in range(0, len(shs), per):
                tasks.append((kind, fmt, shs[i:i + per], rng.getrandbits(48), reps[kind], cls_every))
    group = 40                                   # tasks per wave (each task is about 3000 calls)
    waves = [tasks[i:i + group] for i in range(0, len(tasks), group)]
    pending = pool.map_async(chunk_worker, waves[0], chunksize=1) if waves else None
    # ---- unary operations: every float16 value; shapes in float32 / float64
    f16 = all_float16()
    push(next_events("float16", f16, 8 if quick else 1, 64))
    push(pow2_events("float16", f16, 8 if quick else 1))
    for fmt in ("float32", "float64"):
        F = Fm(fmt)
        xs = numpy.array([conc_una(F, sh, rng) for sh in shapes["una"] for _ in range(reps["una"])], dtype=F.dt)
        push(next_events(fmt, xs, 4, 16))
        push(pow2_events(fmt, xs, 1))        # float32: every event classified (note pow2_below_doc_window)
    flush()
    # ---- fused multiply-add: every variant on every concretised product-sum shape (vectorised)
    for fmt in FMTS:
        F = Fm(fmt)
        for rep in range(reps["fma"]):
            triples = [conc_ps(F, sh, rng, "fma") for sh in shapes["ps"]]
            push(fma_events(fmt, triples, ["/".join(sh) for sh in shapes["ps"]], cls_every))
            flush()
    for wi in range(len(waves)):
        got = pending.get(timeout=3000)
        pending = pool.map_async(chunk_worker, waves[wi + 1], chunksize=1) if wi + 1 < len(waves) else None
        for evs in got:
            push(evs)
        flush()
    flush(force=True)
    phase("drive")
    join_u1(chk, u1)
    phase("wait_for_u1")
    chk.cov["phase_wall_s"] = phases
    # ---- evidence
    for kind, d in sorted(stats.notes.items()):
        if d.get("pow2_below_doc_window"):
            chk.note("is_power_of_two answers wrongly on %d float32 values in [2^-149, 2^-129), below the documented window" % d["pow2_below_doc_window"])
    need = {"fma": ["tie", "cancel", "subres", "neartie", "prodtop", "restop", "d0", "d1"], "sum3": ["tie", "cancel", "subres", "d0"],
            "sum4": ["tie", "cancel", "subres", "d0"], "muladd": ["tie", "cancel", "subres", "d0"], "dot2": ["cancel", "subres", "d0"],
            "pow2": ["ispow2", "in", "out"], "next": ["in", "out"]}
    for kind, labs in need.items():
        for lab in labs:
            if not stats.notes.get(kind, {}).get(lab):
                raise tlc.MachineryError("coverage claim not met: no %s event classified %r by the specification (%r)"
                                         % (kind, lab, stats.notes.get(kind)))
    chk.assumptions += [
        "L1: |v| < sqrt(largest)/2 is decided exactly as 4 v^2 < largest",
        "L2: is_power_of_two is judged on the docstring's window (float32: from 2^-129, not the test's 2^-149)",
        "L3: fma variants with fix_overflow=False are not judged when the result is not finite and |x*y|, |z| or |x*y+z| "
        "is within the two top binades (documented: 'overflow occured in fma arithmetics (the return value is nan)')",
        "L4: the sign of a zero result is free",
        "next is judged for both signs of x (the docstring says 'positive', the statement and the test say every normal x)",
        "fma variants are evaluated as the repository evaluates them (traced, rewritten, NumPy target) with assume_fma=False, "
        "scale=True; the other operations through utils.NumpyContext scalar calls with the constants the tests pass",
        "s + (e + t) of add_3sum is formed by the specification (FAdd) from the recorded s, e, t",
        "is_power_of_two call styles: default constants, explicit Q/P as in the tests, each with and without invert, and "
        "'helper' = Q, P from get_is_power_of_two_constants evaluated through a traced NumPy function",
    ]
    return chk.finish(
        rule="every float16 value through next (both directions) and is_power_of_two (5 call styles); every TLC operand shape "
             "concretised per format %s times (fma: all 32 variants on each triple); non-trivial = distinct (operation, format, "
             "operand tuple)" % reps,
        distinct_nontrivial=len(stats.nontrivial),
        extra_cov=dict(events_by_kind_format=stats.by_kind, calls_by_kind=stats.calls, spec_classification=stats.notes,
                       shapes={k: len(v) for k, v in shapes.items()}))


# --------------------------------------------------------------------------- replay
def reexecute(ev):
    """Run the recorded call(s) again on the real code -> fresh event."""
    fmt, kind = ev["fmt"], ev["kind"]
    args = [bits.from_bits(ev[n], fmt) for n in "xyzw" if n in ev]
    if kind == "fma":
        new = fma_events(fmt, [tuple(args)], [ev.get("shape", "")], 1)[0]
    elif kind == "next":
        new = next_events(fmt, numpy.array(args, dtype=bits.FLOAT[fmt]), 1, 1)[0]
    elif kind == "pow2":
        new = pow2_events(fmt, numpy.array(args, dtype=bits.FLOAT[fmt]), 1)[0]
    else:
        new = scalar_event(kind, fmt, tuple(args), True)
    new["id"] = ev.get("id", 0)
    new["cls"] = True
    return new


def replay(path):
    with open(path) as f:
        rp = json.load(f)["replay"]
    ev = reexecute(rp["event"])
    print(json.dumps(ev))
    res = tlc.validate_events(TRACE, CFG, [ev], nproc=1)
    bad = 0
    for eid, clauses in res["fails"]:
        for c in clauses:
            bad += 1
            print("VIOLATION property=%s replay=%s  # %s: %s" % (PID, path, key_of(ev, c), describe(ev, c)))
    for eid, text in res["notes"]:
        print("note: %s" % text)
    return 1 if bad else 0
