"""C19 - sample generators cover exactly the requested range, ULP-uniformly.

U1: TLC model-checks a TLA+ transcription of the integer-view stepping (Samples.tla: Gen) on a toy
    format against the very clauses used on the real code (MC_Samples), for every bounds pair,
    flag combination and a set of sizes; deliberately broken generators (mutants) must be
    rejected, which shows the clauses are not vacuous.  Never a source of alarms.
U2: TLC enumerates every argument shape (SampleShapes.tla: bounds shape x flags x size class x
    dtype); this driver concretises each (bit patterns from the seed) and runs the real code.
U3: each call becomes an event (arguments and returned array as raw bit patterns, in chunks of
    <= 2000 elements with one element overlap for large arrays); Trace_Samples.tla judges every
    clause.  Chunk summaries are computed and printed by the spec itself and only transported
    by this driver into the call's summary event.  Products (complex/pair/triple/complex-pair)
    are logged with their 1-D arrays, shapes and cells.
The driver takes no decision about correctness; it only labels failures with what the spec printed:
key = "real_samples:<path tag>:<clause>" (clause "error" becomes "error=<exception type>") or
"<product kind>:<dtype>:<clause>".  Path tags: default, same_sign, straddle,
straddle_subnormal_bound, signed_zero_bound (Samples!PathTag).
"""
import concurrent.futures as cf
import json
import os
import random
import time
import warnings

import numpy

from .. import tlc, tlaval, bits
from ..common import Check, import_repo

PID = "C19"
CH = 2000          # chunk length of the logged arrays
FLAGS = ("inf", "zero", "sub", "nan", "huge", "nonneg", "unique")
KW = dict(inf="include_infinity", zero="include_zero", sub="include_subnormal", nan="include_nan",
          huge="include_huge", nonneg="nonnegative", unique="unique")
DTYPES = ("float16", "float32", "float64")


# ---------------------------------------------------------------------------------------------
# lattice helpers used only to *construct inputs* (never to judge outputs)
def mn_mag(dt):
    return 1 << (bits.PREC[dt] - 1)


def inf_mag(dt):
    return ((1 << (bits.WIDTH[dt] - bits.PREC[dt])) - 1) << (bits.PREC[dt] - 1)


def pat(dt, neg, mag):
    return (int(neg) << (bits.WIDTH[dt] - 1)) | mag


def rand_normal(rng, dt, lo=None, hi=None):
    lo = mn_mag(dt) + 1 if lo is None else lo
    hi = inf_mag(dt) - 2 if hi is None else hi
    # log-uniform over exponents, uniform over fractions
    return rng.randint(lo, hi)


# ---------------------------------------------------------------------------------------------
def concretise(shape, rng, tier):
    """TLC shape -> concrete argument dict (bit patterns as Python ints or None)."""
    _, b, sz, dt = shape[:4]
    fl = dict(zip(FLAGS, shape[4:]))
    mn, big = mn_mag(dt), inf_mag(dt) - 1
    mp = 1 if fl["sub"] else mn
    narrow = sz == "all"
    span = rng.randint(3, 1500)
    lo = hi = None
    if b == "none":
        pass
    elif b == "minonly_pos":
        lo = pat(dt, 0, big - span if narrow else rand_normal(rng, dt))
    elif b == "minonly_neg":
        lo = pat(dt, 1, mp + span if narrow else rand_normal(rng, dt))
    elif b == "maxonly_pos":
        hi = pat(dt, 0, mp + span if narrow else rand_normal(rng, dt))
    elif b == "maxonly_neg":
        hi = pat(dt, 1, big - span if narrow else rand_normal(rng, dt))
    elif b in ("pos", "neg"):
        m1 = rand_normal(rng, dt, hi=big - 2000)
        m2 = m1 + span if narrow else rand_normal(rng, dt)
        m1, m2 = min(m1, m2), max(m1, m2)
        if m1 == m2:
            m2 += 1
        lo, hi = (pat(dt, 0, m1), pat(dt, 0, m2)) if b == "pos" else (pat(dt, 1, m2), pat(dt, 1, m1))
    elif b == "straddle":
        if narrow:
            lo, hi = pat(dt, 1, mp + rng.randint(2, 700)), pat(dt, 0, mp + rng.randint(2, 700))
        else:
            lo, hi = pat(dt, 1, rand_normal(rng, dt)), pat(dt, 0, rand_normal(rng, dt))
    elif b == "straddle_lopsided":
        small = mp + rng.randint(1, 3)
        other = mp + rng.randint(300, 900) if narrow else rand_normal(rng, dt, lo=mn * 4)
        lo, hi = (pat(dt, 1, small), pat(dt, 0, other)) if rng.random() < 0.5 else (pat(dt, 1, other), pat(dt, 0, small))
    elif b == "minnormal_lo":
        lo, hi = pat(dt, 1, mn), pat(dt, 0, mn + span if narrow else rand_normal(rng, dt))
    elif b == "minnormal_hi":
        lo, hi = pat(dt, 1, mn + span if narrow else rand_normal(rng, dt)), pat(dt, 0, mn)
    elif b == "sub_lo_pos":
        lo, hi = pat(dt, 0, rng.randint(1, mn - 1)), pat(dt, 0, mn + span if narrow else rand_normal(rng, dt))
    elif b == "sub_hi_neg":
        lo, hi = pat(dt, 1, mn + span if narrow else rand_normal(rng, dt)), pat(dt, 1, rng.randint(1, mn - 1))
    elif b == "sub_lo_neg":
        lo, hi = pat(dt, 1, rng.randint(1, mn - 1)), pat(dt, 0, mn + span if narrow else rand_normal(rng, dt))
    elif b == "sub_hi_pos":
        lo, hi = pat(dt, 1, mn + span if narrow else rand_normal(rng, dt)), pat(dt, 0, rng.randint(1, mn - 1))
    elif b == "sub_both":
        lo, hi = pat(dt, 1, rng.randint(1, mn - 1)), pat(dt, 0, rng.randint(1, mn - 1))
    elif b == "equal":
        lo = hi = pat(dt, rng.random() < 0.5, rand_normal(rng, dt))
    elif b == "equal_sub":
        lo = hi = pat(dt, rng.random() < 0.5, rng.randint(1, mn - 1))
    elif b == "equal_zero":
        lo, hi = pat(dt, rng.random() < 0.5, 0), pat(dt, rng.random() < 0.5, 0)
    elif b == "adjacent_sub":
        m = rng.choice([0, 1, mn - 2, mn - 1, rng.randint(1, mn - 2)])
        lo, hi = (pat(dt, 0, m), pat(dt, 0, m + 1)) if rng.random() < 0.5 else (pat(dt, 1, m + 1), pat(dt, 1, m))
    elif b == "minonly_sub":
        lo = pat(dt, rng.random() < 0.5, rng.randint(1, mn - 1))
    elif b == "maxonly_sub":
        hi = pat(dt, rng.random() < 0.5, rng.randint(1, mn - 1))
    elif b == "adjacent":
        m = rand_normal(rng, dt)
        lo, hi = (pat(dt, 0, m), pat(dt, 0, m + 1)) if rng.random() < 0.5 else (pat(dt, 1, m + 1), pat(dt, 1, m))
    elif b == "zero_lo":
        lo, hi = pat(dt, 0, 0), pat(dt, 0, mn + span if narrow else rand_normal(rng, dt))
    elif b == "zero_hi":
        lo, hi = pat(dt, 1, mn + span if narrow else rand_normal(rng, dt)), pat(dt, 1, 0)
    elif b == "negzero_lo":
        lo, hi = pat(dt, 1, 0), pat(dt, 0, mn + span if narrow else rand_normal(rng, dt))
    elif b == "poszero_hi":
        lo, hi = pat(dt, 1, mn + span if narrow else rand_normal(rng, dt)), pat(dt, 0, 0)
    else:
        raise tlc.MachineryError("unknown bounds shape %r" % (b,))
    if sz == "all":
        # at least as many samples as there are representable values in the range, where feasible
        touches_zero = b in ("sub_lo_pos", "sub_hi_neg", "sub_lo_neg", "sub_hi_pos", "sub_both", "zero_lo", "zero_hi",
                             "negzero_lo", "poszero_hi", "minnormal_lo", "minnormal_hi")
        if b == "none":
            size = 70000 if (dt == "float16" and tier == "thorough" and rng.random() < 0.2) else 1999
        elif touches_zero:
            # the range runs through all subnormals: exhaustible only in float16
            size = 2 * mn + span + 100 if dt == "float16" else 1999
        elif b in ("straddle", "straddle_lopsided"):
            size = 1900 + rng.randint(0, 99)
        elif b in ("equal", "adjacent", "equal_sub", "equal_zero", "adjacent_sub"):
            size = 6 + rng.randint(0, 3)
        elif b in ("minonly_sub", "maxonly_sub"):
            size = 1999
        else:
            size = span + 1 + rng.randint(0, 50)
        size = max(size, 6)
    else:
        size = dict(min=6, min1=7, s10=10, s11=11, s64=64, s1000=1000)[sz]
    a = dict(fmt=dt, size=size, min=lo, max=hi, shape=b, sz=sz)
    a.update(fl)
    return a


def random_args(rng, tier, big=False):
    """Free-form arguments: any bit patterns (also non-finite, inverted, sizes below the minimum)."""
    dt = rng.choice(DTYPES)
    w = bits.WIDTH[dt]
    a = dict(fmt=dt, shape="random", sz="random")
    for k in FLAGS:
        a[k] = rng.random() < 0.5
    mode = rng.random()
    a["min"] = a["max"] = None
    if mode < 0.25:
        pass
    elif mode < 0.85:
        # finite bounds, ordered by value
        x, y = [pat(dt, rng.random() < 0.5, rng.randint(0, inf_mag(dt) - 1)) for _ in range(2)]
        fx, fy = bits.from_bits_int(x, dt), bits.from_bits_int(y, dt)
        if fx > fy:
            x, y = y, x
        a["min"], a["max"] = x, y
        r = rng.random()
        if r < 0.15:
            a["min"] = None
        elif r < 0.3:
            a["max"] = None
    else:
        a["min"] = rng.getrandbits(w) if rng.random() < 0.8 else None
        a["max"] = rng.getrandbits(w) if rng.random() < 0.8 else None
    if big:
        a["size"] = rng.choice([20000, 100000, 300000, 1000000])
    else:
        a["size"] = rng.choice([rng.randint(0, 5), rng.randint(6, 40), rng.randint(6, 40), rng.randint(41, 400),
                                rng.randint(401, 2000 if tier == "quick" else 6000)])
    return a


# ---------------------------------------------------------------------------------------------
def kwargs_of(a):
    dt = a["fmt"]
    kw = dict(size=a["size"], dtype=bits.FLOAT[dt])
    # the same request phrased in every way the API admits: flags as Python bool / numpy.bool_ / int, bounds as scalars of the
    # dtype / Python floats (exact: every value of a binary format is a Python float) / 0-d arrays; chosen from the request itself
    h = (a["size"] + (a["min"] or 0) + 3 * (a["max"] or 0) + sum(1 << i for i, k in enumerate(FLAGS) if a[k])) % 9
    ff, bf = h % 3, h // 3
    for k in FLAGS:
        kw[KW[k]] = bool(a[k]) if ff == 0 else numpy.bool_(bool(a[k])) if ff == 1 else int(bool(a[k]))
    for name, key in (("min", "min_value"), ("max", "max_value")):
        if a[name] is not None:
            v = bits.from_bits_int(a[name], dt)
            kw[key] = v if bf == 0 else float(v) if bf == 1 else numpy.array(v)
    return kw


def call(fn, *args, **kw):
    with warnings.catch_warnings():
        warnings.simplefilter("ignore")
        with numpy.errstate(all="ignore"):
            try:
                return "", fn(*args, **kw)
            except Exception as ex:  # noqa: the exception type is what gets logged
                return type(ex).__name__, None


def arg_fields(a):
    d = dict(fmt=a["fmt"], size=int(a["size"]), hasmin=a["min"] is not None, min=bits.nat(a["min"] or 0),
             hasmax=a["max"] is not None, max=bits.nat(a["max"] or 0))
    for k in FLAGS:
        d[k] = bool(a[k])
    return d


def arr_bits(r, dt):
    """1-D float array -> list of limb lists of the raw bit patterns (same encoding as bits.fbits)."""
    if r.dtype.name != dt:
        # a wrong dtype is reported by the dtype clause; log the values converted so the rest is judged
        r = r.astype(bits.FLOAT[dt])
    v = numpy.ascontiguousarray(r).view(bits.UINT[dt]).astype(numpy.uint64)
    nl = (bits.WIDTH[dt] + bits.LB - 1) // bits.LB
    rows = numpy.stack([(v >> numpy.uint64(bits.LB * i)) & numpy.uint64(bits.MASK) for i in range(nl)], axis=1).tolist() if v.size else []
    for row in rows:
        while row and row[-1] == 0:
            row.pop()
    return rows


class Recorder:
    """Collects events; ids are positions in self.events / self.chunks."""

    def __init__(self, utils, ch=CH):
        self.utils = utils
        self.ch = ch
        self.events = []        # rs (inline or summary) and prod events
        self.chunks = []        # chunk events of large calls
        self.meta = {}          # event id -> replay info
        self.parent = {}        # chunk id -> rs event id
        self.pending = {}       # rs event id -> [chunk ids]
        self.elements = 0

    def rs(self, a, ch=None):
        ch = ch or self.ch
        if (a["size"] + (a["min"] or 0) + (a["max"] or 0)) % 5 == 0:      # (a function of the request: replays repeat it)
            # history: the same request was made before and its caller overwrote the returned array in place -
            # a result must never be shared with an earlier caller
            _, r0 = call(self.utils.real_samples, **kwargs_of(a))
            if isinstance(r0, numpy.ndarray) and r0.size and r0.flags.writeable:
                r0.fill(numpy.nan)
        raised, r = call(self.utils.real_samples, **kwargs_of(a))
        ev = dict(id=len(self.events), op="rs")
        ev.update(arg_fields(a))
        ev["raised"] = raised
        if raised == "" and not (isinstance(r, numpy.ndarray) and r.ndim == 1 and r.dtype.kind == "f"):
            ev["raised"] = "not-a-1-D-float-array"
            r = None
        ev["dtype"] = r.dtype.name if r is not None else ""
        ev["n"] = int(r.size) if r is not None else 0
        self.meta[ev["id"]] = dict(kind="rs", args=a, ch=ch)
        if r is None or r.size <= ch:
            ev["xs"] = arr_bits(r, a["fmt"]) if r is not None else []
            self.elements += ev["n"]
        else:
            ids = []
            off = 0
            base = arg_fields(a)
            while off < r.size - 1:
                part = r[off:off + ch]
                c = dict(id=len(self.chunks), op="chunk")
                c.update(base)
                c["off"] = off
                c["xs"] = arr_bits(part, a["fmt"])
                self.parent[c["id"]] = ev["id"]
                ids.append(c["id"])
                self.chunks.append(c)
                self.elements += len(c["xs"])
                off += ch - 1
            self.pending[ev["id"]] = ids
        self.events.append(ev)
        return ev, r

    def prod(self, kind, dt, sizes, dimargs, rng, whole_limit=3000, ncells=300):
        """dimargs: one argument dict per 1-D factor (flags shared)."""
        u = self.utils
        arrs = []
        for a in dimargs:
            ev, r = self.rs(a)
            if ev["raised"] or r is None or r.size == 0:
                return None          # the 1-D call itself is judged by its own event
            arrs.append(r)
        fl = {KW[k]: bool(dimargs[0][k]) for k in FLAGS if k != "unique"}
        f = bits.FLOAT[dt]

        def val(a, key):
            return None if a[key] is None else bits.from_bits_int(a[key], dt)

        def lim(key, idx):
            vals = [val(dimargs[i], key) for i in idx]
            if all(v is None for v in vals):
                return None
            if any(v is None for v in vals):
                return "mixed"
            if dimargs[0].get("shared"):
                return vals[0]            # one scalar bound for all dimensions (the other way to phrase equal bounds)
            return vals[0] if len(vals) == 1 else tuple(vals)

        if kind == "pair":
            mnv, mxv = lim("min", [0, 1]), lim("max", [0, 1])
            if "mixed" in (mnv, mxv):
                return None
            raised, out = call(u.real_pair_samples, size=tuple(sizes), dtype=f, min_value=mnv, max_value=mxv, **fl)
            outs = list(out) if not raised else []
        elif kind == "triple":
            mnv, mxv = lim("min", [0, 1, 2]), lim("max", [0, 1, 2])
            if "mixed" in (mnv, mxv):
                return None
            raised, out = call(u.real_triple_samples, size=tuple(sizes), dtype=f, min_value=mnv, max_value=mxv, **fl)
            outs = list(out) if not raised else []
        elif kind == "complex":
            raised, out = call(u.complex_samples, size=tuple(sizes), dtype=f,
                               min_real_value=val(dimargs[0], "min"), max_real_value=val(dimargs[0], "max"),
                               min_imag_value=val(dimargs[1], "min"), max_imag_value=val(dimargs[1], "max"), **fl)
            outs = [out] if not raised else []
        elif kind == "cpair":
            lims = {}
            for name, key, idx in (("min_real_value", "min", [0, 2]), ("max_real_value", "max", [0, 2]),
                                   ("min_imag_value", "min", [1, 3]), ("max_imag_value", "max", [1, 3])):
                lims[name] = lim(key, idx)
            if "mixed" in lims.values():
                return None
            raised, out = call(u.complex_pair_samples, size=((sizes[0], sizes[1]), (sizes[2], sizes[3])), dtype=f,
                               **lims, **fl)
            outs = list(out) if not raised else []
        else:
            raise AssertionError(kind)
        ev = dict(id=len(self.events), op="prod", kind=kind, fmt=dt, raised=raised,
                  arrs=[arr_bits(r, dt) for r in arrs], shapes=[], dtypes=[], cells=[], whole=False)
        self.meta[ev["id"]] = dict(kind=kind, dt=dt, sizes=list(sizes), dimargs=dimargs)
        if not raised:
            ok = all(isinstance(o, numpy.ndarray) for o in outs)
            if not ok:
                ev["raised"] = "not-an-array"
            else:
                ev["shapes"] = [[int(x) for x in o.shape] for o in outs]
                ev["dtypes"] = [o.dtype.name for o in outs]
                shape = outs[0].shape
                total = int(numpy.prod(shape)) if all(o.shape == shape for o in outs) else 0
                cplx = kind in ("complex", "cpair")
                if total and (len(shape) == (2 if cplx else 1)) and all(o.dtype.kind == ("c" if cplx else "f") for o in outs):
                    if total <= whole_limit:
                        flat = range(total)
                        ev["whole"] = True
                    else:
                        flat = sorted(set([0, total - 1, shape[-1] - 1, total - shape[-1]] +
                                          [rng.randrange(total) for _ in range(ncells)]))
                    rdt = dt
                    for k in flat:
                        pos = [k] if not cplx else [k // shape[1], k % shape[1]]
                        cell = list(pos)
                        for o in outs:
                            v = o[tuple(pos)] if cplx else o[k]
                            if cplx:
                                cell.append(bits.fbits(v.real, rdt) if v.real.dtype.name == rdt else bits.fbits(bits.FLOAT[rdt](v.real), rdt))
                                cell.append(bits.fbits(v.imag, rdt) if v.imag.dtype.name == rdt else bits.fbits(bits.FLOAT[rdt](v.imag), rdt))
                            else:
                                cell.append(bits.fbits(v, rdt) if v.dtype.name == rdt else bits.fbits(bits.FLOAT[rdt](v), rdt))
                        ev["cells"].append(cell)
                    self.elements += len(ev["cells"])
        self.events.append(ev)
        return ev


# ---------------------------------------------------------------------------------------------
def _run_chunk_file(args):
    path, n = args
    r = tlc.run("Trace_Samples", "Trace.cfg", workers=1, env={"TRACE_FILE": path}, tag=os.path.basename(path))
    done = None
    fails = []
    for v in tlaval.printed_values(r.out, "FAIL"):
        fails.append((v[1], sorted(v[2]["__set__"])))
    for line in r.out.splitlines():
        m = tlc.DONE_RE.match(line)
        if m:
            done = int(m.group(1))
    if not r.ok or done != n:
        raise tlc.MachineryError("Trace_Samples did not consume %s (%s of %s lines):\n%s" % (path, done, n, r.out[-3000:]))
    sums = {}
    for v in tlaval.printed_values(r.out, "SUM"):
        sums[v[1]] = v[2]
    try:
        os.unlink(path)
    except OSError:
        pass
    return fails, sums, r.generated, r.distinct


def summarise_chunks(chunks, chk, per_file=24):
    """Phase 1: chunk events -> (fails, {chunk id: summary record as printed by the spec})."""
    wd = tlc.workdir()
    jobs = []
    stamp = time.time_ns() % 10**9
    for i in range(0, len(chunks), per_file):
        part = chunks[i:i + per_file]
        path = os.path.join(wd, "c19chunks_%d_%d.ndjson" % (stamp, i))
        with open(path, "w") as f:
            for ev in part:
                f.write(json.dumps(ev, separators=(",", ":")))
                f.write("\n")
        jobs.append((path, len(part)))
    t0 = time.time()
    fails, sums = [], {}
    gen = dis = 0
    with cf.ThreadPoolExecutor(max_workers=tlc.NCPU) as ex:
        for fl, sm, g, d in ex.map(_run_chunk_file, jobs):
            fails += fl
            sums.update(sm)
            gen += g
            dis += d
    if set(sums) != {c["id"] for c in chunks}:
        raise tlc.MachineryError("chunk summaries missing: got %d of %d" % (len(sums), len(chunks)))
    chk.add_trace("Trace_Samples(chunks)", dict(fails=fails, states=dis, transitions=gen, chunks=len(jobs),
                                                wall=time.time() - t0), len(chunks), ntraces=0)
    return fails, sums


def sum_to_json(s):
    def g(x):
        return dict(has=bool(x["has"]), lo=x["lo"], hi=x["hi"])
    return dict(n=s["n"], first=s["first"], last=s["last"], gn=g(s["gn"]), gp=g(s["gp"]), seen=sorted(s["seen"]["__set__"]))


def split_fail(clauses):
    path = [c for c in clauses if c.startswith("path=")]
    rest = [c for c in clauses if not c.startswith("path=")]
    if len(path) != 1 or not rest:
        raise tlc.MachineryError("FAIL lines without exactly one path tag: %s" % (clauses,))
    return path[0], rest


def judge(rec, chk, replay_of):
    """Run the trace spec over everything recorded; turn FAIL lines into chk.fail calls."""
    calls_failed = {}

    def add(eid, clauses):
        ent = calls_failed.setdefault(eid, set())
        ent.update(clauses)

    if rec.chunks:
        cfails, sums = summarise_chunks(rec.chunks, chk)
        for cid, clauses in cfails:
            add(rec.parent[cid], clauses)
        for eid, ids in rec.pending.items():
            rec.events[eid]["sums"] = [sum_to_json(sums[i]) for i in ids]
    res = tlc.validate_events("Trace_Samples", "Trace.cfg", rec.events, name="c19")
    chk.add_trace("Trace_Samples", res, len(rec.events), ntraces=len(rec.events))
    for eid, clauses in res["fails"]:
        add(eid, clauses)
    drift = {}
    for eid, what in res["notes"]:
        if "drift" in what:
            a = rec.meta[eid]["args"]
            ent = drift.setdefault((a["shape"], rec.events[eid]["fmt"]), [0, a])
            ent[0] += 1
    for (shape, dt), (cnt, a) in sorted(drift.items()):
        chk.drift_note("%d %s calls with bounds shape %r pass every clause but differ from the TLA+ transcription Samples!Gen, "
                       "e.g. real_samples(%s)" % (cnt, dt, shape, describe(a)))
    nfail = 0
    for eid in sorted(calls_failed):
        clauses = sorted(calls_failed[eid])
        binding = [c for c in clauses if c.startswith("binding:")]
        if binding:
            raise tlc.MachineryError("recording inconsistent for event %d: %s" % (eid, binding))
        ev = rec.events[eid]
        meta = rec.meta[eid]
        if ev["op"] == "rs":
            path, rest = split_fail(clauses)
            for c in rest:
                kind = "error=" + ev["raised"] if c == "error" else c
                key = "real_samples:%s:%s" % (path, kind)
                chk.fail(key, "real_samples(%s): clause %s fails%s" % (describe(meta["args"]), c,
                         " (raised %s)" % ev["raised"] if ev["raised"] else " (n=%d)" % ev["n"]),
                         replay_of(meta, clauses))
                nfail += 1
        else:
            for c in [c for c in clauses if c != "prod"]:
                key = "%s:%s:%s" % (ev["kind"], ev["fmt"], ("error=" + ev["raised"]) if c == "prod_error" else c)
                chk.fail(key, "%s_samples sizes=%s: clause %s fails" % (ev["kind"], meta["sizes"], c), replay_of(meta, clauses))
                nfail += 1
    return calls_failed


def describe(a):
    dt = a["fmt"]
    parts = ["size=%d" % a["size"], "dtype=" + dt]
    for k, nm in (("min", "min_value"), ("max", "max_value")):
        if a[k] is not None:
            parts.append("%s=%r[0x%x]" % (nm, float(bits.from_bits_int(a[k], dt)), a[k]))
    dflt = dict(inf=True, zero=True, sub=False, nan=False, huge=True, nonneg=False, unique=True)
    parts += ["%s=%s" % (KW[k], a[k]) for k in FLAGS if bool(a[k]) != dflt[k]]
    return ", ".join(parts)


# ---------------------------------------------------------------------------------------------
def run_u1(chk, tier):
    cfg = "MC_Samples.cfg" if tier == "quick" else "MC_Samples_thorough.cfg"
    r = tlc.run("MC_Samples", cfg, timeout=1500)
    chk.add_mc(cfg, r)
    if not r.finished:
        if r.invariant_violated:
            # my transcription and my clauses disagree on the toy format: a design problem of the
            # check itself, not evidence about the code
            raise tlc.MachineryError("MC_Samples: transcription violates the clauses:\n" + r.error_trace()[:3000])
        raise tlc.MachineryError("MC_Samples did not complete:\n" + r.out[-2000:])
    stats = tlaval.printed_values(r.out, "MCSTAT")
    if not stats:
        raise tlc.MachineryError("MC_Samples printed no statistics")
    st = stats[-1][1]
    chk.cov["u1_cases"] = st
    vac = [k for k, v in st.items() if v == 0]
    if vac:
        raise tlc.MachineryError("vacuous model run: no case of kind %s" % vac)
    # non-vacuity: each mutant generator must be rejected by the clauses
    muts = ("drop_first", "drop_last", "bump_mid", "add_subnormal", "swap", "add_nan", "no_zero", "add_inf")
    with open(os.path.join(tlc.SPEC, "MC_Samples.cfg")) as f:
        base = f.read()
    if 'Mutant = "none"' not in base or "POSTCONDITION Stats" not in base or "{6, 7, 10, 11, 13, 20}" not in base:
        raise tlc.MachineryError("MC_Samples.cfg no longer has the lines the mutant runs rewrite")

    def one(mut):
        p = os.path.join(tlc.workdir(), "mc_samples_%s.cfg" % mut)
        with open(p, "w") as f:
            f.write(base.replace('Mutant = "none"', 'Mutant = "%s"' % mut).replace("POSTCONDITION Stats", "")
                    .replace("{6, 7, 10, 11, 13, 20}", "{10, 13}"))
        return mut, tlc.run("MC_Samples", p, timeout=900, workers=1, tag="mut_" + mut)

    killed = {}
    with cf.ThreadPoolExecutor(max_workers=4) as ex:
        for mut, rm in ex.map(one, muts):
            killed[mut] = bool(rm.invariant_violated)
            if not rm.invariant_violated:
                raise tlc.MachineryError("the clauses do not reject the mutant generator %r (vacuous postcondition?)\n%s" % (mut, rm.out[-1500:]))
    chk.cov["u1_mutant_generators_rejected"] = killed


def shapes_from_tlc(chk):
    r = tlc.run("SampleShapes", "SampleShapes.cfg", workers=1, timeout=600)
    if not r.ok:
        raise tlc.MachineryError("shape enumeration failed:\n" + r.out[-2000:])
    chk.add_mc("SampleShapes.cfg", r)
    shapes = tlaval.printed_values(r.out, "H")
    if len(shapes) != r.distinct:
        raise tlc.MachineryError("parsed %d shapes, TLC reports %d states" % (len(shapes), r.distinct))
    return sorted(shapes, key=lambda s: json.dumps(s))


def product_calls(rec, rng, tier, n):
    made = 0
    kinds = ["pair", "triple", "complex", "cpair"]
    tries = 0
    while made < n and tries < 10 * n:
        tries += 1
        kind = kinds[tries % 4]
        dims = dict(pair=2, triple=3, complex=2, cpair=4)[kind]
        dt = rng.choice(DTYPES[1:] if kind in ("complex", "cpair") else DTYPES)
        if rng.random() < 0.04 and kind == "complex":
            dt = "float16"         # outside the domain of complex products: the spec says so
        fl = {k: rng.random() < 0.5 for k in FLAGS}
        fl["unique"] = True
        big = tier == "thorough" and rng.random() < 0.15
        if kind == "pair":
            sizes = [rng.randint(6, 1200 if big else 40) for _ in range(dims)]
        elif kind == "triple":
            sizes = [rng.randint(6, 90 if big else 14) for _ in range(dims)]
        elif kind == "complex":
            sizes = [rng.randint(6, 1200 if big else 40) for _ in range(dims)]
        else:
            sizes = [rng.randint(6, 40 if big else 9) for _ in range(dims)]
        dimargs = []
        mode = rng.random()
        shared = None
        if mode >= 0.7 and kind != "complex":
            # one pair of bounds shared by every dimension and passed as SCALARS; the bounds come from the shapes that matter
            # for the 1-D generator: a zero of either sign, a subnormal, the smallest normal, ordinary values
            m = rand_normal(rng, dt)
            mnm = mn_mag(dt)
            shared = rng.choice([
                (pat(dt, 0, 0), pat(dt, 0, m)), (pat(dt, 1, 0), pat(dt, 0, m)), (pat(dt, 1, m), pat(dt, 1, 0)), (pat(dt, 1, m), pat(dt, 0, 0)),
                (pat(dt, 0, 0), None), (None, pat(dt, 1, 0)), (None, pat(dt, 0, 0)), (pat(dt, 1, 0), None),
                (pat(dt, 0, rng.randint(1, mnm - 1)), pat(dt, 0, m)), (pat(dt, 1, m), pat(dt, 0, rng.randint(1, mnm - 1))),
                (pat(dt, 0, mnm), pat(dt, 0, mnm + m % 1000 + 1)), (pat(dt, 1, m), pat(dt, 0, m)), (pat(dt, 0, min(m, inf_mag(dt) - 3)), pat(dt, 0, min(m, inf_mag(dt) - 3) + 1)),
            ])
        for d in range(dims):
            a = dict(fmt=dt, size=sizes[d], shape="prod", sz="prod", min=None, max=None)
            a.update(fl)
            if shared is not None:
                a["min"], a["max"] = shared
                a["shared"] = True
            elif mode < 0.4:
                pass
            else:
                # same-sign or well-separated bounds per dimension
                m1, m2 = sorted([rand_normal(rng, dt), rand_normal(rng, dt)])
                if m1 == m2:
                    m2 += 1
                sgn = rng.random()
                if sgn < 0.4:
                    a["min"], a["max"] = pat(dt, 0, m1), pat(dt, 0, m2)
                elif sgn < 0.8:
                    a["min"], a["max"] = pat(dt, 1, m2), pat(dt, 1, m1)
                else:
                    a["min"], a["max"] = pat(dt, 1, m1), pat(dt, 0, m2)
            dimargs.append(a)
        if rec.prod(kind, dt, sizes, dimargs, rng) is not None:
            made += 1
    return made


def select_shapes(shapes, tier, seed):
    """thorough: every shape; quick: from every (bounds shape, size class, dtype) group a seeded
    fraction of its flag combinations (at least one), fewer for the two large size classes."""
    if tier != "quick":
        return shapes
    groups = {}
    for sh in shapes:
        groups.setdefault((sh[1], sh[2], sh[3]), []).append(sh)
    srng = random.Random(seed + 17)
    out = []
    for key in sorted(groups):
        g = groups[key]
        rate = 0.08 if key[1] in ("s1000", "all") else 0.25
        out += srng.sample(g, max(1, int(round(rate * len(g)))))
    return out


class Session:
    """Drives calls in batches: each batch is recorded, judged by TLC and dropped (bounded memory)."""

    def __init__(self, chk, utils, limit=1200000):
        self.chk = chk
        self.utils = utils
        self.limit = limit
        self.rec = Recorder(utils)
        self.calls = self.prods = self.chunk_events = self.elements = self.largest = 0
        self.outside = 0
        self.nontrivial = set()
        self.paths = {}

    def rs(self, a, ch=None):
        self.rec.rs(a, ch)
        self.maybe_flush()

    def maybe_flush(self, force=False):
        rec = self.rec
        if not rec.events or (not force and rec.elements < self.limit):
            return
        failed = judge(rec, self.chk, lambda meta, clauses: dict(meta=meta, clauses=sorted(clauses)))
        for ev in rec.events:
            if ev["op"] == "rs":
                self.calls += 1
                a = rec.meta[ev["id"]]["args"]
                self.largest = max(self.largest, ev["n"])
                if ev["raised"] == "" and ev["n"] >= 4 and ev["size"] >= 6:
                    self.nontrivial.add((a["shape"], a["sz"], ev["fmt"], tuple(ev[k] for k in FLAGS),
                                         (ev["size"], a["min"], a["max"]) if a["shape"] in ("random", "prod") else 0))
            else:
                self.prods += 1
        step = max(1, len(rec.events) // 3)
        for ev in rec.events[::step]:
            if ev["op"] == "rs":
                self.chk.sample(dict(call=describe(rec.meta[ev["id"]]["args"]), raised=ev["raised"], n=ev["n"],
                                     head=[float(bits.from_bits(x, ev["fmt"])) for x in ev.get("xs", [])[:6]],
                                     clauses_failed=sorted(failed.get(ev["id"], []))))
        self.chunk_events += len(rec.chunks)
        self.elements += rec.elements
        self.rec = Recorder(self.utils)


def run(tier, seed):
    fa = import_repo()
    from functional_algorithms import utils
    chk = Check(PID, tier, seed)
    rng = random.Random(seed)
    # ---- U1
    run_u1(chk, tier)
    # ---- U2: the argument shapes TLC enumerates, concretised from the seed
    shapes = select_shapes(shapes_from_tlc(chk), tier, seed)
    ses = Session(chk, utils)
    for sh in shapes:
        ses.rs(concretise(sh, rng, tier))
    nshape = len(shapes)
    # free-form arguments (domain membership is decided by the spec)
    for _ in range(450 if tier == "quick" else 6000):
        ses.rs(random_args(rng, tier))
    # forced small chunks: exercises the chunk/summary path at quick sizes too
    for _ in range(25 if tier == "quick" else 150):
        a = random_args(rng, tier)
        a["size"] = rng.randint(300, 1500)
        ses.rs(a, ch=rng.choice([50, 128, 333]))
    if tier == "thorough":
        for i in range(30):
            a = random_args(rng, tier, big=True)
            if i % 3 == 0:
                a["min"] = a["max"] = None
            ses.rs(a)
        for dt in DTYPES:
            for sub in (False, True):
                ses.rs(dict(fmt=dt, size=1000000, min=None, max=None, shape="none", sz="1e6", inf=True, zero=True,
                            sub=sub, nan=False, huge=True, nonneg=False, unique=True))
        for dt, lo, hi in (("float32", -1.0, 1000.0), ("float64", 1e-300, 1e300), ("float16", -60000.0, -1e-3)):
            ses.rs(dict(fmt=dt, size=1000000, min=bits.fbits_int(bits.FLOAT[dt](lo), dt), max=bits.fbits_int(bits.FLOAT[dt](hi), dt),
                        shape="big_user", sz="1e6", inf=True, zero=True, sub=False, nan=False, huge=True, nonneg=False, unique=True))
    want = 60 if tier == "quick" else 700
    made = 0
    while made < want:
        made += product_calls(ses.rec, rng, tier, min(20, want - made))
        ses.maybe_flush()
    ses.maybe_flush(force=True)
    chk.assumptions += [
        "documented minimum size 6; smaller sizes, non-finite or inverted bounds are outside the domain (decided by Samples!Domain)",
        "L1 an excluded subnormal bound may be moved to zero or to the smallest normal of its sign",
        "L2 unique=False: nondecreasing instead of strictly increasing; on the default path order/uniformity are waived",
        "L3 include_huge required only for size >= 10 (the package's own tests use the same threshold)",
        "L4 with user bounds include_infinity/include_nan/include_huge/nonnegative are ignored as documented; include_zero is required only when zero lies strictly between the bounds",
        "L5 uniformity per sign; gaps adjacent to zero, infinities, the next-to-largest value and the bounds are excluded",
        "L6 -inf tolerated with nonnegative=True; L7 sign of zero samples not observed",
        "products: the layout pinned by the package's own tests (first factor varies fastest); target_func filtering is outside the statement; periodic_samples is not part of the statement",
        "chunk summaries are computed and printed by Trace_Samples.tla and transported unchanged by the driver",
        "U1 (MC_Samples) is about the transcription Samples!Gen on a toy format; it validates the clauses, not the code",
    ]
    return chk.finish(
        rule="real_samples calls inside the domain that returned >= 4 samples, counted by distinct "
             "(bounds shape, size class, dtype, flags) for TLC-enumerated shapes and by distinct arguments for free-form calls",
        distinct_nontrivial=len(ses.nontrivial),
        extra_cov=dict(calls=ses.calls, shape_calls=nshape, product_calls=ses.prods, chunk_events=ses.chunk_events,
                       array_elements_validated=ses.elements, largest_array=ses.largest))


def replay(path):
    import_repo()
    from functional_algorithms import utils
    with open(path) as f:
        rp = json.load(f)["replay"]
    meta = rp["meta"]
    chk = Check(PID, "quick", 0)
    rec = Recorder(utils)
    rng = random.Random(0)
    if meta["kind"] == "rs":
        ev, r = rec.rs(meta["args"], ch=meta.get("ch", CH))
        print("real_samples(%s) -> raised=%r n=%d" % (describe(meta["args"]), ev["raised"], ev["n"]))
        if r is not None:
            print("  head", r[:8], "tail", r[-8:])
    else:
        ev = rec.prod(meta["kind"], meta["dt"], meta["sizes"], meta["dimargs"], rng, whole_limit=200000)
        print("%s_samples sizes=%s -> %s" % (meta["kind"], meta["sizes"], "not executed" if ev is None else "raised=%r shapes=%s" % (ev["raised"], ev["shapes"])))
    failed = judge(rec, chk, lambda m, c: dict(meta=m, clauses=sorted(c)))
    bad = 0
    for eid, clauses in sorted(failed.items()):
        print("VIOLATION property=%s replay=%s  # event %d clauses %s" % (PID, path, eid, sorted(clauses)))
        bad += 1
    return 1 if bad else 0
