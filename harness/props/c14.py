"""C14 - the ULP metric is the integer distance on the float lattice (utils.diff_ulp, utils.ulp).

U1: TLC proves on toy formats (MC_Ulp*.cfg, exhaustive over all pairs / monotone triples and all
    collapse thresholds) that the consequences listed in the property follow from the definition
    UlpDist = |Ord(x) - Ord(y)| and from the existential flush relation, that the flush
    transcription of the code is one of the admitted collapse maps, that the ulp identities are
    satisfiable on every finite value and that the frexp/ldexp transcription of utils.ulp breaks
    them exactly on the subnormals.
U2: TLC enumerates all 46 x 46 pairs of operand shapes (UlpShapes.tla) and concretises them for
    float16/32/64; the driver replays the printed bit patterns into diff_ulp (scalar, array,
    default-flush and complex calls, both flush modes) and ulp.
U3: every recorded call is validated by Trace_Ulp.tla: float16 neighbour chains for ALL finite
    values, all float16 subnormals for the collapse map, random pairs/chains in all three formats,
    ulp on all finite float16 values and sampled float32/64 values.

The driver never interprets a result: it builds operands from bit patterns, calls the package and
records bit patterns / integers.  Classification of operands (zero / subnormal / normal) is used
only to name the failure class (key) and to decide where a flush witness must be recorded.
"""
import json
import random

import numpy

from .. import tlc, tlaval, bits
from ..common import Check, import_repo

PID = "C14"
DTYPES = ["float16", "float32", "float64"]
CPLX = {"float32": numpy.complex64, "float64": numpy.complex128}


# ---------------------------------------------------------------------------------------------
# operands from bit patterns
def fl(pat, dt):
    return numpy.array([pat], dtype=bits.UINT[dt]).view(bits.FLOAT[dt])[0]


def fl_array(pats, dt):
    return numpy.array(pats, dtype=bits.UINT[dt]).view(bits.FLOAT[dt])


def largest_mag(dt):
    w, p = bits.WIDTH[dt], bits.PREC[dt]
    return ((1 << (w - p)) - 1 << (p - 1)) - 1


def minnormal_mag(dt):
    return 1 << (bits.PREC[dt] - 1)


def pat_of_ord(o, dt, negzero=False):
    """signed lattice ordinal -> bit pattern (generation only; the spec has its own Ord)."""
    w = bits.WIDTH[dt]
    if o < 0 or (o == 0 and negzero):
        return (1 << (w - 1)) | (-o)
    return o


def ord_of_pat(pat, dt):
    w = bits.WIDTH[dt]
    m = pat & ((1 << (w - 1)) - 1)
    return -m if pat >> (w - 1) else m


def cls(pat, dt):
    m = pat & ((1 << (bits.WIDTH[dt] - 1)) - 1)
    if m == 0:
        return "zero"
    if m < minnormal_mag(dt):
        return "sub"
    if m > largest_mag(dt):
        return "nonfinite"
    return "normal"


def rel(px, py, dt):
    w = bits.WIDTH[dt]
    sx, sy = px >> (w - 1), py >> (w - 1)
    if cls(px, dt) == "zero" or cls(py, dt) == "zero" or sx == sy:
        return "same"
    return "straddle"


# ---------------------------------------------------------------------------------------------
# calling the code under test
FORMS = ("0d_0d", "0d_s", "s_0d", "list", "1d")       # the dispatch branches of diff_ulp besides scalar / array calls


class Caller:
    def __init__(self, utils):
        self.utils = utils
        self.ncalls = 0

    def default_flush(self):
        return 1 if bool(getattr(self.utils, "default_flush_subnormals", False)) else 0

    def d(self, x, y, flush, default=False, form="scalar", flagform="py", moddefault=None):
        """form: how the caller phrases the two operands - every dispatch branch of diff_ulp is a way to ask the same question;
        flagform: how the flag is phrased (Python bool, numpy.bool_, int); moddefault: the value the module-level default
        utils.default_flush_subnormals has during the call (None: left as it is) - an explicit flag must win over it"""
        if moddefault is not None:
            saved = self.utils.default_flush_subnormals
            self.utils.default_flush_subnormals = bool(moddefault)
            try:
                return self.d(x, y, flush, default, form, flagform)
            finally:
                self.utils.default_flush_subnormals = saved
        self.ncalls += 1
        if form == "0d_0d":
            x, y = numpy.array(x), numpy.array(y)
        elif form == "0d_s":
            x = numpy.array(x)
        elif form == "s_0d":
            y = numpy.array(y)
        elif form == "list":
            x, y = [x], [y]
        elif form == "1d":
            x, y = numpy.array([x]), numpy.array([y])
        if default:
            r = self.utils.diff_ulp(x, y)
        else:
            flag = bool(flush) if flagform == "py" else numpy.bool_(bool(flush)) if flagform == "np" else int(bool(flush))
            r = self.utils.diff_ulp(x, y, flush_subnormals=flag)
        if form == "1d":
            r = r[0]
        return int(r)

    def witness(self, pat, dt, flush):
        """recorded d(x, +0) in flush mode for operands in or near the subnormal range."""
        if not flush:
            return [0, []]
        m = pat & ((1 << (bits.WIDTH[dt] - 1)) - 1)
        if m == 0 or m >= 2 * minnormal_mag(dt):
            return [0, []]
        return bits.zint(self.d(fl(pat, dt), bits.FLOAT[dt](0), 1))


def build(c, rc):
    """Execute one recipe against the real code; returns the list of events it produces.

    A recipe holds only concrete inputs (bit patterns as Python ints, dtype name, flush mode, call
    mode); it is what replay files contain.
    """
    op, dt = rc["op"], rc["fmt"]
    flush = rc.get("flush", 0)
    ev = dict(op=op, fmt=dt, flush=flush, exc="", mode=rc.get("mode", "scalar"))
    try:
        if op == "d":
            x, y = fl(rc["x"], dt), fl(rc["y"], dt)
            default = rc.get("mode") == "default"
            md, ff = rc.get("moddefault"), rc.get("flagform", "py")
            if default:
                ev["flush"] = flush = c.default_flush() if md is None else int(bool(md))
            ev.update(x=bits.nat(rc["x"]), y=bits.nat(rc["y"]), r=[0, []], rr=[0, []])
            ev["wx"] = c.witness(rc["x"], dt, flush)
            ev["wy"] = c.witness(rc["y"], dt, flush)
            form = rc.get("mode") if rc.get("mode") in FORMS else "scalar"
            if md is not None or ff != "py":
                ev["mode"] = "%s/flag=%s/moddefault=%s" % (ev["mode"], ff, md)
            ev["r"] = bits.zint(c.d(x, y, flush, default, form, ff, md))
            ev["rr"] = bits.zint(c.d(y, x, flush, default, form, ff, md))
            return [ev]
        if op == "da":
            # one array call; one "d" event per element
            xs, ys = fl_array(rc["xs"], dt), fl_array(rc["ys"], dt)
            c.ncalls += 1
            res = c.utils.diff_ulp(xs, ys, flush_subnormals=bool(flush))
            kind = "array" if numpy.asarray(res).dtype.kind in "iuO" else "array_result_dtype_" + numpy.asarray(res).dtype.name
            out = []
            for i, (px, py) in enumerate(zip(rc["xs"], rc["ys"])):
                r = bits.zint(int(res[i]))
                out.append(dict(op="d", fmt=dt, flush=flush, exc="", mode=kind, x=bits.nat(px), y=bits.nat(py),
                                r=r, rr=r, wx=c.witness(px, dt, flush), wy=c.witness(py, dt, flush), index=i))
            return out
        if op == "dc":
            mk = CPLX[dt]
            parts = [rc["xr"], rc["xi"], rc["yr"], rc["yi"]]
            f = [fl(p, dt) for p in parts]
            cx = numpy.array([f[0], f[1]]).view(mk)[0]
            cy = numpy.array([f[2], f[3]]).view(mk)[0]
            for k, p in zip(["xr", "xi", "yr", "yi"], parts):
                ev[k] = bits.nat(p)
            for k, p in zip(["xr", "xi", "yr", "yi"], parts):
                ev["w" + k] = c.witness(p, dt, flush)
            ev.update(r=[0, []], rr=[0, []])
            form = rc.get("mode") if rc.get("mode") in FORMS else "scalar"
            ev["r"] = bits.zint(c.d(cx, cy, flush, False, form))
            ev["rr"] = bits.zint(c.d(cy, cx, flush, False, form))
            return [ev]
        if op == "chain":
            pats = rc["xs"]
            xs = [fl(p, dt) for p in pats]
            n = len(xs)
            ev.update(xs=[bits.nat(p) for p in pats], nb=rc.get("nb", 0), cons=[], first=[], back=[0, []])
            ev["ws"] = [c.witness(p, dt, flush) for p in pats]
            cons = [c.d(xs[j], xs[j + 1], flush) for j in range(n - 1)]
            first = [cons[0]] + [c.d(xs[0], xs[j + 1], flush) for j in range(1, n - 1)]
            ev["cons"] = [bits.zint(v) for v in cons]
            ev["first"] = [bits.zint(v) for v in first]
            ev["back"] = bits.zint(c.d(xs[n - 1], xs[0], flush))
            return [ev]
        if op == "collapse":
            pats = rc["xs"]
            zero = bits.FLOAT[dt](0)
            ev.update(xs=[bits.nat(p) for p in pats], ws=[])
            ev["ws"] = [bits.zint(c.d(fl(p, dt), zero, 1)) for p in pats]
            return [ev]
        if op == "ulp":
            x = fl(rc["x"], dt)
            ev.update(x=bits.nat(rc["x"]), u=[], un=[])
            c.ncalls += 2
            ev["u"] = bits.fbits(c.utils.ulp(x), dt)
            ev["un"] = bits.fbits(c.utils.ulp(-x), dt)
            return [ev]
    except Exception as ex:  # the call under test raised: recorded, judged by the spec
        if op == "da":
            ev = dict(op="d", fmt=dt, flush=flush, mode="array", x=bits.nat(rc["xs"][0]), y=bits.nat(rc["ys"][0]),
                      r=[0, []], rr=[0, []], index=0)
        ev["exc"] = type(ex).__name__
        return [ev]
    raise AssertionError(op)


def recipe_of(ev, batch_rc=None):
    """The concrete inputs of an event, for replay files."""
    if batch_rc is not None:
        return batch_rc
    rc = dict(op=ev["op"], fmt=ev["fmt"], flush=ev["flush"], mode=ev.get("mode", "scalar"))
    if "/flag=" in rc["mode"]:       # "<mode>/flag=<py|np|int>/moddefault=<None|0|1>" (see build)
        m, ff, md = rc["mode"].split("/")
        rc.update(mode=m, flagform=ff.split("=")[1], moddefault=None if md.endswith("None") else int(md.split("=")[1]))
    for k in ("x", "y", "xr", "xi", "yr", "yi"):
        if k in ev:
            rc[k] = bits.unnat(ev[k])
    if "xs" in ev:
        rc["xs"] = [bits.unnat(v) for v in ev["xs"]]
    if "nb" in ev:
        rc["nb"] = ev["nb"]
    return rc


def key_of(ev, clauses):
    dt, op = ev["fmt"], ev["op"]
    cl = "+".join(clauses)
    if op == "d":
        px, py = bits.unnat(ev["x"]), bits.unnat(ev["y"])
        if ev["mode"].startswith("array_result_dtype_"):
            return "diff_ulp:%s:%s:%s" % (dt, ev["mode"], cl)
        return "diff_ulp:%s:flush=%d:%s:%s-%s:%s:%s" % (dt, ev["flush"], ev["mode"], cls(px, dt), cls(py, dt), rel(px, py, dt), cl)
    if op == "dc":
        kinds = sorted({cls(bits.unnat(ev[k]), dt) for k in ("xr", "xi", "yr", "yi")})
        return "diff_ulp:complex:%s:flush=%d:%s:%s" % (dt, ev["flush"], "+".join(kinds), cl)
    if op == "chain":
        kinds = sorted({cls(bits.unnat(v), dt) for v in ev["xs"]})
        signs = {bits.unnat(v) >> (bits.WIDTH[dt] - 1) for v in ev["xs"]}
        return "diff_ulp:chain:%s:flush=%d:%s:%s:%s" % (dt, ev["flush"], "+".join(kinds), "straddle" if len(signs) == 2 else "same", cl)
    if op == "collapse":
        return "diff_ulp:collapse:%s:%s" % (dt, cl)
    if op == "ulp":
        px = bits.unnat(ev["x"])
        what = "returns_zero" if (ev["u"] == [] or bits.unnat(ev["u"]) == 1 << (bits.WIDTH[dt] - 1)) else "nonzero"
        return "ulp:%s:%s:%s:%s" % (dt, cls(px, dt), what, cl)
    return "%s:%s" % (op, cl)


# ---------------------------------------------------------------------------------------------
# recipe generators
def finite_pat(rng, dt):
    w = bits.WIDTH[dt]
    while True:
        p = rng.getrandbits(w)
        if (p & ((1 << (w - 1)) - 1)) <= largest_mag(dt):
            return p


def clamp_ord(o, dt):
    L = largest_mag(dt)
    return max(-L, min(L, o))


def random_pair(rng, dt):
    """A pair of finite patterns: uniform / near / around zero and the subnormals / log-distance."""
    w = bits.WIDTH[dt]
    kind = rng.randrange(8)
    if kind <= 2:
        return finite_pat(rng, dt), finite_pat(rng, dt)
    if kind <= 4:
        o = ord_of_pat(finite_pat(rng, dt), dt)
        if kind == 3:
            o2 = clamp_ord(o + rng.randint(-70, 70), dt)
        else:
            o2 = clamp_ord(o + rng.choice((-1, 1)) * (1 << rng.randrange(w - 1)) + rng.randint(-3, 3), dt)
        return pat_of_ord(o, dt, rng.random() < 0.5), pat_of_ord(o2, dt, rng.random() < 0.5)
    K = 3 * minnormal_mag(dt)
    if kind == 5:
        o, o2 = rng.randint(-K, K), rng.randint(-K, K)
    elif kind == 6:
        # both within a few steps of a landmark: zero, half the min normal, the min normal
        lm = rng.choice((0, minnormal_mag(dt) // 2, minnormal_mag(dt), -(minnormal_mag(dt) // 2), -minnormal_mag(dt)))
        o, o2 = lm + rng.randint(-4, 4), rng.choice((lm, -lm, 0)) + rng.randint(-4, 4)
    else:
        # straddling zero with log-uniform magnitudes
        o = 1 << rng.randrange(w - 1)
        o2 = -(1 << rng.randrange(w - 1))
        o, o2 = clamp_ord(o + rng.randint(-2, 2), dt), clamp_ord(o2 + rng.randint(-2, 2), dt)
        if rng.random() < 0.5:
            o, o2 = o2, o
    return pat_of_ord(o, dt, rng.random() < 0.5), pat_of_ord(o2, dt, rng.random() < 0.5)


def neighbour_chain(p, dt, k=3):
    """p and up to k values above it (numpy.nextafter), as patterns; stops before infinity."""
    inf = bits.FLOAT[dt]("inf")
    x = fl(p, dt)
    out = [p]
    for _ in range(k):
        x = numpy.nextafter(x, inf)
        if not numpy.isfinite(x):
            break
        out.append(bits.fbits_int(x, dt))
    return out


def shapes_from_tlc(chk):
    r = tlc.run("UlpShapes", "UlpShapes.cfg", workers=1, timeout=600)
    if not r.ok:
        raise tlc.MachineryError("UlpShapes failed:\n" + r.out[-2000:])
    chk.add_mc("UlpShapes (46 x 46 operand shape pairs, concretised for float16/32/64)", r)
    pairs = []
    for v in tlaval.printed_values(r.out, "P"):
        sx, sy = tuple(v[1]), tuple(v[2])
        pats = [bits.unnat(l) for l in v[3:9]]
        pairs.append((sx, sy, dict(float16=(pats[0], pats[1]), float32=(pats[2], pats[3]), float64=(pats[4], pats[5]))))
    if len(pairs) != 46 * 46:
        raise tlc.MachineryError("expected 2116 shape pairs, parsed %d" % len(pairs))
    return pairs


# ---------------------------------------------------------------------------------------------
class Runner:
    def __init__(self, chk, caller, batch=400000):
        self.chk = chk
        self.c = caller
        self.nid = 0
        self.counts = {}
        self.nontrivial = set()
        self.events, self.rcs, self.phases = [], {}, []
        self.ndrift = 0
        self.batch = batch

    def add(self, name, recipes):
        """Execute recipes now; their events wait for the next flush()."""
        n0 = len(self.events)
        for rc in recipes:
            for ev in build(self.c, rc):
                ev["id"] = self.nid
                self.nid += 1
                self.events.append(ev)
                if rc["op"] == "da":
                    self.rcs[ev["id"]] = rc
                k = "%s:%s:%s" % (ev["op"], ev["fmt"], ev.get("mode", ""))
                self.counts[k] = self.counts.get(k, 0) + 1
        if len(self.events) > n0:
            self.chk.sample(self.events[(n0 + len(self.events)) // 2], limit=8)
            self.phases.append("%s: %d" % (name, len(self.events) - n0))
        if len(self.events) >= self.batch:
            self.flush()

    def flush(self):
        """Validate the pending events (one TLC process per 1/16 of them), map failures to verdicts."""
        events, rcs, phases = self.events, self.rcs, self.phases
        self.events, self.rcs, self.phases = [], {}, []
        if not events:
            return
        res = tlc.validate_events("Trace_Ulp", "Trace.cfg", events, name="ulp", chunk=(len(events) + 15) // 16)
        self.chk.add_trace("Trace_Ulp[%s]" % "; ".join(phases), res, len(events))
        byid = {e["id"]: e for e in events}
        for eid, clauses in res["fails"]:
            ev = byid[eid]
            mach = [cl for cl in clauses if cl.startswith("mach_")]
            if mach:
                raise tlc.MachineryError("driver built a malformed event (%s): %s" % (mach, json.dumps(ev)[:600]))
            if "drift_ulp" in clauses:
                self.ndrift += 1
                if self.ndrift <= 3:
                    self.chk.drift_note("ulp(%s pattern %#x) = pattern %#x differs from the frexp/ldexp transcription CodeUlp"
                                        % (ev["fmt"], bits.unnat(ev["x"]), bits.unnat(ev["u"])))
                clauses = [cl for cl in clauses if cl != "drift_ulp"]
                if not clauses:
                    continue
            rc = recipe_of(ev, rcs.get(eid))
            self.chk.fail(key_of(ev, clauses), "%s clauses %s on %s" % (ev["op"], clauses, describe(ev)),
                          dict(recipe=rc, failing_event=ev, clauses=clauses))


def describe(ev):
    dt = ev["fmt"]
    def v(l):
        return "%r(%#x)" % (fl(bits.unnat(l), dt), bits.unnat(l))
    if ev["op"] == "d":
        return "%s diff_ulp(%s, %s, flush=%d, %s) -> %s / reversed %s" % (dt, v(ev["x"]), v(ev["y"]), ev["flush"], ev["mode"],
                                                                          bits.unzint(ev["r"]), bits.unzint(ev["rr"]))
    if ev["op"] == "dc":
        return "%s complex diff_ulp((%s,%s), (%s,%s), flush=%d) -> %s" % (dt, v(ev["xr"]), v(ev["xi"]), v(ev["yr"]), v(ev["yi"]),
                                                                         ev["flush"], bits.unzint(ev["r"]))
    if ev["op"] == "chain":
        return "%s chain %s flush=%d cons=%s first=%s back=%s" % (dt, [v(x) for x in ev["xs"]], ev["flush"],
                                                                  [bits.unzint(z) for z in ev["cons"]], [bits.unzint(z) for z in ev["first"]],
                                                                  bits.unzint(ev["back"]))
    if ev["op"] == "ulp":
        return "%s ulp(%s) = %s, ulp(-x) = %s" % (dt, v(ev["x"]), v(ev["u"]), v(ev["un"]))
    return "%s %s (%d values)" % (dt, ev["op"], len(ev.get("xs", [])))


def run_u1(chk, tier):
    cfgs = ["MC_Ulp_p2.cfg", "MC_Ulp.cfg"] if tier == "quick" else \
        ["MC_Ulp_p2.cfg", "MC_Ulp.cfg", "MC_Ulp_triples.cfg", "MC_Ulp_p4.cfg", "MC_Ulp_p4_triples.cfg"]
    for cfg in cfgs:
        r = tlc.run("MC_Ulp", cfg, workers=8, timeout=3000)
        chk.add_mc(cfg, r)
        if r.invariant_violated:
            laws = tlaval.printed_values(r.out, "LAWS")
            chk.fail("model:%s" % cfg, "Ulp.tla does not entail the listed consequences: %s" % (laws[:1],), r.error_trace())
        elif not r.ok:
            raise tlc.MachineryError("MC_Ulp %s failed:\n%s" % (cfg, r.out[-3000:]))
        elif r.distinct < 1000:
            raise tlc.MachineryError("MC_Ulp %s explored only %d states (vacuous)" % (cfg, r.distinct))


def run(tier, seed):
    fa = import_repo()
    from functional_algorithms import utils
    quick = tier == "quick"
    chk = Check(PID, tier, seed)
    rng = random.Random(seed)
    c = Caller(utils)
    R = Runner(chk, c)

    with numpy.errstate(all="ignore"):
        # ---- U1 ------------------------------------------------------------------------------
        run_u1(chk, tier)

        # ---- U2: TLC-enumerated operand shapes -----------------------------------------------
        pairs = shapes_from_tlc(chk)
        shaped = {dt: sorted({p[2][dt][0] for p in pairs}) for dt in DTYPES}
        rcs = []
        for i, (sx, sy, pats) in enumerate(pairs):
            for dt in DTYPES:
                px, py = pats[dt]
                for flush in (0, 1):
                    rcs.append(dict(op="d", fmt=dt, flush=flush, x=px, y=py, mode="scalar"))
                    # every other way of phrasing the same request (0-d arrays, mixed, lists, 1-d): all of them for the
                    # pairs that involve a subnormal or a zero (where the options matter), one in rotation otherwise
                    special = "sub" in (cls(px, dt), cls(py, dt)) or "zero" in (cls(px, dt), cls(py, dt))
                    if special:
                        # every phrasing of the FLAG (Python bool, numpy.bool_, int) under either value of the module-level
                        # default: an explicit flag wins over the default, a true flag of any type enables flushing
                        for ff in ("py", "np", "int"):
                            for md in (0, 1):
                                rcs.append(dict(op="d", fmt=dt, flush=flush, x=px, y=py, mode="scalar", flagform=ff, moddefault=md))
                        rcs.append(dict(op="d", fmt=dt, x=px, y=py, mode="default", moddefault=flush))
                    for fi, form in enumerate(FORMS):
                        if special or (i + fi) % 5 == 0:
                            rcs.append(dict(op="d", fmt=dt, flush=flush, x=px, y=py, mode=form))
                if i % 7 == 0:
                    rcs.append(dict(op="d", fmt=dt, x=px, y=py, mode="default"))
        # array calls: rows of the shape matrix (46 pairs per call)
        for dt in DTYPES:
            for i in range(0, len(pairs), 46):
                row = pairs[i:i + 46]
                rcs.append(dict(op="da", fmt=dt, flush=(i // 46) % 2, xs=[p[2][dt][0] for p in row], ys=[p[2][dt][1] for p in row]))
        # complex operands assembled from the shaped values
        for dt in ("float32", "float64"):
            sv = shaped[dt]
            for _ in range(1500 if quick else 20000):
                q = [rng.choice(sv) for _ in range(4)]
                if rng.random() < 0.3:
                    q[2] = q[0]          # equal real parts: the imaginary distance decides
                if rng.random() < 0.3:
                    q[3] = pat_of_ord(clamp_ord(ord_of_pat(q[1], dt) + rng.randint(-3, 3), dt), dt)
                rcs.append(dict(op="dc", fmt=dt, flush=rng.randrange(2), xr=q[0], xi=q[1], yr=q[2], yi=q[3],
                                mode=rng.choice(("scalar", "scalar") + FORMS)))
        for dt in DTYPES:
            for p in shaped[dt]:
                rcs.append(dict(op="ulp", fmt=dt, x=p))
        R.add("shapes", rcs)
        R.nontrivial |= {(dt, "shape", i) for i in range(len(pairs)) for dt in DTYPES}

        # ---- U3: float16 exhaustive ----------------------------------------------------------
        dt = "float16"
        finite16 = [p for p in range(1 << 16) if (p & 0x7FFF) <= largest_mag(dt)]
        assert len(finite16) == 63488
        # collapse map on ALL subnormals of each sign; sampled ascending chains for float32/64
        rcs = [dict(op="collapse", fmt=dt, xs=[s | m for m in range(1, minnormal_mag(dt))]) for s in (0, 0x8000)]
        for d2 in ("float32", "float64"):
            mn = minnormal_mag(d2)
            for s in (0, 1 << (bits.WIDTH[d2] - 1)):
                for _ in range(2 if quick else 20):
                    ms = {1, 2, mn // 2 - 2, mn // 2 - 1, mn // 2, mn // 2 + 1, mn // 2 + 2, mn // 4, 3 * (mn // 4), mn - 2, mn - 1}
                    ms |= {rng.randrange(1, mn) for _ in range(300)}
                    ms |= {mn // 2 + rng.randint(-1000, 1000) for _ in range(100)}
                    rcs.append(dict(op="collapse", fmt=d2, xs=[s | m for m in sorted(ms)]))
        R.add("collapse", rcs)
        # neighbour chains from every finite value, plain mode; flush mode near the subnormals
        # (quick) or everywhere (thorough)
        rcs = []
        for p in finite16:
            ch = neighbour_chain(p, dt)
            if len(ch) < 2:
                continue
            rcs.append(dict(op="chain", fmt=dt, flush=0, xs=ch, nb=1))
            if not quick or (p & 0x7FFF) < 3 * minnormal_mag(dt) or p % 16 == 0:
                rcs.append(dict(op="chain", fmt=dt, flush=1, xs=ch, nb=1))
        R.add("float16 neighbour chains (all finite values)", rcs)
        R.nontrivial |= {(dt, "chain", p) for p in finite16}
        # ulp on every finite float16 value
        R.add("float16 ulp (all finite values)", [dict(op="ulp", fmt=dt, x=p) for p in finite16])

        # ---- U3: sampled pairs, chains, ulp in all formats ------------------------------------
        npairs = {"float16": 100000 if quick else 1200000, "float32": 25000 if quick else 500000,
                  "float64": 25000 if quick else 500000}
        for dt in DTYPES:
            left = npairs[dt]
            while left > 0:
                nb = min(left, 250000)
                left -= nb
                rcs = []
                for i in range(nb):
                    px, py = random_pair(rng, dt)
                    mode = "default" if i % 50 == 0 else FORMS[(i // 10) % len(FORMS)] if i % 10 == 3 else "scalar"
                    rcs.append(dict(op="d", fmt=dt, flush=rng.randrange(2), x=px, y=py, mode=mode))
                    R.nontrivial.add((px << 70) | (py << 3) | DTYPES.index(dt))
                # a few array calls on the same kind of data
                for _ in range(nb // 2000):
                    ps = [random_pair(rng, dt) for _ in range(16)]
                    rcs.append(dict(op="da", fmt=dt, flush=rng.randrange(2), xs=[a for a, _ in ps], ys=[b for _, b in ps]))
                R.add("%s random pairs" % dt, rcs)
        nchains = 4000 if quick else 60000
        for dt in ("float32", "float64"):
            rcs = []
            for i in range(nchains):
                flush = rng.randrange(2)
                if i % 2 == 0:
                    # neighbour chains at shaped values and random values
                    p = rng.choice(shaped[dt]) if i % 4 == 0 else random_pair(rng, dt)[0]
                    ch = neighbour_chain(p, dt)
                    if len(ch) >= 2:
                        rcs.append(dict(op="chain", fmt=dt, flush=flush, xs=ch, nb=1))
                else:
                    # monotone chains of 3-5 arbitrary values (sorted by ordinal = by value)
                    ps = [random_pair(rng, dt)[rng.randrange(2)] for _ in range(rng.randint(3, 5))]
                    ps.sort(key=lambda q: ord_of_pat(q, dt))
                    rcs.append(dict(op="chain", fmt=dt, flush=flush, xs=ps, nb=0))
            R.add("%s chains" % dt, rcs)
        # float16 arbitrary monotone chains as well
        rcs = []
        for i in range(nchains):
            ps = [random_pair(rng, "float16")[rng.randrange(2)] for _ in range(rng.randint(3, 5))]
            ps.sort(key=lambda q: ord_of_pat(q, "float16"))
            rcs.append(dict(op="chain", fmt="float16", flush=rng.randrange(2), xs=ps, nb=0))
        R.add("float16 arbitrary chains", rcs)
        nulp = 6000 if quick else 150000
        for dt in ("float32", "float64"):
            w, p = bits.WIDTH[dt], bits.PREC[dt]
            pats = set()
            # every binade edge (+-1 step), both signs
            for e in range(0, (1 << (w - p)) - 1):
                for off in (-1, 0, 1):
                    m = (e << (p - 1)) + off
                    if 0 <= m <= largest_mag(dt):
                        pats.add(m)
                        pats.add(m | (1 << (w - 1)))
            cap = len(pats) + nulp
            while len(pats) < cap:
                pats.add(random_pair(rng, dt)[0])
            R.add("%s ulp" % dt, [dict(op="ulp", fmt=dt, x=q) for q in sorted(pats)])

        R.flush()

    chk.assumptions += [
        "flush mode is specified existentially: the image of a subnormal x (zero or the min normal of its sign) is read "
        "off the recorded diff_ulp(x, +0, flush_subnormals=True) and every other recorded distance involving x must be the "
        "flushed-lattice distance of that image; monotonicity of the collapse is checked on recorded ascending chains "
        "(all subnormals for float16); where the threshold lies and whether both signs agree is not constrained",
        "calls without flush_subnormals are judged in the mode named by utils.default_flush_subnormals at call time",
        "operands with a non-finite value, mixed dtypes and the list-of-floats extension are outside the property",
        "ulp(x) is only required to satisfy the nextafter identities and ulp(-x) == ulp(x) on finite x; its value is not pinned "
        "(a difference from the frexp/ldexp transcription is reported as model drift only)",
        "NumPy float16/32/64 scalar views and numpy.nextafter are trusted for building operands; the neighbour premise of "
        "chain events is re-checked by the spec (NextUp)",
    ]
    chk.cov["events_by_kind"] = R.counts
    chk.cov["calls_into_package"] = c.ncalls
    return chk.finish(rule="non-trivial = distinct operand configurations executed: (format, TLC shape pair), (float16 value "
                           "whose neighbour chain was executed), (format, x pattern, y pattern) of sampled pairs",
                      distinct_nontrivial=len(R.nontrivial))


def replay(path):
    import_repo()
    from functional_algorithms import utils
    with open(path) as f:
        rp = json.load(f)["replay"]
    c = Caller(utils)
    with numpy.errstate(all="ignore"):
        events = build(c, rp["recipe"])
    for i, ev in enumerate(events):
        ev["id"] = i
    res = tlc.validate_events("Trace_Ulp", "Trace.cfg", events, nproc=1)
    bad = 0
    byid = {e["id"]: e for e in events}
    for eid, clauses in res["fails"]:
        clauses = [cl for cl in clauses if cl != "drift_ulp"]
        if clauses:
            bad += 1
            print(json.dumps(byid[eid]))
            print("VIOLATION property=%s replay=%s  # %s: %s" % (PID, path, key_of(byid[eid], clauses), describe(byid[eid])))
    if not bad:
        print("replay of %s: %d event(s) accepted by Trace_Ulp" % (path, len(events)))
    return 1 if bad else 0
