"""C16 - polynomial utilities are exact polynomial algebra.

U1: TLC checks the ring laws between the definitions of spec/Poly.tla on all pairs of small
    polynomials (MC_Poly.tla) - this guards the oracle.
U2: TLC enumerates the CASES (function x scheme x degree x reverse x form x zero pattern) from
    spec/PolyShapes.tla; this driver draws rational coefficients / points for each case from the
    seed and calls BOTH copies of the code: functional_algorithms.polynomial (Fractions) and the
    copies in functional_algorithms.floating_point_algorithms through an exact Fraction context.
U3: every call is recorded (arguments and results as uninterpreted integer limb lists) and
    judged by spec/Trace_Poly.tla, which compares with the definitions exactly.

Python never decides a clause: Fractions are used only to construct inputs (e.g. P = A*D for an
exactly divisible case) and to carry the code's own results into the log.
"""
import json
import random
from fractions import Fraction
import numpy

from .. import tlc, tlaval, bits
from ..common import Check, import_repo

PID = "C16"
TRACE = "Trace_Poly"
CFG = "Trace.cfg"


# ---------------------------------------------------------------------------------------------
# encodings
def enc(q):
    q = Fraction(q)
    return [bits.zint(q.numerator), bits.nat(q.denominator)]


def enc_list(lst):
    return [enc(v) for v in lst]


ZERO = [[0, []], [1]]


def to_json(o):
    if isinstance(o, Fraction):
        return {"q": "%d/%d" % (o.numerator, o.denominator)}
    if isinstance(o, dict):
        return {k: to_json(v) for k, v in o.items()}
    if isinstance(o, (list, tuple)):
        return [to_json(v) for v in o]
    return o


def from_json(o):
    if isinstance(o, dict):
        if set(o) == {"q"}:
            return Fraction(o["q"])
        return {k: from_json(v) for k, v in o.items()}
    if isinstance(o, list):
        return [from_json(v) for v in o]
    return o


# ---------------------------------------------------------------------------------------------
# the code under test
class Mods:
    def __init__(self):
        import_repo()
        from functional_algorithms import polynomial, floating_point_algorithms as fpa, utils
        self.poly = polynomial
        self.fpa = fpa
        base = getattr(utils, "FractionContext", object)

        class ExactContext(base):
            """utils.FractionContext; fpa.rpolynomial calls ctx.constant(1) without `like`."""

            def constant(self, value, like=None):
                if like is None or base is object:
                    return Fraction(value)
                return super().constant(value, like)

            def reciprocal(self, x):
                if base is object:
                    return 1 / x
                return super().reciprocal(x)

        self.ctx = ExactContext()

    def scheme(self, impl, name):
        mod = self.poly if impl == "poly" else self.fpa
        if name in ("default", "-"):
            return None
        if name == "direct":
            return lambda k, N: 0
        if name == "third":
            return lambda k, N: (k + 2) // 3
        return getattr(mod, {"horner": "horner_scheme", "estrin": "estrin_dac_scheme",
                             "balanced": "balanced_dac_scheme", "canonical": "canonical_scheme"}[name])


DEFAULT_REVERSE = {("poly", "fast_polynomial"): False, ("fpa", "fast_polynomial"): True, ("fpa", "horner"): True}


def perform(mods, call):
    """Execute one concrete call of the real code and return the event (without id)."""
    impl, fn = call["impl"], call["fn"]
    rev = call.get("reverse", False)
    kw = {}
    if not call.get("omit_reverse"):
        kw["reverse"] = rev
    poly, fpa, ctx = mods.poly, mods.fpa, mods.ctx
    ev = dict(impl=impl, fn=fn, scheme=call.get("scheme", "-"), reverse=rev, raised="")
    out = None
    bad_fn = False
    try:
        if fn in ("fast_polynomial", "horner", "laurent", "rpolynomial"):
            x, coeffs = call["x"], list(call["coeffs"])
            ev.update(op="eval", coeffs=enc_list(coeffs), x=enc(x), m=call.get("m", 0), r=ZERO,
                      form={"laurent": "laurent", "rpolynomial": "ratio"}.get(fn, "plain"))
            sch = mods.scheme(impl, ev["scheme"])
            if sch is not None:
                kw["scheme"] = sch
            if fn == "fast_polynomial":
                out = poly.fast_polynomial(x, coeffs, **kw) if impl == "poly" else fpa.fast_polynomial(ctx, x, coeffs, **kw)
            elif fn == "horner":
                out = fpa.horner(ctx, x, coeffs, **kw)
            elif fn == "laurent":
                out = fpa.laurent(ctx, x, coeffs, call["m"], **kw)
            else:
                out = poly.rpolynomial(x, coeffs, **kw) if impl == "poly" else fpa.rpolynomial(ctx, x, coeffs, **kw)
            ev["r"] = enc(out)
        elif fn == "pow":
            x, n = call["x"], call["n"]
            ev.update(op="pow", x=enc(x), n=n, r=ZERO)
            out = poly.fast_exponent_by_squaring(x, n) if impl == "poly" else fpa.fast_exponent_by_squaring(ctx, x, n)
            ev["r"] = enc(out)
        elif fn == "asrpolynomial":
            coeffs = list(call["coeffs"])
            ev.update(op="asr", coeffs=enc_list(coeffs), r=[])
            out = poly.asrpolynomial(coeffs, **kw)
            ev["r"] = enc_list(out)
        elif fn in ("add", "multiply"):
            P, Q = call["P"], call["Q"]
            ev.update(op="add" if fn == "add" else "mul", P=enc_list(P if isinstance(P, list) else [P]),
                      Q=enc_list(Q if isinstance(Q, list) else [Q]), r=[])
            P = list(P) if isinstance(P, list) else P
            Q = list(Q) if isinstance(Q, list) else Q
            out = getattr(poly, fn)(P, Q, **kw)
            ev["r"] = enc_list(out)
        elif fn == "derivative":
            P, n = list(call["P"]), call["n"]
            ev.update(op="deriv", P=enc_list(P), n=n, r=[])
            if not call.get("omit_n"):
                kw["n"] = n
            out = poly.derivative(P, **kw)
            ev["r"] = enc_list(out)
        elif fn == "taylorat":
            P, z0, size = list(call["P"]), call["z0"], call.get("size")
            ev.update(op="taylor", P=enc_list(P), z0=enc(z0), size=-1 if size is None else size, r=[])
            if size is not None:
                kw["size"] = size
            # the expansion point phrased as the caller may: a Fraction, a Python float, a NumPy scalar of any width (dyadic values:
            # each phrasing denotes exactly the recorded rational)
            zf = call.get("z0form", "frac")
            z0arg = z0 if zf == "frac" else float(z0) if zf == "pyfloat" else getattr(numpy, zf)(float(z0))
            out = poly.taylorat(P, z0arg, **kw)
            ev["r"] = enc_list(out)
        elif fn == "divmod":
            P, D = list(call["P"]), list(call["D"])
            ev.update(op="divmod", P=enc_list(P), D=enc_list(D), Q=[], R=[])
            # witness of the true quotient/remainder (natural order); the spec VERIFIES it before using
            # it, and uses it only to name a failure class (see Trace_Poly.DivFails)
            wq, wr = witness_divmod(P[::-1] if rev else P, D[::-1] if rev else D)
            ev.update(wQ=enc_list(wq), wR=enc_list(wr))
            out = poly.divmod(P, D, **kw)
            q, r = out
            ev["Q"], ev["R"] = enc_list(q), enc_list(r)
        else:
            bad_fn = True
    except RecursionError:
        ev["raised"] = "RecursionError"
    except Exception as ex:  # noqa - the spec decides whether the call was inside the domain
        ev["raised"] = type(ex).__name__
        if out is not None:
            ev["raised"] = "BadResult_" + type(ex).__name__
    if bad_fn:
        raise tlc.MachineryError("unknown function %r" % fn)
    return ev, out


# ---------------------------------------------------------------------------------------------
# drawing concrete inputs for a case
class Draw:
    PROFILES = {
        "small": (50, 12),
        "medium": (10 ** 6, 1000),
        "int": (20, 1),
        "big": (1 << 40, 1 << 20),
    }

    def __init__(self, rng, profile):
        self.rng = rng
        self.nmax, self.dmax = self.PROFILES[profile]

    def q(self):
        """non-zero rational"""
        r = self.rng
        n = r.randint(1, self.nmax)
        if r.random() < 0.5:
            n = -n
        return Fraction(n, r.randint(1, self.dmax))

    def point(self, nonzero=False):
        r = self.rng
        u = r.random()
        if u < 0.04 and not nonzero:
            return Fraction(0)
        if u < 0.08:
            return Fraction(1)
        if u < 0.12:
            return Fraction(-1)
        if u < 0.25:
            return Fraction(r.choice([-1, 1]) * r.randint(2, 9))
        return self.q()

    def coeffs(self, deg, zeros="none"):
        """natural order (lowest power first), len deg + 1, with the zero pattern applied"""
        r = self.rng
        c = [self.q() for _ in range(deg + 1)]
        n = deg
        if zeros == "all":
            return [Fraction(0)] * (n + 1)
        if zeros == "leading":
            z = r.randint(1, min(3, n)) if n >= 1 else 1
            for i in range(z):
                c[n - i] = Fraction(0)
        elif zeros == "trailing":
            z = r.randint(1, min(3, n)) if n >= 1 else 1
            for i in range(z):
                c[i] = Fraction(0)
        elif zeros == "interior" and n >= 2:
            idx = [i for i in range(1, n) if r.random() < 0.5] or [r.randint(1, n - 1)]
            for i in idx:
                c[i] = Fraction(0)
        return c

    def sparse(self, deg):
        r = self.rng
        c = [Fraction(r.choice([-1, 1, 2])) if r.random() < 0.4 else Fraction(0) for _ in range(deg + 1)]
        c[deg] = Fraction(r.choice([-1, 1, 2]))
        return c


def pmul(A, B):
    """input construction only (exactly divisible dividends)"""
    if not A or not B:
        return []
    out = [Fraction(0)] * (len(A) + len(B) - 1)
    for i, a in enumerate(A):
        for j, b in enumerate(B):
            out[i + j] += a * b
    return out


def witness_divmod(P, D):
    """Textbook long division over Fractions (natural order) - a witness, never a verdict."""
    P = [Fraction(v) for v in P]
    D = [Fraction(v) for v in D]
    while P and P[-1] == 0:
        P.pop()
    while D and D[-1] == 0:
        D.pop()
    if not D:
        return [], []
    Q = [Fraction(0)] * max(len(P) - len(D) + 1, 0)
    R = P
    while len(R) >= len(D):
        s = len(R) - len(D)
        t = R[-1] / D[-1]
        Q[s] = t
        R = [R[i] - (t * D[i - s] if i >= s else 0) for i in range(len(R) - 1)]
        while R and R[-1] == 0:
            R.pop()
    return Q, R


def calls_of_case(case, dr):
    """case = [fn, scheme, degree, reverse, form, zeros, aux] -> list of concrete calls.

    A call that depends on the result of another (rpolynomial on asrpolynomial's output) is
    returned as a callable taking the previous event's raw output."""
    fn, scheme, deg, rev, form, zeros, aux = case
    r = dr.rng
    od = lambda lst: list(reversed(lst)) if rev else list(lst)  # noqa: E731  natural order -> as passed
    calls = []
    if fn == "fast_polynomial":
        c = od(dr.coeffs(deg, zeros))
        x = dr.point()
        for impl in ("poly", "fpa"):
            omit = rev == DEFAULT_REVERSE[(impl, fn)] and r.random() < 0.5
            calls.append(dict(impl=impl, fn=fn, scheme=scheme, coeffs=c, x=x, reverse=rev, omit_reverse=omit))
    elif fn == "horner":
        omit = rev and r.random() < 0.5
        calls.append(dict(impl="fpa", fn=fn, scheme="-", coeffs=od(dr.coeffs(deg, zeros)), x=dr.point(), reverse=rev,
                          omit_reverse=omit))
    elif fn == "laurent":
        L = deg + 1
        if form == "m_zero":
            m = 0
        elif form == "m_pos":
            m = 1 if aux == 1 else r.randint(2, 12)
        elif form == "m_neg_in":
            m = -(L - 1) if aux == 1 else -r.randint(1, L - 1)
        else:
            m = -L if aux == 1 else -(L + r.randint(1, 10))
        x = dr.point(nonzero=r.random() < 0.97)
        calls.append(dict(impl="fpa", fn=fn, scheme=scheme, coeffs=od(dr.coeffs(deg, zeros)), x=x, m=m, reverse=rev,
                          omit_reverse=(not rev) and r.random() < 0.5))
    elif fn == "rpolynomial":
        x = dr.point()
        c = od(dr.coeffs(deg, zeros))
        if form == "raw":
            for impl in ("poly", "fpa"):
                calls.append(dict(impl=impl, fn=fn, coeffs=c, x=x, reverse=rev, omit_reverse=(not rev) and r.random() < 0.5))
        else:
            calls.append(dict(impl="poly", fn="asrpolynomial", coeffs=c, reverse=rev,
                              omit_reverse=(not rev) and r.random() < 0.5, then=[
                                  dict(impl=impl, fn="rpolynomial", x=x, reverse=rev) for impl in ("poly", "fpa")]))
    elif fn in ("add", "multiply"):
        P = dr.coeffs(deg, zeros)
        qz = zeros if r.random() < 0.5 else "none"
        if form in ("scalar_left", "scalar_right"):
            s = dr.q() if r.random() < 0.9 else Fraction(0)
            P = od(P)
            a, b = (s, P) if form == "scalar_left" else (P, s)
        else:
            qd = {"deg0": 0, "same": deg, "shorter": r.randint(0, max(0, deg - 1)), "longer": deg + r.randint(1, 5)}[form]
            a, b = od(P), od(dr.coeffs(qd, qz))
            if r.random() < 0.5:
                a, b = b, a
        calls.append(dict(impl="poly", fn=fn, P=a, Q=b, reverse=rev, omit_reverse=(not rev) and r.random() < 0.5))
    elif fn == "derivative":
        n = {1: 0, 2: 1, 3: 2, 4: 3, 5: deg, 6: deg + 1}[aux]
        calls.append(dict(impl="poly", fn=fn, P=od(dr.coeffs(deg, zeros)), n=n, reverse=rev,
                          omit_n=(n == 1 and r.random() < 0.5), omit_reverse=(not rev) and r.random() < 0.5))
    elif fn == "taylorat":
        z0 = {"z_zero": Fraction(0), "z_int": Fraction(r.choice([-1, 1]) * r.randint(1, 5)), "z_frac": dr.q()}[form]
        size = {1: None, 2: r.randint(0, deg), 3: deg + 1, 4: deg + 1 + r.randint(1, 3)}[aux]
        zf = r.choice(["frac", "frac", "pyfloat", "float64", "float32", "float16"])
        if zf != "frac":
            z0 = Fraction(r.randint(-40, 40), 2 ** r.randint(0, 4)) if form != "z_zero" else Fraction(0)
        calls.append(dict(impl="poly", fn=fn, P=od(dr.coeffs(deg, zeros)), z0=z0, z0form=zf, size=size, reverse=rev,
                          omit_reverse=(not rev) and r.random() < 0.5))
    elif fn == "divmod":
        dd = {"deg0": 0, "deg1": 1, "deg2": 2, "half": deg // 2, "same": deg, "bigger": deg + r.randint(1, 3)}[form]
        if aux == 1:
            P, D = dr.coeffs(deg), dr.coeffs(dd)
        elif aux == 2:
            D = dr.coeffs(dd)
            P = pmul(dr.coeffs(max(deg - dd, 0)), D)
        elif aux == 3:
            P, D = dr.sparse(deg), dr.sparse(dd)
        elif aux == 4:
            P = dr.coeffs(deg, r.choice(["trailing", "interior", "none"])) + [Fraction(0)] * r.randint(0, 2)
            D = dr.coeffs(dd, r.choice(["trailing", "interior", "none"])) + [Fraction(0)] * r.randint(1, 2)
            if r.random() < 0.04:
                D = [Fraction(0)] * len(D)          # outside the domain: the spec must say so
        else:
            P, D = [Fraction(0)] * (deg + 1), dr.coeffs(dd)
        calls.append(dict(impl="poly", fn=fn, P=od(P), D=od(D), reverse=rev, omit_reverse=(not rev) and r.random() < 0.5))
    elif fn == "pow":
        x = {"int": Fraction(r.randint(-9, 9)), "frac": dr.q(), "special": Fraction(r.choice([0, 1, -1]))}[form]
        for impl in ("poly", "fpa"):
            calls.append(dict(impl=impl, fn="pow", x=x, n=deg))
    else:
        raise tlc.MachineryError("unknown case %r" % (case,))
    return calls


def run_call(mods, call, events, meta, case):
    """perform call (and its dependants), appending events and their replay descriptors"""
    then = call.pop("then", None)
    ev, out = perform(mods, call)
    ev["id"] = len(events)
    events.append(ev)
    meta.append((case, call))
    if then and not ev["raised"]:
        # feed the code's own ratio form to both rpolynomial copies
        for t in then:
            run_call(mods, dict(t, coeffs=list(out)), events, meta, case)


def key_of(ev, clauses):
    """function : scheme (or, for fpa.horner whose two directions are separate loops, the reverse flag) : clauses"""
    shape = ev["scheme"]
    if ev["fn"] == "horner":
        shape = "reverse=%s" % ev["reverse"]
    return "%s.%s:%s:%s" % (ev["impl"], ev["fn"], shape, "+".join(clauses))


def corrupt(ev):
    """A copy of a passing event with one recorded result field changed (binding canary)."""
    ev = json.loads(json.dumps(ev))

    def bump(q):
        n = bits.unzint(q[0]) + 1
        q[0] = bits.zint(n)

    if ev["op"] in ("eval", "pow"):
        bump(ev["r"])
    elif ev["op"] == "divmod":
        if ev["R"]:
            bump(ev["R"][0])
        else:
            ev["R"] = [enc(1)]
    else:
        if ev["r"]:
            bump(ev["r"][0])
        else:
            ev["r"] = [enc(1)]
    return ev


def expected_u1_states(cfg):
    n = {"MC_Poly.cfg": 85, "MC_Poly_deep.cfg": 121}[cfg]
    return n + n * n


def run(tier, seed):
    import sys
    sys.setrecursionlimit(max(sys.getrecursionlimit(), 4000))   # degree 501 with a linear-depth scheme
    mods = Mods()
    chk = Check(PID, tier, seed)
    quick = tier == "quick"
    # ---- U1 ---------------------------------------------------------------------------------
    for cfg in (["MC_Poly.cfg"] if quick else ["MC_Poly.cfg", "MC_Poly_deep.cfg"]):
        r = tlc.run("MC_Poly", cfg, workers=8, timeout=1800)
        chk.add_mc(cfg, r)
        if r.invariant_violated:
            # the oracle contradicts itself: nothing below can be trusted
            raise tlc.MachineryError("Poly.tla violates its own ring law %s:\n%s" % (r.invariant_violated, r.error_trace()[:1500]))
        if not r.ok:
            raise tlc.MachineryError("MC_Poly (%s) did not complete:\n%s" % (cfg, r.out[-2000:]))
        if r.distinct != expected_u1_states(cfg):
            raise tlc.MachineryError("MC_Poly (%s): %d states, expected %d (vacuous run?)" % (cfg, r.distinct, expected_u1_states(cfg)))
    # ---- U2 ---------------------------------------------------------------------------------
    r = tlc.run("PolyShapes", "PolyShapes_quick.cfg" if quick else "PolyShapes.cfg", workers=1, timeout=1800)
    if not r.ok:
        raise tlc.MachineryError("PolyShapes did not complete:\n" + r.out[-2000:])
    chk.add_mc("PolyShapes", r)
    cases = sorted((h[1] for h in tlaval.printed_values(r.out, "H")), key=lambda c: json.dumps(c))
    if len(cases) != r.distinct or not cases:
        raise tlc.MachineryError("PolyShapes printed %d cases for %d states" % (len(cases), r.distinct))
    rng = random.Random(seed)
    # thorough: every case with four coefficient magnitudes (the O(n^2) operations stay moderate)
    reps = ["small"] if quick else ["small", "medium", "big", "int"]
    events, meta = [], []
    for rep, profile in enumerate(reps):
        for case in cases:
            heavy = case[0] in ("multiply", "taylorat", "divmod", "add", "derivative") or case[2] > 40
            prof = profile
            if profile == "big" and heavy:
                prof = "small"
            dr = Draw(rng, prof)
            # thorough: the cheap evaluation cases get three independent draws per magnitude
            draws = 3 if (not quick and case[0] in ("fast_polynomial", "horner", "rpolynomial", "pow") and case[2] <= 40) else 1
            for _ in range(draws):
                for call in calls_of_case(case, dr):
                    run_call(mods, call, events, meta, case)
    by_fn = {}
    for ev in events:
        k = "%s.%s" % (ev["impl"], ev["fn"])
        by_fn[k] = by_fn.get(k, 0) + 1
    chk.cov["events_by_function"] = by_fn
    chk.cov["cases"] = len(cases)
    chk.cov["raised_events"] = sum(1 for e in events if e["raised"])
    for i in (len(events) // 7, len(events) // 2, (len(events) * 6) // 7):
        chk.sample(dict(case=meta[i][0], call=to_json(meta[i][1])))
    # ---- U3 ---------------------------------------------------------------------------------
    # events are independent: deal them round-robin so that the expensive ones (taylorat, divmod,
    # degree 500) are spread evenly over the TLC processes
    nchunk = 16 if quick else 48
    order = [ev for k in range(nchunk) for ev in events[k::nchunk]]
    res = tlc.validate_events(TRACE, CFG, order, name="poly", chunk=(len(events) + nchunk - 1) // nchunk)
    chk.add_trace(TRACE, res, len(events))
    failing = set()
    for eid, clauses in res["fails"]:
        ev = events[eid]
        case, call = meta[eid]
        failing.add(eid)
        chk.fail(key_of(ev, clauses), "case %s: %s.%s(%s) violates %s" % (case, ev["impl"], ev["fn"], brief(call), clauses),
                 dict(case=case, call=to_json(call), clauses=clauses))
    # binding canary: corrupted copies of passing events must each be rejected (and nothing else)
    good, seen_ops = [], {}
    for ev in events:
        if ev["id"] in failing or ev["raised"]:
            continue
        if seen_ops.get((ev["op"], ev["impl"]), 0) < 2 and (ev["op"] != "asr" or ev["r"]):
            seen_ops[(ev["op"], ev["impl"])] = seen_ops.get((ev["op"], ev["impl"]), 0) + 1
            good.append(ev)
    canary = []
    for i, ev in enumerate(good):
        a = dict(ev, id=2 * i)
        b = dict(corrupt(ev), id=2 * i + 1)
        canary += [a, b]
    cres = tlc.validate_events(TRACE, CFG, canary, name="polycanary", nproc=1, chunk=len(canary) + 1)
    got = sorted(eid for eid, _ in cres["fails"])
    want = [2 * i + 1 for i in range(len(good))]
    if got != want:
        raise tlc.MachineryError("binding canary: corrupted events %s, rejected %s" % (want, got))
    chk.cov["binding_canary"] = dict(corrupted=len(want), rejected=len(got))
    chk.assumptions += [
        "coefficient lists lowest power first; reverse=True means arguments and polynomial results are highest power first (docstrings)",
        "polynomial-valued results compared as polynomials (zero high-order entries may be added or missing)",
        "calls outside the mathematical domain (ratio form of a list with an interior zero, Laurent m<0 at 0, zero divisor) are not judged",
        "fpa copies run on utils.FractionContext (constant() given a default `like`, which fpa.rpolynomial needs)",
        "taylorat's undocumented size: returned coefficients exact, at least min(size, deg+1) returned",
        "zeros_aberth (numerical root finder) and compensated_horner (floating-point error-free transformation) are not exact algebra and are not covered",
    ]
    nontrivial = len({json.dumps(c) for (c, _) in meta if c[2] >= 2 and c[5] != "all"})
    return chk.finish(rule="one or more calls per case enumerated by TLC from PolyShapes (function x scheme x degree x reverse x form x "
                           "zero pattern x variant), x%d coefficient magnitudes; non-trivial = distinct cases of degree >= 2 whose "
                           "coefficients are not all zero" % len(reps),
                      distinct_nontrivial=nontrivial)


def brief(call):
    out = []
    for k, v in call.items():
        if k in ("impl", "fn", "then"):
            continue
        if isinstance(v, list):
            s = "[" + ", ".join(str(x) for x in v[:6]) + (", ...(%d)" % len(v) if len(v) > 6 else "") + "]"
        else:
            s = str(v)
        out.append("%s=%s" % (k, s))
    return ", ".join(out)


def replay(path):
    import sys
    sys.setrecursionlimit(max(sys.getrecursionlimit(), 4000))
    mods = Mods()
    with open(path) as f:
        rp = json.load(f)["replay"]
    call = from_json(rp["call"])
    call.pop("then", None)
    ev, _ = perform(mods, call)
    ev["id"] = 0
    print("call: %s.%s(%s)" % (call["impl"], call["fn"], brief(call)))
    print(json.dumps(ev))
    res = tlc.validate_events(TRACE, CFG, [ev], stateful=True)
    for eid, clauses in res["fails"]:
        print("VIOLATION property=%s replay=%s  # %s" % (PID, path, key_of(ev, clauses)))
    return 1 if res["fails"] else 0
