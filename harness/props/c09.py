"""C09 - code generation is deterministic and history independent.

U1: FAPipeline.tla (process-global state, Generate requests): functional dependency of the text on
    the request, exhaustively over histories of <= 4 requests; leaky designs are negative controls.
U2: TLC enumerates all request sequences of length 3 over 8 cheap requests and samples long random
    sequences (orders and repetitions) over the full alphabet; each history is executed in a
    child forked from a warm interpreter, under several PYTHONHASHSEED values (one interpreter per seed).
U3: the merged logs (process, seed, position, request, sha256 of the text or of the exception
    text) are validated by Trace_Pipeline.tla: one request, one text.
"""
import json
import os
import random
import re
import subprocess
import sys
import warnings

from .. import tlc, tlaval
from ..common import Check, import_repo, REPO

PID = "C09"
SIG_F = {"float32": (":float32",), "float64": (":float64",)}


def alphabet(fa):
    reqs = []
    for tname in ["python", "numpy", "cpp", "stablehlo", "xla_client", "lax"]:
        target = getattr(fa.targets, tname)
        for func, sigs in sorted(target.trace_arguments.items()):
            if not hasattr(fa.algorithms, func):
                continue
            for sig in sigs:
                r = dict(kind="algorithm", target=tname, func=func, sig=list(sig))
                if tname == "xla_client":
                    r.update(enable_alt=True, default_constant_type="FloatType")
                reqs.append(r)
    # debug level 1 for the executable python-like targets
    for tname in ["python", "numpy"]:
        for func, sig in [("hypot", [":float32", ":float32"]), ("square", [":complex64"]), ("asin", [":float64"])]:
            if tname == "python":
                sig = [s.replace("32", "").replace("64", "").replace("128", "") for s in sig]
            reqs.append(dict(kind="algorithm", target=tname, func=func, sig=sig, debug=1))
    # user-defined composites that expand one definition several times
    for tname in ["python", "numpy", "cpp", "stablehlo", "xla_client"]:
        for func, n in [("two_hypots", 3), ("nested_hypot", 3), ("sum_of_squares_roots", 2), ("asinh_twice", 2), ("select_mix", 2)]:
            for ty in (["float"] if tname == "python" else ["float32", "float64"]):
                r = dict(kind="user", target=tname, func=func, sig=[":" + ty] * n)
                if tname == "xla_client":
                    r.update(enable_alt=True, default_constant_type="FloatType")
                reqs.append(r)
        reqs.append(dict(kind="user", target=tname, func="log1p_pair", sig=[":complex" if tname == "python" else ":complex64"] * 2,
                         **(dict(enable_alt=True, default_constant_type="FloatType") if tname == "xla_client" else {})))
    # the same request traced repeatedly in ONE context (key names the shared context)
    for i, (tname, func, sig) in enumerate([("numpy", "two_hypots", [":float32"] * 3), ("python", "hypot", [":float", ":float"]),
                                            ("stablehlo", "asinh_twice", [":float32"] * 2), ("cpp", "square", [":complex64"])]):
        reqs.append(dict(kind="user" if func in ("two_hypots", "asinh_twice") else "algorithm", target=tname, func=func, sig=sig,
                         same_ctx_key="shared%d" % i))
    # the apmath functions as tools/generate_apmath_lax.py requests them (fresh context each)
    lax = [("two_sum", 2, dict(fix_overflow=False, override_name="two_sum_unsafe", assume_fma=False)),
           ("two_sum", 2, dict(fix_overflow=True, override_name="two_sum_general", assume_fma=False)),
           ("two_prod", 2, dict(scale=False, fix_overflow=False, override_name="two_prod_unsafe", assume_fma=False)),
           ("two_prod", 2, dict(scale=True, fix_overflow=True, override_name="two_prod_general", assume_fma=False)),
           ("fma", 3, dict(fix_overflow=False, override_name="fma_unsafe", assume_fma=False, algorithm="apmath", functional=True,
                           scale=False, size=None, possibly_zero_z=False)),
           ("fma", 3, dict(fix_overflow=True, override_name="fma_general", assume_fma=False, algorithm="a7", functional=True,
                           scale=True, size=None, possibly_zero_z=True)),
           ("fma", 3, dict(fix_overflow=True, override_name="fma_a8", assume_fma=False, algorithm="a8", functional=True,
                           scale=True, size=None, possibly_zero_z=True))]
    for func, n, kw in lax:
        reqs.append(dict(kind="apmath_lax", target="lax", func=func, sig=["%s:ArrayLike" % v for v in "xyz"[:n]], kwargs=kw))
    # EVERY definition of algorithms.py (found by introspection, so new ones are included), also those no target
    # lists in trace_arguments, in both precisions on one target each (rotating); a request the package cannot
    # serve answers with its exception text, which must be as history independent as a generated text
    import inspect
    defs = []
    for name in sorted(dir(fa.algorithms)):
        f = getattr(fa.algorithms, name)
        if name.startswith("_") or not callable(f) or inspect.isclass(f) or not getattr(f, "__module__", "").endswith("algorithms"):
            continue
        try:
            ps = list(inspect.signature(f).parameters)
        except (TypeError, ValueError):
            continue
        if ps and ps[0] == "ctx" and 1 <= len(ps) - 1 <= 4:
            defs.append((name, len(ps) - 1))
    rot = ["numpy", "cpp", "stablehlo"]
    have = {(r["target"], r["func"], tuple(r["sig"])) for r in reqs if r["kind"] == "algorithm"}
    for i, (name, ar) in enumerate(defs):
        tname = rot[i % 3]
        tys = ["complex64", "complex128"] if name.startswith("complex_") else ["float32", "float64"] if name.startswith("real_") else ["float32", "float64", "complex64"]
        for ty in tys:
            sig = [":" + ty] * ar
            if (tname, name, tuple(sig)) not in have:
                reqs.append(dict(kind="algorithm", target=tname, func=name, sig=sig, alldefs=True))
    # context parameters are part of a request: the same function with and without each documented parameter
    for tname, func, sig, params in [
            ("python", "hypot", [":float", ":float"], dict(rewrite_keep_integer_literals=True)),
            ("python", "square", [":complex"], dict(rewrite_keep_integer_literals=True)),
            ("stablehlo", "asin", [":float"], dict(rewrite_keep_integer_literals=True)),
            ("cpp", "absolute", [":complex"], dict(rewrite_keep_integer_literals=True)),
            ("numpy", "log1p", [":complex64"], dict(use_fast2sum=True)),
            ("numpy", "log1p", [":complex64"], dict(use_fast2sum=False)),
            ("stablehlo", "log", [":complex64"], dict(use_fast2sum=False)),
            ("numpy", "hypot", [":float32", ":float32"], dict(use_upcast_multiply=True)),
            ("numpy", "hypot", [":float32", ":float32"], dict(use_upcast_sqrt=True, use_upcast_multiply=True)),
            ("numpy", "square", [":complex64"], dict(use_native_square=True)),
            ("numpy", "acosh", [":float32"], dict(safe_max_limit_coefficient=0.5)),
            ("numpy", "asinh", [":float32"], dict(safe_min_limit=1e-3))]:
        reqs.append(dict(kind="algorithm", target=tname, func=func, sig=sig, parameters=params))
        plain = dict(kind="algorithm", target=tname, func=func, sig=sig)
        if not any(all(r.get(k) == v for k, v in plain.items()) and not r.get("parameters") and not r.get("debug") and not r.get("same_ctx_key") for r in reqs):
            reqs.append(plain)
    # printer parameters are part of a request too (Expr.tostring(target, **printer_parameters)): the same request with the
    # non-default value, in the same variant group as the plain one
    for tname, func, sig, pkw in [
            ("numpy", "square", [":float32"], dict(force_cast_arguments=False)),
            ("numpy", "hypot", [":float32", ":float32"], dict(force_cast_arguments=False)),
            ("python", "square", [":float"], dict(force_cast_arguments=True)),
            ("cpp", "square", [":float"], dict(force_cast_arguments=True))]:
        reqs.append(dict(kind="algorithm", target=tname, func=func, sig=sig, parameters={}, printer_kw=pkw))
        plain = dict(kind="algorithm", target=tname, func=func, sig=sig)
        if not any(all(r.get(k) == v for k, v in plain.items()) and not r.get("parameters") and not r.get("printer_kw") and not r.get("debug") and not r.get("same_ctx_key") for r in reqs):
            reqs.append(plain)
    # the implementation providers (Context(paths=[...])) are part of a request: two providers with the SAME __name__ but
    # different definitions of one operation (two revisions of a user module), each asked in a fresh context
    for rev in ("A", "B"):
        reqs.append(dict(kind="provider", target="python", func="square_user", sig=[":float"], provider=rev, parameters={}))
    return reqs


def tlc_histories(cfg, nreq_set, maxlen, chk, simulate=None, seed=0):
    wd = tlc.workdir()
    with open(os.path.join(tlc.SPEC, cfg)) as f:
        txt = f.read()
    txt = re.sub(r"Requests = \{[^}]*\}", "Requests = {%s}" % ", ".join(str(i) for i in nreq_set), txt)
    txt = re.sub(r"MaxLen = \d+", "MaxLen = %d" % maxlen, txt)
    p = os.path.join(wd, "pipe_%d_%s" % (maxlen, cfg))
    with open(p, "w") as f:
        f.write(txt)
    extra = []
    if simulate:
        extra = ["-simulate", "num=%d" % simulate, "-depth", str(maxlen + 2), "-seed", str(seed)]
    r = tlc.run("FAPipeline", p, workers=1, extra=extra, timeout=1800)
    if not simulate and not r.ok:
        raise tlc.MachineryError("FAPipeline history export failed:\n" + r.out[-1500:])
    chk.add_mc(cfg + (" -simulate" if simulate else ""), r)
    return [h[1] for h in tlaval.fast_tuples(r.out, "H")]


def run_seed(seed, alpha, histories, parallel):
    wd = tlc.workdir()
    jobs = os.path.join(wd, "c09_jobs_%s.json" % seed)
    out = os.path.join(wd, "c09_out_%s.json" % seed)
    with open(jobs, "w") as f:
        json.dump(dict(alphabet=alpha, histories=histories, parallel=parallel), f)
    env = dict(os.environ)
    env["PYTHONHASHSEED"] = str(seed)
    env["FA_REPO"] = REPO
    env["PATH"] = "/venv/bin:" + env.get("PATH", "")
    p = subprocess.Popen([sys.executable, "-m", "harness.c09_worker", jobs, out], cwd=tlc.VERIF, env=env,
                         stdout=subprocess.PIPE, stderr=subprocess.STDOUT, text=True)
    return p, out


def run(tier, seed):
    fa = import_repo()
    chk = Check(PID, tier, seed)
    quick = tier == "quick"
    # U1
    r = tlc.run("FAPipeline", "MC_Pipeline.cfg")
    chk.add_mc("MC_Pipeline.cfg", r)
    if not r.ok:
        chk.fail("model:" + "+".join(r.invariant_violated), "FAPipeline.tla violates its invariant", r.error_trace())
    alpha = alphabet(fa)
    n = len(alpha)
    # 8 cheap requests of different targets/kinds for the exhaustive histories
    def find(**kw):
        return next(i for i, a in enumerate(alpha) if all(a.get(k) == v for k, v in kw.items()))
    cheap = [find(target="python", func="square", sig=[":float"]) if any(a["target"] == "python" and a["func"] == "square" and a["sig"] == [":float"] for a in alpha) else find(target="python", func="square"),
             find(target="numpy", func="hypot"), find(target="cpp", func="absolute"), find(kind="user", target="python", func="two_hypots"),
             find(kind="user", target="stablehlo", func="two_hypots"), find(target="xla_client", func="square"),
             find(same_ctx_key="shared0"), find(kind="apmath_lax", func="two_sum")]
    cheap = sorted(set(cheap))
    rng = random.Random(seed)
    ex3 = tlc_histories("HIST_Pipeline.cfg", cheap, 3, chk)
    ex2 = tlc_histories("HIST_Pipeline.cfg", cheap, 2, chk)
    sim = tlc_histories("SIM_Pipeline.cfg", range(n), 40, chk, simulate=8 if quick else 64, seed=seed + 3)
    # requests that differ ONLY in their context parameters: every sequence of length <= 2 over each such pair
    # (a parameter value that sticks in process-global state shows when the pair is the whole history)
    def base(a):
        return json.dumps({k: v for k, v in a.items() if k not in ("parameters", "alldefs", "printer_kw", "provider")}, sort_keys=True)
    groups = {}
    for i, a in enumerate(alpha):
        if not a.get("debug") and not a.get("same_ctx_key") and a["kind"] in ("algorithm", "provider"):
            groups.setdefault(base(a), []).append(i)
    param_pairs = [g for g in groups.values() if len(g) >= 2 and any(alpha[i].get("parameters") or alpha[i].get("printer_kw") or alpha[i].get("provider") for i in g)]
    pairs_h = []
    for g in param_pairs:
        pairs_h += tlc_histories("HIST_Pipeline.cfg", g, 2, chk)
    chk.cov["parameter_variant_groups"] = len(param_pairs)
    full = list(range(n))
    seeds = [0, 1, 12345 + seed] if quick else [0, 1, 2, 3, 7, 42, 1000, 12345 + seed, 99991, 2 ** 31 - 1, 4242, 31337]
    plans = {}
    for k, s in enumerate(seeds):
        hs = [full, full[::-1]]
        sh = full[:]
        rng.shuffle(sh)
        hs.append(sh)
        hs += sim[k::len(seeds)] if not quick else sim[k * 2:k * 2 + 3]
        if k < 2 or not quick:
            hs += ex3 if (k == 0 or not quick) else ex2
        if k == 0 or not quick:
            hs += pairs_h
        plans[s] = hs
    procs = {s: run_seed(s, alpha, hs, 5 if quick else 3) for s, hs in plans.items()}
    events = []
    proc_id = 0
    for s, (p, out) in procs.items():
        stdout, _ = p.communicate()
        if p.returncode != 0 or not os.path.exists(out):
            raise tlc.MachineryError("C09 worker for seed %s failed:\n%s" % (s, (stdout or "")[-2000:]))
        with open(out) as f:
            res = json.load(f)["results"]
        for hi, hres in enumerate(res):
            proc_id += 1
            for pos, item in enumerate(hres):
                if item[0] == "crash":
                    raise tlc.MachineryError("C09 history crashed (seed %s, history %d)" % (s, hi))
                idx, kind, digest, length = item
                events.append(dict(id=len(events), proc=proc_id, seed=s, pos=pos, req=idx, digest=digest, kind=kind, length=length,
                                   hist=hi))
    nraise = len({e["req"] for e in events if e["kind"] == "raise"})
    chk.cov.update(requests=n, seeds=seeds, processes=proc_id, requests_that_raise=nraise)
    chk.sample(dict(request=alpha[events[0]["req"]], digest=events[0]["digest"], seed=events[0]["seed"]))
    chk.sample(dict(history=[alpha[i]["func"] + "/" + alpha[i]["target"] for i in plans[seeds[0]][-1]]))
    res = tlc.validate_events("Trace_Pipeline", "Trace.cfg", [dict(id=e["id"], req=e["req"], digest=e["digest"]) for e in events],
                              stateful=True, name="pipe")
    chk.add_trace("Trace_Pipeline", res, len(events), ntraces=proc_id)
    byid = {e["id"]: e for e in events}
    firsts = {}
    for e in events:
        firsts.setdefault(e["req"], e)
    for eid, clauses in res["fails"]:
        e = byid[eid]
        a = alpha[e["req"]]
        f0 = firsts[e["req"]]
        how = "seed" if f0["seed"] != e["seed"] and plans[f0["seed"]][f0["hist"]][:f0["pos"]] == plans[e["seed"]][e["hist"]][:e["pos"]] else "history"
        chk.fail("%s:%s:%s" % (a["target"], a["func"], how),
                 "request %s answered with different text: seed %s history %d pos %d (%s) vs seed %s history %d pos %d (%s)"
                 % (json.dumps(a), f0["seed"], f0["hist"], f0["pos"], f0["digest"][:12], e["seed"], e["hist"], e["pos"], e["digest"][:12]),
                 dict(request=a, first=dict(seed=f0["seed"], history=[alpha[i] for i in plans[f0["seed"]][f0["hist"]][:f0["pos"] + 1]]),
                      other=dict(seed=e["seed"], history=[alpha[i] for i in plans[e["seed"]][e["hist"]][:e["pos"] + 1]])))
    chk.assumptions += ["each request runs in a fresh Context (as results/update.py does) except the same_ctx_key requests, which repeat ONE request in one context",
                        "different functions traced into one shared context are not judged",
                        "exceptions are texts too (a request that raises must raise the same message everywhere)"]
    return chk.finish(rule="requests = every (function, signature) of trace_arguments for python/numpy/cpp/stablehlo/xla_client/lax, debug=1 "
                           "variants, user-defined composites, same-context repeats, apmath lax requests; histories from TLC "
                           "(all sequences of length 3 over 8 cheap requests; simulated length-40 sequences) plus forward/reverse/"
                           "shuffled full passes, per PYTHONHASHSEED; non-trivial = distinct requests generated in at least two "
                           "different (seed, preceding history) situations",
                      distinct_nontrivial=len({e["req"] for e in events if firsts[e["req"]] is not e}))


def replay(path):
    fa = import_repo()
    with open(path) as f:
        rp = json.load(f)["replay"]
    alpha = []
    out = []
    for side in ("first", "other"):
        hist = rp[side]["history"]
        idx = []
        for a in hist:
            if a not in alpha:
                alpha.append(a)
            idx.append(alpha.index(a))
        p, o = run_seed(rp[side]["seed"], alpha, [idx], 1)
        p.communicate()
        with open(o) as f:
            out.append(json.load(f)["results"][0][-1])
    print(out)
    if out[0][2] != out[1][2]:
        print("VIOLATION property=%s replay=%s  # digests differ" % (PID, path))
        return 1
    return 0
