"""C02 - real-line accuracy of every real algorithm (absolute, acos, acosh, asin, asinh, square, hypot).

The true values of the functions are SPECIFIED inside TLA+ (spec/Reals.tla: dyadic interval arithmetic over
BigInt limbs + series with explicit remainder bounds; spec/Accuracy.tla: each clause through the inverse
relation of the function) - nothing here computes a true value for a verdict.

U1: TLC checks the enclosure laws of Reals.tla on dyadic grids (MC_Reals.cfg / MC_Reals_deep.cfg): directed
    rounding against brute force, IMul/IDiv against their reference definitions, sin^2+cos^2 contains 1,
    expm1(a+b) vs product, cosh^2-sinh^2, sqrt(sqr), log1p(expm1 x) contains x, atan/atan2 relations, nestedness
    under widening, monotonicity along the grid, the constants ln 2 / pi against the series;  and the clause
    machinery of Accuracy.tla on a toy format, ALL inputs x ALL outputs (MC_Accuracy.cfg 6-bit / _p4.cfg 8-bit):
    for square/absolute/hypot "within N" agrees with the plain definition through IEEE!RN; for asin/acos/asinh/
    acosh the accepted outputs form a contiguous block of 2N+1 (2N+2 on a tie) lattice points and equal
    {RN(pi/2)}, {RN(pi)}, {RN(pi/6)}, {RN(ln 2)} ... at the points where the true value is a proved constant.
U2: TLC enumerates the boundary-directed input shapes (AccuracyShapes: every switch point / edge of the real
    algorithms +- k lattice steps, both signs; hypot pair shapes) and concretises them for float32/float64.
U3: the package's own generated implementation (harness/evalalgo.get_function: the NumPy-target text printed
    by the package, exec'd) is evaluated on (a) inputs drawn uniformly over the non-NaN bit patterns
    (stratified by exponent field), (b) inputs drawn uniformly over the bit patterns of the domain pieces
    (|x| <= 1 for asin/acos, x >= 1 for acosh, binades around the switch points, equal-exponent hypot pairs),
    (c) the U2 shapes, (d) the worst inputs found by a heuristic error-maximising screen (the implementation
    against NumPy one precision higher; exhaustive over float32 in the thorough tier; it only chooses inputs).
    Each evaluation is one event (raw bit patterns) judged by Trace_Accuracy.tla.
    The 3-ULP statistic is counted by the spec's notes over (a) only and judged by a final "rate" event.

The driver never decides a clause.  Floats in messages are descriptive.
"""
import collections
import json
import os
import random
import sys
import time

import numpy

from .. import tlc, tlaval, bits, evalalgo
from ..common import Check, import_repo

PID = "C02"
FNS = ["absolute", "acos", "acosh", "asin", "asinh", "square", "hypot"]
FMTS = ["float32", "float64"]
EXPECTED_MC = {  # constants of the MC_Reals cfgs: the driver recomputes the number of (law, point, width) instances
    "MC_Reals.cfg": dict(GridN=24, GridK=6, nW=2),
    "MC_Reals_deep.cfg": dict(GridN=96, GridK=16, nW=4),
}
N_UNARY_LAWS, N_BINARY_LAWS = 9, 6


# ------------------------------------------------------------------------------------------------ inputs
def sign_bit(fmt):
    return 1 << (bits.WIDTH[fmt] - 1)


def inf_mag(fmt):
    return ((1 << (bits.WIDTH[fmt] - bits.PREC[fmt])) - 1) << (bits.PREC[fmt] - 1)


def one_mag(fmt):
    return bits.EMAX[fmt] << (bits.PREC[fmt] - 1)


def uniform_patterns(fmt, n, rng):
    """n non-NaN patterns, uniform over bit patterns: sign and fraction random, exponent field stratified
    (every finite exponent field value equally often - proportional stratification keeps the distribution
    uniform; the two infinities have measure 2^-(p-1) of a binade and are part of the boundary set)."""
    w, p = bits.WIDTH[fmt], bits.PREC[fmt]
    nexp = (1 << (w - p)) - 1
    off = rng.randrange(nexp)
    return [(rng.getrandbits(1) << (w - 1)) | (((i + off) % nexp) << (p - 1)) | rng.getrandbits(p - 1) for i in range(n)]


def pat(v, fmt):
    return bits.fbits_int(bits.FLOAT[fmt](v), fmt)


def domain_patterns(fn, fmt, n, rng):
    """Inputs aimed at the pieces where the function is defined and at the binades around its switch points
    (uniform over bit patterns within each piece).  Not part of the rate sample."""
    sb, p = sign_bit(fmt), bits.PREC[fmt]
    one, inf = one_mag(fmt), inf_mag(fmt)
    fi = numpy.finfo(bits.FLOAT[fmt])
    out = []

    def draw(lo, hi, k, signs=(0, 1)):
        for _ in range(k):
            out.append(rng.randrange(lo, hi + 1) | (sb if rng.choice(signs) else 0))

    if fn in ("asin", "acos"):
        draw(0, one, n // 2)                                      # whole domain
        draw(pat(0.25, fmt), one, n // 4)                         # where the (1-x)(1+x) form matters
        draw(one - (1 << (p - 1)) // 64, one, n - len(out))       # the last 1/64 binade below 1
    elif fn == "acosh":
        draw(one, inf - 1, n // 3, signs=(0,))
        draw(one, pat(2.0, fmt), n // 3, signs=(0,))              # near 1: sqrt(x-1) cancellation region
        draw(one, one + (1 << (p - 1)) // 64, n // 6, signs=(0,))
        draw(inf - 1 - 3 * (1 << (p - 1)), inf - 1, n - len(out), signs=(0,))   # top binades: the largest/2 switch
    elif fn == "asinh":
        sq = pat(numpy.sqrt(fi.max), fmt)
        draw(pat(2.0 ** (-(p // 2) - 3), fmt), pat(4.0, fmt), n // 2)          # where log1p's argument is not just x
        draw(sq - 2 * (1 << (p - 1)), sq + 2 * (1 << (p - 1)), n // 4)         # around the sqrt(largest) switch
        draw(0, inf - 1, n - len(out))
    elif fn == "square":
        sq = pat(numpy.sqrt(fi.max), fmt)
        lo = pat(numpy.sqrt(fi.smallest_subnormal), fmt)
        draw(lo - 2 * (1 << (p - 1)), lo + (p + 2) * (1 << (p - 1)), n // 2)   # result subnormal / underflowing
        draw(sq - 2 * (1 << (p - 1)), sq + (1 << (p - 1)), n - len(out))       # overflow edge
    elif fn == "absolute":
        draw(0, inf - 1, n)
    else:
        raise AssertionError(fn)
    return out


def hypot_domain_pairs(fmt, n, rng):
    """Pairs with close exponents (the uniform sample almost always has |x| >> |y| or the reverse)."""
    sb, p = sign_bit(fmt), bits.PREC[fmt]
    inf = inf_mag(fmt)
    xs, ys = [], []
    nexp = (1 << (bits.WIDTH[fmt] - p)) - 1
    for i in range(n):
        e = rng.randrange(nexp)
        u = rng.random()
        if u < 0.5:
            d = rng.randint(-3, 3)
        elif u < 0.85:
            d = rng.randint(-(p + 4), p + 4)
        else:
            d = rng.choice([-(p // 2) - 1, -(p // 2), -(p // 2) + 1, (p // 2) - 1, p // 2, (p // 2) + 1])
        e2 = min(max(e + d, 0), nexp - 1)
        xs.append((e << (p - 1)) | rng.getrandbits(p - 1) | (sb if rng.getrandbits(1) else 0))
        ys.append((e2 << (p - 1)) | rng.getrandbits(p - 1) | (sb if rng.getrandbits(1) else 0))
    return xs, ys


def export_shapes(tier, chk):
    cfg = "AccuracyShapes_quick.cfg" if tier == "quick" else "AccuracyShapes.cfg"
    r = tlc.run("AccuracyShapes", cfg, workers=2, timeout=1800)
    if not r.ok:
        raise tlc.MachineryError("shape enumeration failed:\n" + r.out[-2000:])
    chk.add_mc(cfg, r)
    unary = collections.defaultdict(list)       # (fn, fmt) -> [(pattern, shape)]
    pairs = collections.defaultdict(list)       # fmt -> [(x, y, shape)]
    nshapes = 0
    for h in tlaval.printed_values(r.out, "H"):
        shape, fns, b32, b64 = h[1], h[2]["__set__"], h[3], h[4]
        for fmt, b in (("float32", b32), ("float64", b64)):
            if b == [-1]:
                continue
            nshapes += 1
            for fn in fns:
                unary[(fn, fmt)].append((bits.unnat(b), shape))
    for h in tlaval.printed_values(r.out, "P"):
        shape = h[1]
        for fmt, b in (("float32", h[2]), ("float64", h[3])):
            if b[0] == [-1] or b[1] == [-1]:
                continue
            nshapes += 1
            pairs[fmt].append((bits.unnat(b[0]), bits.unnat(b[1]), shape))
    if nshapes < 1000 or not all(unary[(fn, fmt)] for fn in FNS[:-1] for fmt in FMTS) or not all(pairs[f] for f in FMTS):
        raise tlc.MachineryError("shape enumeration produced too little (%d)" % nshapes)
    return unary, pairs, nshapes


# ------------------------------------------------------------------------------------------------ evaluation
def evaluate(fn, fmt, xs, ys=None):
    """Bit patterns of the generated implementation's results on the given input bit patterns."""
    f = evalalgo.get_function(fn, fmt)
    x = numpy.array(xs, dtype=bits.UINT[fmt]).view(bits.FLOAT[fmt])
    if ys is None:
        r = f(x)
    else:
        r = f(x, numpy.array(ys, dtype=bits.UINT[fmt]).view(bits.FLOAT[fmt]))
    r = numpy.ascontiguousarray(r)
    if r.dtype != numpy.dtype(bits.FLOAT[fmt]):
        raise tlc.MachineryError("%s(%s) returned dtype %s" % (fn, fmt, r.dtype))
    return [int(v) for v in r.view(bits.UINT[fmt])]


def fl(b, fmt):
    return float(bits.from_bits_int(b, fmt))


def region(fn, fmt, xb, yb=None):
    """Descriptive label of the branch / region of the algorithm an input falls in (used in failure KEYS
    only: a finding is identified by function, format, region and clause - never a verdict)."""
    fi = numpy.finfo(bits.FLOAT[fmt])
    p = bits.PREC[fmt]
    x = abs(fl(xb, fmt))
    if fn == "hypot":
        y = abs(fl(yb, fmt))
        mx, mn = max(x, y), min(x, y)
        if numpy.isinf(mx):
            return "inf"
        if mx == 0:
            return "zero"
        if mx == mn:
            return "equal"
        sub = "sub:" if mn < float(fi.smallest_normal) else ""
        q = mn / mx
        if mx * 1.0000001 >= float(fi.max) / 1.5:
            return sub + "near_overflow"
        if q * q < 2.0 ** -(p + 1):
            return sub + "tiny_ratio"
        return sub + "general"
    if numpy.isinf(x):
        return "inf"
    if x == 0:
        return "zero"
    sub = x < float(fi.smallest_normal)
    if fn in ("asin", "acos"):
        return "sub" if sub else "|x|<2^-p/2" if x < 2.0 ** -(p // 2) else "|x|<0.5" if x < 0.5 else "0.5<=|x|<1" if x < 1 else "|x|=1" if x == 1 else "|x|>1"
    if fn == "asinh":
        sq = float(numpy.sqrt(fi.max))
        return "sub" if sub else "|x|<2^-p/2" if x < 2.0 ** -(p // 2) else "|x|<1" if x < 1 else "1<=|x|<sqrt_largest" if x < sq else "|x|>=sqrt_largest"
    if fn == "acosh":
        if fl(xb, fmt) < 1:
            return "x<1"
        return "x=1" if x == 1 else "1<x<1.5" if x < 1.5 else "1.5<=x<largest/2" if x < float(fi.max) / 2 else "x>=largest/2"
    if fn == "square":
        sq = float(numpy.sqrt(fi.max))
        return "overflow" if x > sq else "underflow" if x * x < float(fi.smallest_normal) else "normal"
    return "sub" if sub else "normal"



# ------------------------------------------------------------------------------------------------ error-maximising screen
# A HEURISTIC pre-screen that only CHOOSES inputs: the generated implementation is compared with NumPy's own
# function evaluated one precision higher (float64 for float32 inputs, x87 long double for float64 inputs) and
# the inputs with the largest apparent lattice distance are handed to TLC, which alone judges them.  The
# reference of the screen is not trusted for any verdict; if it were wrong the only consequence would be a
# less adversarial choice of inputs.  In the thorough tier the float32 screen is EXHAUSTIVE over the domain of
# asin, acos, asinh, acosh (7.5e9 evaluations), so every float32 input whose apparent distance is >= 3 is judged.
SCREEN_REF = {"asin": numpy.arcsin, "acos": numpy.arccos, "asinh": numpy.arcsinh, "acosh": numpy.arccosh}
WIDER = {"float32": numpy.float64, "float64": numpy.longdouble}
SINT = {"float32": numpy.int32, "float64": numpy.int64}


def _ordinal(a, fmt):
    i = a.view(SINT[fmt]).astype(numpy.int64)
    mask = numpy.int64((1 << (bits.WIDTH[fmt] - 1)) - 1)
    return numpy.where(i < 0, -(i & mask), i)


def _apparent_distance(fn, fmt, x, y=None):
    f = evalalgo.get_function(fn, fmt)
    wide = WIDER[fmt]
    with numpy.errstate(all="ignore"):
        if y is None:
            r = f(x)
            c = SCREEN_REF[fn](x.astype(wide)).astype(bits.FLOAT[fmt])
        else:
            r = f(x, y)
            xw, yw = x.astype(wide), y.astype(wide)
            c = numpy.sqrt(xw * xw + yw * yw).astype(bits.FLOAT[fmt])
    r = numpy.ascontiguousarray(r, dtype=bits.FLOAT[fmt])
    d = numpy.abs(_ordinal(r, fmt) - _ordinal(numpy.ascontiguousarray(c), fmt))
    rn, cn = numpy.isnan(r), numpy.isnan(c)
    d = numpy.where(rn & cn, 0, d)
    d = numpy.where(rn ^ cn, 11, d)
    return numpy.minimum(d, 11)


def _random_pairs(fmt, n, g):
    p, w = bits.PREC[fmt], bits.WIDTH[fmt]
    nexp = (1 << (w - p)) - 1
    ut = bits.UINT[fmt]
    e = g.integers(0, nexp, size=n)
    u = g.random(n)
    d = numpy.where(u < 0.5, g.integers(-3, 4, size=n),
                    numpy.where(u < 0.85, g.integers(-(p + 4), p + 5, size=n),
                                (p // 2) * g.choice([-1, 1], size=n) + g.integers(-1, 2, size=n)))
    e2 = numpy.clip(e + d, 0, nexp - 1)
    mant = lambda: g.integers(0, 1 << (p - 1), size=n, dtype=numpy.uint64)
    sign = lambda: g.integers(0, 2, size=n, dtype=numpy.uint64) << numpy.uint64(w - 1)
    xs = (e.astype(numpy.uint64) << numpy.uint64(p - 1)) | mant() | sign()
    ys = (e2.astype(numpy.uint64) << numpy.uint64(p - 1)) | mant() | sign()
    return xs.astype(ut), ys.astype(ut)


def _screen_work(task):
    """One task of the screen (runs in a forked worker): -> (index, histogram of apparent distances 0..11,
    candidates with distance >= 4, a capped random subset of the candidates with distance 3)."""
    idx, fn, fmt, mode, lo, hi, n, seed, cap3 = task
    g = numpy.random.default_rng(seed)
    ut = bits.UINT[fmt]
    hist = numpy.zeros(12, dtype=numpy.int64)
    c4, c3 = [], []
    block = 1 << 21
    done = 0
    total = (hi - lo) if mode == "range" else n
    while done < total:
        k = min(block, total - done)
        ys = None
        if mode == "range":
            xs = numpy.arange(lo + done, lo + done + k, dtype=numpy.uint64).astype(ut)
        elif mode == "random":
            xs = g.integers(lo, hi, size=k, dtype=numpy.uint64).astype(ut)
        else:
            xs, ys = _random_pairs(fmt, k, g)
        d = _apparent_distance(fn, fmt, xs.view(bits.FLOAT[fmt]), None if ys is None else ys.view(bits.FLOAT[fmt]))
        hist += numpy.bincount(d, minlength=12)
        for level, acc in ((4, c4), (3, c3)):
            ii = numpy.nonzero(d >= 4)[0] if level == 4 else numpy.nonzero(d == 3)[0]
            for i in ii[:4000]:
                acc.append((int(xs[i]),) if ys is None else (int(xs[i]), int(ys[i])))
        done += k
    if len(c3) > cap3:
        c3 = [c3[i] for i in sorted(g.choice(len(c3), size=cap3, replace=False))]
    return idx, hist, c4, c3


def screen_tasks(tier, seed):
    rng = random.Random(seed + 2)
    tasks = []
    for fmt in FMTS:
        sb, one, inf = sign_bit(fmt), one_mag(fmt), inf_mag(fmt)
        pieces = {"asin": [(0, one + 1), (sb, sb + one + 1)], "acos": [(0, one + 1), (sb, sb + one + 1)],
                  "asinh": [(0, inf), (sb, sb + inf)], "acosh": [(one, inf)]}
        for fn in ("asin", "acos", "asinh", "acosh"):
            for lo, hi in pieces[fn]:
                if fmt == "float32":
                    nt = 64
                    edges = [lo + (hi - lo) * i // nt for i in range(nt + 1)]
                    for i in range(nt):
                        a, b2 = edges[i], edges[i + 1]
                        if tier == "quick":                      # one stripe of 1/32 of each of the 64 blocks
                            ln = max(1, (b2 - a) // 32)
                            a = rng.randrange(a, b2 - ln + 1)
                            b2 = a + ln
                        tasks.append((fn, fmt, "range", a, b2, 0, rng.getrandbits(32), 100 if tier == "quick" else 4000))
                else:
                    n = (1 << 20) if tier == "quick" else (1 << 24)
                    for i in range(8):
                        tasks.append((fn, fmt, "random", lo, hi, n // 8, rng.getrandbits(32), 40 if tier == "quick" else 1500))
        n = (1 << 21) if tier == "quick" else (1 << 26)
        for i in range(16):
            tasks.append(("hypot", fmt, "pairs", 0, 0, n // 16, rng.getrandbits(32), 20 if tier == "quick" else 1000))
    return [(i,) + t for i, t in enumerate(tasks)]


def run_screen(tier, seed):
    """-> ({(fn, fmt): dict(hist=[...], cand4=[...], cand3=[...], evaluated=n)})"""
    import multiprocessing
    for fn in FNS:
        for fmt in FMTS:
            evalalgo.get_function(fn, fmt)              # build before forking
    tasks = screen_tasks(tier, seed)
    res = {}
    with multiprocessing.get_context("fork").Pool(tlc.NCPU) as pool:
        out = sorted(pool.imap_unordered(_screen_work, tasks), key=lambda r: r[0])
    for (idx, hist, c4, c3), t in zip(out, tasks):
        k = (t[1], t[2])
        e = res.setdefault(k, dict(hist=numpy.zeros(12, dtype=numpy.int64), cand4=[], cand3=[]))
        e["hist"] += hist
        e["cand4"] += c4
        e["cand3"] += c3
    for e in res.values():
        e["evaluated"] = int(e["hist"].sum())
        e["hist"] = [int(v) for v in e["hist"]]
    return res


class Batch:
    """Accumulates events; ids are global so that failures map back to (fn, fmt, input, source)."""

    def __init__(self):
        self.events = []
        self.meta = []          # id -> (fn, fmt, xb, yb, wb, src, shape)

    def add(self, fn, fmt, xs, ys, src, shapes=None):
        if not xs:
            return
        ws = evaluate(fn, fmt, xs, ys)
        for i, xb in enumerate(xs):
            eid = len(self.events)
            ev = dict(id=eid, fn=fn, fmt=fmt, x=bits.nat(xb), w=bits.nat(ws[i]))
            yb = None
            if ys is not None:
                yb = ys[i]
                ev["y"] = bits.nat(yb)
            self.events.append(ev)
            self.meta.append((fn, fmt, xb, yb, ws[i], src, shapes[i] if shapes else None))


def describe(m):
    fn, fmt, xb, yb, wb, src, shape = m
    args = "%r" % fl(xb, fmt) if yb is None else "%r, %r" % (fl(xb, fmt), fl(yb, fmt))
    pats = "0x%x" % xb if yb is None else "0x%x, 0x%x" % (xb, yb)
    return "%s[%s](%s) = %r  (patterns %s -> 0x%x; %s%s)" % (fn, fmt, args, fl(wb, fmt), pats, wb, src,
                                                            " " + json.dumps(shape) if shape else "")


def parse_notes(s):
    return set(tlaval.parse(s)["__set__"]) if s.startswith("{") else tlaval.parse(s)


def exact_binomial_threshold(n, p=1e-5, alpha=0.01):
    """Smallest k with P[Bin(n, p) >= k + 1] <= alpha (mpmath, informational: the spec derives its own
    threshold from a proved tail bound, which can only be equal or larger)."""
    import mpmath
    with mpmath.workdps(60):
        q = mpmath.mpf(1) - p
        term = q ** n                      # P[X = 0]
        cdf = mpmath.mpf(0)
        k = 0
        while True:
            cdf += term                    # P[X <= k]
            if 1 - cdf <= alpha:
                return k
            term = term * (n - k) * p / ((k + 1) * q)
            k += 1


# ------------------------------------------------------------------------------------------------ the check
def run_u1(chk, tier):
    cfg = "MC_Reals.cfg" if tier == "quick" else "MC_Reals_deep.cfg"
    r = tlc.run("MC_Reals", cfg, timeout=3000)
    chk.add_mc(cfg, r)
    c = EXPECTED_MC[cfg]
    npts = 2 * c["GridN"] + 1
    expected = (N_UNARY_LAWS * npts + N_BINARY_LAWS * npts * (2 * c["GridK"] + 1)) * c["nW"]
    if r.invariant_violated:
        # the enclosure layer breaks one of its own laws: nothing built on it can be trusted
        raise tlc.MachineryError("Reals.tla violates an enclosure law (%s):\n%s" % (cfg, r.error_trace()[:1500]))
    if not r.ok:
        raise tlc.MachineryError("MC_Reals did not complete:\n" + r.out[-2000:])
    if r.distinct != expected + 1 + 64:
        raise tlc.MachineryError("MC_Reals explored %d states, expected %d (law x point x width, + root + 64 group states)"
                                 % (r.distinct, expected + 65))
    chk.cov["u1_law_instances"] = expected
    # the clause machinery of Accuracy.tla on a toy format, all inputs x all outputs
    cfg = "MC_Accuracy.cfg" if tier == "quick" else "MC_Accuracy_p4.cfg"
    r = tlc.run("MC_Accuracy", cfg, timeout=3000)
    chk.add_mc(cfg, r)
    if r.invariant_violated:
        raise tlc.MachineryError("Accuracy.tla disagrees with the direct definition on the toy format (%s):\n%s"
                                 % (cfg, r.error_trace()[:1500]))
    work = [v for v in tlaval.printed_values(r.out, "WORK")]
    if not r.ok or not work or r.distinct != work[0][1] + 1 + 32:
        raise tlc.MachineryError("MC_Accuracy did not complete / explored %d states, work %s:\n%s" % (r.distinct, work, r.out[-1500:]))
    chk.cov["u1_accuracy_toy_cases"] = work[0][1]


def sizes(tier):
    if tier == "quick":
        return dict(uniform=3000, domain=1500, hypot_uniform=3000, hypot_domain=2500)
    return dict(uniform=50000, domain=12000, hypot_uniform=60000, hypot_domain=40000)


def build_batch(tier, seed, unary_shapes, pair_shapes, screened):
    rng = random.Random(seed)
    sz = sizes(tier)
    b = Batch()
    for (fn, fmt), e in sorted(screened.items()):
        cands = e["cand4"] + e["cand3"]
        b.add(fn, fmt, [c[0] for c in cands], [c[1] for c in cands] if fn == "hypot" else None, "screen")
    for fmt in FMTS:
        for fn in FNS:
            if fn == "hypot":
                n = sz["hypot_uniform"]
                b.add(fn, fmt, uniform_patterns(fmt, n, rng), uniform_patterns(fmt, n, rng), "uniform")
                xs, ys = hypot_domain_pairs(fmt, sz["hypot_domain"], rng)
                b.add(fn, fmt, xs, ys, "domain")
                sh = pair_shapes[fmt]
                b.add(fn, fmt, [s[0] for s in sh], [s[1] for s in sh], "shape", [s[2] for s in sh])
            else:
                b.add(fn, fmt, uniform_patterns(fmt, sz["uniform"], rng), None, "uniform")
                b.add(fn, fmt, domain_patterns(fn, fmt, sz["domain"] if fn != "absolute" else sz["domain"] // 4, rng), None, "domain")
                sh = unary_shapes[(fn, fmt)]
                b.add(fn, fmt, [s[0] for s in sh], None, "shape", [s[1] for s in sh])
    return b


def run(tier, seed):
    import_repo()
    chk = Check(PID, tier, seed)
    # U1
    run_u1(chk, tier)
    # U2
    unary_shapes, pair_shapes, nshapes = export_shapes(tier, chk)
    # U3
    for fn in FNS:
        for fmt in FMTS:
            try:
                evalalgo.get_function(fn, fmt)
            except evalalgo.NotAvailable as ex:
                raise tlc.MachineryError("the package has no real algorithm %s(%s): %s" % (fn, fmt, ex))
    t0 = time.time()
    screened = run_screen(tier, seed)
    t_screen = time.time() - t0
    t0 = time.time()
    b = build_batch(tier, seed, unary_shapes, pair_shapes, screened)
    t_eval = time.time() - t0
    # the cost of an event depends on (function, format): shuffle so that the 16 TLC processes finish together
    order = list(b.events)
    random.Random(seed + 1).shuffle(order)
    res = tlc.validate_events("Trace_Accuracy", "Trace.cfg", order, name="acc", chunk=None if tier == "quick" else 16000)
    chk.add_trace("Trace_Accuracy", res, len(b.events))
    stats = collections.defaultdict(collections.Counter)      # (fn, fmt) -> counters
    for m in b.meta:
        stats[(m[0], m[1])]["events"] += 1
        stats[(m[0], m[1])]["events_" + m[5]] += 1
    for eid, s in res["notes"]:
        m = b.meta[eid]
        for note in parse_notes(s):
            stats[(m[0], m[1])][note] += 1
            stats[(m[0], m[1])][note + "_" + m[5]] += 1
            if note == "beyond3" and len(chk.samples) < 4:
                chk.sample(dict(beyond_3_ulp=describe(m)))
    for eid, clauses in res["fails"]:
        m = b.meta[eid]
        fn, fmt, xb, yb, wb, src, shape = m
        sev = [c for c in clauses if c.startswith("sev_")]
        cl = [c for c in clauses if not c.startswith("sev_")]
        key = "%s:%s:%s:%s" % (fn, fmt, region(fn, fmt, xb, yb), "+".join(cl + sev))
        stats[(fn, fmt)]["failing"] += 1
        chk.fail(key, "%s violates %s" % (describe(m), clauses),
                 dict(fn=fn, fmt=fmt, x=xb, y=yb, w_observed=wb, clauses=clauses, source=src, shape=shape))
    # the 3-ULP rate: counted over the uniform sample only, judged by the spec
    rate_events, rate_meta = [], []
    for fn in FNS:
        for fmt in FMTS:
            st = stats[(fn, fmt)]
            n, k3 = st["events_uniform"], st["beyond3_uniform"]
            rate_events.append(dict(id=len(rate_events), fn="rate", n=bits.nat(n), k3=bits.nat(k3)))
            rate_meta.append((fn, fmt, n, k3))
    rres = tlc.validate_events("Trace_Accuracy", "Trace.cfg", rate_events, nproc=1, name="rate")
    chk.add_trace("Trace_Accuracy(rate)", rres, len(rate_events))
    thr = {}
    for eid, s in rres["notes"]:
        v = parse_notes(s)
        if isinstance(v, list) and v and v[0] == "threshold":
            thr[eid] = v[1]
    if len(thr) != len(rate_events):
        raise tlc.MachineryError("rate events without a threshold note: %s" % rres["notes"][:3])
    for eid, clauses in rres["fails"]:
        fn, fmt, n, k3 = rate_meta[eid]
        chk.fail("%s:%s:rate3" % (fn, fmt),
                 "%s[%s]: %d of %d uniformly drawn inputs exceed 3 ULP; more than the %d that a rate <= 1e-5 allows at the 99%% level"
                 % (fn, fmt, k3, n, thr[eid]), dict(fn=fn, fmt=fmt, n=n, k3=k3, threshold=thr[eid], tier=tier, seed=seed))
    per = {}
    for i, (fn, fmt, n, k3) in enumerate(rate_meta):
        st = stats[(fn, fmt)]
        exact_thr = exact_binomial_threshold(n)
        if exact_thr > thr[i]:
            raise tlc.MachineryError("spec threshold %d below the exact binomial threshold %d (n=%d)" % (thr[i], exact_thr, n))
        per["%s:%s" % (fn, fmt)] = dict(
            events=st["events"], uniform=n, domain=st["events_domain"], shapes=st["events_shape"], screened=st["events_screen"],
            beyond3_uniform=k3, beyond3_rate_uniform=(k3 / n if n else None), beyond3_all=st["beyond3"],
            rate3_threshold_spec=thr[i], rate3_threshold_exact_binomial=exact_thr,
            undecided=st["undecided"], undecided3=st["undecided3"], inexact=st["inexact"], zero_sign=st["zero_sign"],
            failing=st["failing"])
    chk.cov["per_function"] = per
    chk.cov["undecided_total"] = sum(v["undecided"] + v["undecided3"] for v in per.values())
    chk.cov["shapes_enumerated_by_TLC"] = nshapes
    chk.cov["eval_wall_s"] = round(t_eval, 2)
    chk.cov["screen"] = dict(
        note="HEURISTIC error-maximising pre-screen (reference: NumPy one precision higher); it only chooses inputs for TLC. "
             "hist[d] = inputs whose apparent lattice distance is d (11 = more / NaN mismatch); float32 asin/acos/asinh/acosh: "
             + ("EXHAUSTIVE over the domain" if tier != "quick" else "1/32 of the domain (random stripes)")
             + "; float64 and hypot: random. judged = candidates handed to Trace_Accuracy (all with distance >= 4, "
             "and all / a capped random subset with distance 3); confirmed_beyond3 = those TLC proved beyond 3 ULP",
        wall_s=round(t_screen, 2),
        per_function={"%s:%s" % k: dict(evaluated=e["evaluated"], hist=e["hist"], judged=len(e["cand4"]) + len(e["cand3"]),
                                        judged_distance_ge4=len(e["cand4"]),
                                        confirmed_beyond3=stats[k]["beyond3_screen"]) for k, e in sorted(screened.items())})
    chk.cov["quantifier_note"] = ("the statement's 'exhaustive in float32' (2^32 inputs x 6 functions) is out of reach of TLC "
                                  "(measured throughput below); achieved: sampled + boundary-directed, counts above")
    chk.cov["throughput_events_per_s"] = round(len(b.events) / max(res["wall"], 1e-9))
    some = [m for m in b.meta if m[5] == "shape"][:: max(1, len(b.meta) // 40)][:3]
    for m in some:
        chk.sample(dict(event=describe(m)))
    chk.assumptions += [
        "the implementation evaluated is the package's NumPy-target text of each real algorithm (evalalgo.get_function), "
        "with NumPy's native sqrt/log/log1p/arctan2 as the target's primitives, on this machine's NumPy build",
        "ties of the rounding cells are accepted in both directions (closed cells)",
        "the sign of an exact zero result is not demanded (statement silent); unexpected signs are counted as zero_sign",
        "a comparison undecided after one widening of the working width (96->192 / 160->320 bits) never alarms; counted",
        "rate clause: alarm only if the count over the uniform sample exceeds the 99% one-sided binomial threshold "
        "for rate 1e-5 (threshold derived in Accuracy.tla from a proved tail bound); boundary-directed inputs excluded",
    ]
    nontrivial = sum(1 for m in b.meta if region(m[0], m[1], m[2], m[3]) not in ("inf", "zero", "|x|>1", "x<1"))
    return chk.finish(rule="one event per evaluation of the generated implementation; non-trivial = events whose verdict "
                           "needs the ulp clause (finite non-zero input inside the domain), i.e. at least one enclosure "
                           "or exact dyadic comparison in TLC",
                      distinct_nontrivial=nontrivial)


def replay(path):
    import_repo()
    with open(path) as f:
        rp = json.load(f)["replay"]
    if "n" in rp and "k3" in rp:
        print("rate finding: re-run `./check C02 --tier %s --seed %s`" % (rp.get("tier", "quick"), rp.get("seed", 0)))
        return 1
    b = Batch()
    b.add(rp["fn"], rp["fmt"], [rp["x"]], [rp["y"]] if rp.get("y") is not None else None, "replay")
    res = tlc.validate_events("Trace_Accuracy", "Trace.cfg", b.events, nproc=1)
    print(describe(b.meta[0]))
    for eid, s in res["notes"]:
        print("notes: %s" % s)
    for eid, clauses in res["fails"]:
        print("VIOLATION property=%s replay=%s  # %s violates %s" % (PID, path, describe(b.meta[eid]), clauses))
    return 1 if res["fails"] else 0


# ------------------------------------------------------------------------------------------------ self-test
def _dy(man, exp):
    return [[1 if man < 0 else 0, bits.nat(abs(man))], exp]


def _mp_of(man, exp):
    import mpmath
    return mpmath.ldexp(mpmath.mpf(man), exp)


def _dy_of_mpf(v):
    s, man, exp, bc = v._mpf_
    man = int(man)
    return _dy(-man if s else man, int(exp)) if man else _dy(0, 0)


def _rand_point(fn, rng, moderate):
    """A random dyadic point of the domain of fn (mantissa of 1..80 bits); moderate: exponents within +-60
    (used for the pure-TLA+ run, where 1000-bit shifts cost seconds)."""
    nb = rng.choice([1, 8, 24, 53, 80])
    man = rng.getrandbits(nb) | (1 << (nb - 1))
    big = 60 if moderate else 1100
    sgn = rng.choice([-1, 1])
    if fn in ("expm1", "exp", "sinh", "cosh", "coshm1"):
        lead = rng.choice([rng.randint(-big, -30), rng.randint(-30, 3), rng.randint(-4, 10)])
    elif fn in ("sin", "cos"):
        lead = rng.choice([rng.randint(-big, -30), rng.randint(-30, 3), rng.randint(-2, 8), rng.randint(0, min(big, 1000))])
    elif fn == "atan":
        lead = rng.choice([rng.randint(-big, -30), rng.randint(-8, 8), rng.randint(-3, 3), rng.randint(8, big)])
    elif fn in ("log", "sqrt"):
        lead = rng.choice([rng.randint(-big, big), rng.randint(-3, 3), 0, -1])
        sgn = 1
    elif fn == "log1p":
        lead = rng.choice([rng.randint(-big, -20), rng.randint(-20, 2), rng.randint(-3, 0), rng.randint(0, big)])
        if sgn < 0 and lead >= 0:
            lead = -1
    else:
        raise AssertionError(fn)
    exp = lead - (nb - 1)
    if fn == "log" and rng.random() < 0.2:
        k = rng.randint(1, 200 if not moderate else 60)
        man, exp = (1 << k) + rng.choice([-1, 1]), -k
    if fn == "log1p" and rng.random() < 0.1:
        k = rng.randint(1, 200 if not moderate else 60)
        man, exp, sgn = -((1 << k) - 1), -k, 1
    return sgn * man, exp


SELFTEST_FNS = ["expm1", "exp", "sinh", "coshm1", "cosh", "sin", "cos", "atan", "log", "log1p", "sqrt",
                "atan2", "div", "mul", "add",
                "sin_i", "cos_i", "expm1_i", "log_i", "atan_i", "sinh_i", "coshm1_i"]


def selftest_events(fns, n, W, seed, show=False, moderate=False):
    """Events for Trace_Reals.tla: the reference is mpmath at 400 bits (more when the argument of sin/cos is
    huge) - a test of MY machinery, never a verdict about the package."""
    import mpmath
    MP = {"expm1": mpmath.expm1, "exp": mpmath.exp, "sinh": mpmath.sinh, "cosh": mpmath.cosh,
          "coshm1": lambda x: 2 * mpmath.sinh(x / 2) ** 2, "sin": mpmath.sin, "cos": mpmath.cos, "atan": mpmath.atan,
          "log": mpmath.log, "log1p": mpmath.log1p, "sqrt": mpmath.sqrt}
    rng = random.Random(seed)
    evs = []
    with mpmath.workprec(400):
        for fn in fns:
            base = fn[:-2] if fn.endswith("_i") else fn
            for _ in range(n):
                if base in ("atan2", "div", "mul", "add"):
                    (m1, e1), (m2, e2) = _rand_point("atan", rng, moderate), _rand_point("atan", rng, moderate)
                    if rng.random() < 0.6:
                        e2 = e1 + rng.randint(-3, 3) + (m1.bit_length() - m2.bit_length())
                    a, c = _mp_of(m1, e1), _mp_of(m2, e2)
                    if base == "atan2":
                        ref = mpmath.atan2(a, c)
                    else:
                        with mpmath.workprec(6000):
                            ref = {"div": a / c, "mul": a * c, "add": a + c}[base]
                        ref = +ref
                    evs.append(dict(id=len(evs), fn=fn, w=W, x=_dy(m1, e1), y=_dy(m2, e2), ref=_dy_of_mpf(ref), show=show))
                    continue
                m, e = _rand_point(base, rng, moderate)
                x = _mp_of(m, e)
                if base in ("sin", "cos") and e + m.bit_length() > 200:
                    with mpmath.workprec(450 + e + m.bit_length()):
                        ref = MP[base](x)
                    ref = +ref
                else:
                    ref = MP[base](x)
                evs.append(dict(id=len(evs), fn=fn, w=W, x=_dy(m, e), ref=_dy_of_mpf(ref), show=show))
    return evs


def selftest(quick=True, nproc=None, verbose=True):
    """Soundness self-test of the enclosure layer.  Returns True iff everything passed.
    1. every function of Reals.tla on n random dyadic points per width (W = 96 and 160): the mpmath value at
       400 bits lies inside the enclosure and the enclosure is narrower than 2^-(W-10) relative (Trace_Reals);
    2. the same TLC runs with and without the Java BigInt overrides print identical enclosures (subset);
    3. MC_Reals laws (U1) hold, and the sabotaged variant (MC_Reals_neg.cfg) is caught;
    4. negative control of the self-test itself: a reference moved by 2^-(W-6) relative is reported as a miss;
    5. binding: one corrupted bit of one recorded result -> exactly that event is rejected by Trace_Accuracy."""
    ok = True
    say = print if verbose else (lambda *a, **k: None)
    n = 2000 if not quick else 250
    nproc = nproc or (6 if quick else tlc.NCPU)
    tlc.ensure_overrides()
    t0 = time.time()
    for W in (96, 160):
        evs = selftest_events(SELFTEST_FNS, n, W, 1000 + W)
        r = tlc.validate_events("Trace_Reals", "Trace.cfg", evs, nproc=nproc, name="reals")
        say("selftest C02: Reals.tla vs mpmath(400 bits), W=%d: %d points, %d failing, %.1fs" % (W, len(evs), len(r["fails"]), r["wall"]))
        if r["fails"]:
            ok = False
            byid = {e["id"]: e for e in evs}
            for eid, cl in r["fails"][:8]:
                say("   %s %s x=%s*2^%d" % (cl, byid[eid]["fn"], bits.unzint(byid[eid]["x"][0]), byid[eid]["x"][1]))
    # 2. with / without overrides: identical printed enclosures
    if tlc.overrides_available():
        evs = selftest_events(SELFTEST_FNS, 2 if quick else 12, 96, 77, show=True, moderate=True)
        outs = []
        for ov in (True, False):
            r = tlc.validate_events("Trace_Reals", "Trace.cfg", evs, nproc=nproc, overrides=ov, name="reals_ov")
            outs.append((sorted(r["notes"]), sorted(r["fails"])))
        same = outs[0] == outs[1] and len(outs[0][0]) == len(evs)
        say("selftest C02: enclosures with/without Java overrides identical on %d points: %s (%.1fs)" % (len(evs), same, time.time() - t0))
        ok = ok and same and not outs[0][1]
        for law in ("pyth", "logexp", "divsqrt"):
            cfg = open(os.path.join(tlc.SPEC, "MC_Reals.cfg")).read().replace("Only = {}", 'Only = {"%s"}' % law)
            cfg = cfg.replace("GridN = 24", "GridN = 8").replace("Ws = {24, 96}", "Ws = {24}")
            p = os.path.join(tlc.workdir(), "mc_reals_%s.cfg" % law)
            with open(p, "w") as f:
                f.write(cfg)
            rs = [tlc.run("MC_Reals", p, workers=4, overrides=ov, timeout=1200) for ov in (True, False)]
            good = all(r.ok for r in rs) and rs[0].distinct == rs[1].distinct
            say("selftest C02: MC_Reals law %s with/without overrides: %s (%d states)" % (law, good, rs[0].distinct))
            ok = ok and good
    # 3. laws and the sabotaged variant
    r = tlc.run("MC_Reals", "MC_Reals.cfg", workers=nproc, timeout=1800)
    say("selftest C02: MC_Reals laws: ok=%s, %d states, %.1fs" % (r.ok, r.distinct, r.wall))
    ok = ok and r.ok
    r = tlc.run("MC_Reals", "MC_Reals_neg.cfg", workers=2, timeout=600)
    caught = "LawsOK" in r.invariant_violated
    say("selftest C02: sabotaged enclosures caught by the laws: %s" % caught)
    ok = ok and caught
    # 4. negative control of the mpmath comparison
    evs = selftest_events(["sin", "expm1", "log1p", "atan"], 10, 96, 5)
    victims = [e["id"] for e in evs if abs(bits.unzint(e["ref"][0])).bit_length() > 300][3::13][:3]
    for v in victims:
        m = bits.unzint(evs[v]["ref"][0])
        m += (1 if v % 2 else -1) << (abs(m).bit_length() - 90)
        evs[v]["ref"] = _dy(m, evs[v]["ref"][1])
    r = tlc.validate_events("Trace_Reals", "Trace.cfg", evs, nproc=1)
    got = sorted(f[0] for f in r["fails"])
    say("selftest C02: displaced references reported as misses: %s" % (got == victims))
    ok = ok and got == victims and len(victims) == 3
    # 5. binding
    import_repo()
    b = Batch()
    rng = random.Random(11)
    for fn, fmt in (("asin", "float32"), ("asinh", "float64"), ("acosh", "float32")):
        b.add(fn, fmt, domain_patterns(fn, fmt, 40, rng), None, "domain")
    b.add("hypot", "float64", *hypot_domain_pairs("float64", 40, rng), "domain")
    victim = 57
    b.events[victim]["w"] = bits.nat(bits.unnat(b.events[victim]["w"]) ^ (1 << 6))
    r = tlc.validate_events("Trace_Accuracy", "Trace.cfg", b.events, nproc=1)
    got = [f[0] for f in r["fails"]]
    say("selftest C02: corrupted result bit singled out: %s (%s)" % (got == [victim], r["fails"]))
    ok = ok and got == [victim]
    say("selftest C02: %s (%.1fs)" % ("PASS" if ok else "FAIL", time.time() - t0))
    return ok


if __name__ == "__main__":
    if "--selftest" in sys.argv:
        try:
            good = selftest(quick="--full" not in sys.argv)
        except tlc.MachineryError as ex:
            print("MACHINERY-FAILURE selftest C02: %s" % ex)
            good = False
        sys.exit(0 if good else 2)
    print("usage: python -m harness.props.c02 --selftest [--full]")
