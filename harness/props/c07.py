"""C07 - expression identity is structural identity (sound hash-consing).

U1: TLC checks FAContext.tla (key scheme refines structural identity) over all histories of
    bounded length on an alphabet containing 0.0/-0.0, 1/1.0/True, numpy scalars, NaN objects.
U2: every history TLC enumerates (plus -simulate walks over a larger alphabet and more kinds)
    is replayed into a fresh real Context.
U3: Trace_Context.tla validates every construction: structure of the returned object equals the
    request, and it is an earlier object iff the requests are structurally equal.
"""
import json
import math
import os
import random
import struct

import numpy

from .. import tlc, tlaval, bits
from ..common import Check, import_repo

PID = "C07"


def f64bits(x):
    return bits.nat(struct.unpack("<Q", struct.pack("<d", float(x)))[0])


class Ident:
    """Identity-based numbering of objects in order of first appearance."""

    def __init__(self):
        self.ids = {}
        self.keep = []

    def __call__(self, obj):
        k = id(obj)
        if k not in self.ids:
            self.ids[k] = len(self.keep) + 1
            self.keep.append(obj)
        return self.ids[k]

    def __len__(self):
        return len(self.keep)


def pyvalue(v, nan_objs):
    """Alphabet record of FAContext -> Python value."""
    pt, num, neg = v["pt"], v["num"], v["neg"]
    if pt == "str":
        return num
    if num == "nan":
        return nan_objs.setdefault((pt, v["obj"]), float("nan") if pt == "float" else getattr(numpy, pt)("nan"))
    base = {"0": 0.0, "1": 1.0, "half": 0.5, "m1": -1.0, "two": 2.0, "big": 1e300}[num]
    if pt == "complex":
        return complex(-0.0 if neg & 2 else 0.0, -0.0 if neg & 1 else 0.0) if num == "0" else complex(base, 0.0)
    if num == "0" and neg:
        base = -0.0
    if pt == "float":
        return base
    if pt == "int":
        return int(base)
    if pt == "bool":
        return bool(base)
    return getattr(numpy, pt)(base)


def encode_value(value, vident):
    """Python value -> uninterpreted log encoding (type name + raw bits)."""
    pt = type(value).__name__
    if isinstance(value, str):
        return dict(pt=pt, re=[], im=[], s=value, nan=False, obj=0)
    if isinstance(value, (complex, numpy.complexfloating)):
        re, im = value.real, value.imag
    else:
        re, im = value, 0.0
    nan = bool(math.isnan(float(re)) or math.isnan(float(im)))
    return dict(pt=pt, re=f64bits(re), im=f64bits(im), s="", nan=nan, obj=vident(value) if nan else 0)


def _type_name(e):
    """static type the package reports for an expression (the reference type when it is used as a like)"""
    try:
        return str(e.get_type())
    except Exception as ex:  # noqa
        return "<%s:%s>" % (e.kind, type(ex).__name__)


def observe(fa, r, ident, vident):
    from functional_algorithms.expr import Expr
    o = dict(kind=r.kind, name="", ty="", ops=[], val=dict(pt="", re=[], im=[], s="", nan=False, obj=0), like_ty="")
    if r.kind == "symbol":
        o["name"] = r.operands[0]
        o["ty"] = str(r.operands[1])
    elif r.kind == "constant":
        v = r.operands[0]
        if isinstance(v, Expr):  # alternative-context constant: the value lives in ctx.alt
            v = v.operands[0] if v.kind == "constant" else "<alt-expr>"
        o["val"] = encode_value(v, vident)
        like = r.operands[1]
        o["like_ty"] = str(like.operands[1]) if like.kind == "symbol" else _type_name(like)
    else:
        o["ops"] = [ident(x) for x in r.operands]
    return o


def replay_history(fa, hist, events, beh, ctx_kwargs=None):
    """hist: list of {req: node record, res: model id}."""
    ctx = fa.Context(**(ctx_kwargs or {}))
    ident, vident = Ident(), Ident()
    nan_objs = {}
    by_model = {}
    events.append(dict(id=len(events), beh=beh, op="Begin", kind="", name="", ty="", ops=[], like=0,
                       val=dict(pt="", re=[], im=[], s="", nan=False, obj=0), res=0, raised="",
                       obs=dict(kind="", name="", ty="", ops=[], val=dict(pt="", re=[], im=[], s="", nan=False, obj=0), like_ty="")))
    for h in hist:
        req, mres = h["req"], h["res"]
        kind = req["kind"]
        ev = dict(id=len(events), beh=beh, op="Construct", kind=kind, name=req["name"], ty=req["ty"], ops=[], like=0,
                  val=dict(pt="", re=[], im=[], s="", nan=False, obj=0), res=0, raised="", model_res=mres)
        r = None
        try:
            if kind == "symbol":
                r = ctx.symbol(req["name"], req["ty"])
            elif kind == "constant":
                value = req["pyvalue"] if "pyvalue" in req else pyvalue(req["value"], nan_objs)
                like = by_model[req["like"]]
                ev["val"] = encode_value(value, vident)
                ev["like"] = ident(like)
                r = ctx.constant(value, like)
            elif "rawops" in req:
                # operands given as Python numbers are converted to constants by the package (expr.normalize):
                # each implicit constant is logged as its own construction (value, like = the first expression
                # operand) BEFORE the operation, with the object found at that operand position as its result
                ops = [by_model[o[1]] if o[0] == "id" else o[1] for o in req["rawops"]]
                ref = next(o for o in ops if hasattr(o, "kind"))
                r = getattr(ctx, kind)(*ops)
                for i, o in enumerate(req["rawops"]):
                    if o[0] == "raw":
                        c = r.operands[i]
                        cev = dict(id=len(events), beh=beh, op="Construct", kind="constant", name="", ty="", ops=[], like=ident(ref),
                                   val=encode_value(o[1], vident), res=ident(c), raised="", model_res=0, implicit=True)
                        cev["obs"] = observe(fa, c, ident, vident)
                        events.append(cev)
                ev["id"] = len(events)
                ev["ops"] = [ident(x) for x in r.operands]
            else:
                ops = [by_model[m] for m in req["ops"]]
                ev["ops"] = [ident(o) for o in ops]
                r = getattr(ctx, kind)(*ops)
        except Exception as ex:  # noqa
            ev["raised"] = type(ex).__name__
        if r is not None:
            ev["res"] = ident(r)
            ev["obs"] = observe(fa, r, ident, vident)
            if kind not in ("symbol", "constant"):
                ev["ty"] = _type_name(r)      # the reference type this node has when it is used as a like
            by_model.setdefault(mres, r)
        else:
            ev["obs"] = dict(kind="", name="", ty="", ops=[], val=dict(pt="", re=[], im=[], s="", nan=False, obj=0), like_ty="")
            events.append(ev)
            break
        events.append(ev)


def expand(c):
    """compact tuple printed by FAContext!Emit -> request dict"""
    kind, name, ty, v, like, ops, res = c
    return dict(req=dict(kind=kind, name=name, ty=ty, value=dict(pt=v[0], num=v[1], neg=v[2], obj=v[3]), like=like, ops=ops), res=res)


def export_histories(cfg, chk, steps=None):
    path = os.path.join(tlc.SPEC, cfg)
    if steps is not None:
        wd = tlc.workdir()
        with open(path) as f:
            txt = f.read()
        import re
        txt = re.sub(r"MaxSteps = \d+", "MaxSteps = %d" % steps, txt)
        path = os.path.join(wd, "ctx_%d_%s" % (steps, cfg))
        with open(path, "w") as f:
            f.write(txt)
    r = tlc.run("MC_Context", path, workers=1, timeout=3000)
    if not r.ok:
        raise tlc.MachineryError("history export failed (%s):\n%s" % (cfg, r.out[-2000:]))
    chk.add_mc(cfg, r)
    return [[expand(c) for c in h[1]] for h in tlaval.fast_tuples(r.out, "H")]


def simulated_histories(n, depth, seed, chk, cfg="SIM_Context.cfg"):
    """Random walks of FAContext over the larger alphabet (tlc -simulate); each walk prints its
    history from the Emit invariant when it reaches MaxSteps."""
    r = tlc.run("MC_Context", cfg, workers=1,
                extra=["-simulate", "num=%d" % n, "-depth", str(depth + 2), "-seed", str(seed)], timeout=3000)
    if r.invariant_violated:
        chk.fail("model:" + "+".join(r.invariant_violated), "FAContext.tla violates its invariant in simulation", r.error_trace())
    hs = [[expand(c) for c in h[1]] for h in tlaval.fast_tuples(r.out, "H")]
    chk.cov.setdefault("model_runs", []).append(dict(config=cfg + " -simulate", histories=len(hs), wall_s=round(r.wall, 2)))
    return hs


def _fl(ty):
    return {"float": float, "float16": numpy.float16, "float32": numpy.float32, "float64": numpy.float64}[ty]


def _frombits(ty, n):
    dt = "float64" if ty == "float" else ty
    v = bits.from_bits_int(n % (1 << bits.WIDTH[dt]), dt)
    return float(v) if ty == "float" else v


def _bitsof(ty, v):
    dt = "float64" if ty == "float" else ty
    return bits.fbits_int(numpy.dtype(dt).type(v), dt)


def make_pairs(fam, ty, k, rng):
    """Concretise a ValuePairs shape into k pairs (a, b) of different Python values."""
    out = []
    isf = ty in ("float", "float16", "float32", "float64")
    w = bits.WIDTH["float64" if ty == "float" else ty] if isf else 0

    def rnd_finite():
        while True:
            v = _frombits(ty, rng.getrandbits(w))
            if numpy.isfinite(v):
                return v

    for i in range(k):
        a = b = None
        if fam == "neighbour":
            n = rng.getrandbits(w) if i % 3 else [0, 1 << (w - 1), 1, (1 << (w - 2)), (1 << (w - 2)) - 1][i % 5]
            a, b = _frombits(ty, n), _frombits(ty, n + 1)
        elif fam == "regroup":
            # two bit patterns whose per-byte renderings without zero padding coincide:
            # bytes (0x0h, 0xlm) and (0xhl, 0x0m)
            nb = w // 8
            j = rng.randrange(nb - 1)
            h, l, m = rng.randrange(1, 16), rng.randrange(16), rng.randrange(16)
            base = rng.getrandbits(w) & ~(0xFFFF << (8 * j))
            if j == nb - 2:  # keep exponent bits finite: clear the top bit pair
                h = rng.randrange(1, 4)
            a = _frombits(ty, base | ((h << 8 | l << 4 | m) << (8 * j)))
            b = _frombits(ty, base | ((h << 12 | l << 8 | m) << (8 * j)))
        elif fam == "sign":
            if ty == "int":
                a = rng.choice([1, 2, 7, 2 ** 40]); b = -a
            elif ty == "complex":
                a = complex(rng.choice([0.0, 1.5]), rng.choice([0.0, 2.0])); b = complex(-a.real, a.imag) if i % 2 else complex(a.real, -a.imag)
            else:
                a = rnd_finite() if i % 4 else _frombits(ty, 0); b = -a
        elif fam == "same_int":
            base = float(rng.randrange(-5, 6))
            fr = rng.choice([0.25, 0.5, 0.75])
            if ty == "complex":
                a, b = complex(base, 1.0), complex(base, 1.5)
            else:
                t = _fl(ty)
                a, b = t(abs(base)), t(abs(base) + fr)
        elif fam == "same_hash":
            if ty == "int":
                a, b = rng.choice([(-1, -2), (0, 2 ** 61 - 1), (1, 2 ** 61), (5, 5 + 2 ** 61 - 1)])
            else:
                t = _fl(ty)
                cands = [(t(1.0), t(2.0 ** 61)), (t(-1.0), t(-2.0)), (t(0.5), t(2.0 ** 60)), (t(3.0), t(3.0 + 2.0 ** 61) if ty != "float32" else t(2.0 ** 61))]
                a, b = cands[i % len(cands)]
        elif fam == "same_digits":
            t = _fl(ty)
            x = rnd_finite()
            a = x
            # nearby value agreeing in the first decimal digits: a few ulps away
            b = _frombits(ty, _bitsof(ty, x) + rng.choice([2, 3, 5, 16, 100]))
        elif fam == "cross_type":
            vals = {"float": [1.0, 0.0, 2.0], "float16": [numpy.float16(1), numpy.float16(0)], "float32": [numpy.float32(1), numpy.float32(0.5)],
                    "float64": [numpy.float64(1), numpy.float64(0.5)], "int": [1, 0, 2], "complex": [1 + 0j, 0j], "bool": [True, False]}
            a = rng.choice(vals[ty])
            others = [v for t2, vs in vals.items() if t2 != ty for v in vs if v == a and type(v) is not type(a)]
            if not others:
                continue
            b = rng.choice(others)
        elif fam == "exp_shift":
            x = rnd_finite()
            a, b = x, _fl(ty)(x * 2) if ty != "float" else x * 2
        elif fam == "byte_perm":
            n = rng.getrandbits(w) & ~(1 << (w - 2))  # keep it finite
            nb = w // 8
            i0, i1 = rng.sample(range(nb), 2) if nb > 2 else (0, 1)
            b0, b1 = (n >> (8 * i0)) & 255, (n >> (8 * i1)) & 255
            m = n & ~(255 << (8 * i0)) & ~(255 << (8 * i1)) | (b1 << (8 * i0)) | (b0 << (8 * i1))
            a, b = _frombits(ty, n), _frombits(ty, m)
        if a is None or b is None:
            continue
        try:
            if isf and not (numpy.isfinite(a) and numpy.isfinite(b)):
                continue
        except TypeError:
            pass
        same_bits = type(a) is type(b) and encode_value(a, Ident()) == encode_value(b, Ident())
        if not same_bits:
            out.append((a, b))
    return out


def pair_histories(seed, k, chk):
    """Histories built from the TLC-enumerated ValuePairs shapes."""
    r = tlc.run("ValuePairs", "ValuePairs.cfg", workers=1)
    if not r.ok:
        raise tlc.MachineryError("ValuePairs export failed:\n" + r.out[-1500:])
    chk.add_mc("ValuePairs.cfg", r)
    shapes = [(h[1], h[2]) for h in tlaval.fast_tuples(r.out, "H")]
    rng = random.Random(seed)
    hs, meta = [], []
    nov = dict(pt="", num="", neg=0, obj=0)

    def sym(name, ty, res):
        return dict(req=dict(kind="symbol", name=name, ty=ty, value=nov, like=0, ops=[]), res=res)

    def const(v, like, res):
        return dict(req=dict(kind="constant", name="", ty="", value=nov, pyvalue=v, like=like, ops=[]), res=res)

    def op(kind, ops, res):
        return dict(req=dict(kind=kind, name="", ty="", value=nov, like=0, ops=ops), res=res)

    for fam, ty in sorted(shapes):
        for a, b in make_pairs(fam, ty, k, rng):
            symty = {"float": "float64", "int": "integer64", "complex": "complex128", "bool": "boolean"}.get(ty, ty)
            for first, second in ((a, b), (b, a)):
                hs.append([sym("x", symty, 1), const(first, 1, 2), const(second, 1, 3), const(first, 1, 2),
                           op("multiply", [1, 2], 4), op("multiply", [1, 3], 5), op("subtract", [5, 4], 6)])
                meta.append((fam, ty))
    # the same confusable pairs as RAW operands (Python numbers are turned into constants by the package)
    def opnum(kind, rawops, res):
        return dict(req=dict(kind=kind, name="", ty="", value=nov, like=0, ops=[], rawops=rawops), res=res)

    nraw = 0
    for fam, ty in sorted(shapes):
        if ty not in ("float", "int", "complex", "bool", "float64"):
            continue      # expr.normalize converts int/float/complex (and their subclasses) only
        for a, b in make_pairs(fam, ty, max(2, k // 2), rng):
            if not all(isinstance(v, (int, float, complex)) for v in (a, b)):
                continue
            symty = {"float": "float64", "int": "float64", "complex": "complex128", "bool": "float64"}.get(ty, ty)
            for first, second in ((a, b), (b, a)):
                hs.append([sym("x", symty, 1),
                           opnum("multiply", [("id", 1), ("raw", first)], 2), opnum("multiply", [("id", 1), ("raw", second)], 3),
                           opnum("copysign", [("id", 1), ("raw", first)], 4), opnum("copysign", [("id", 1), ("raw", second)], 5),
                           opnum("subtract", [("raw", first), ("id", 1)], 6), opnum("subtract", [("raw", second), ("id", 1)], 7),
                           const(first, 1, 8), const(second, 1, 9), opnum("multiply", [("id", 1), ("raw", first)], 2)])
                meta.append((fam, ty))
                nraw += 1
    chk.cov["value_pair_raw_operand_histories"] = nraw
    chk.cov["value_pair_shapes"] = len(shapes)
    chk.cov["value_pair_histories"] = len(hs)
    return hs


def no_fold(hist):
    """True iff no operation of the history has constants for ALL its operands.  In a context with an alternative
    context (enable_alt=True) such an operation is folded into a constant of the alternative context
    (Expr.__new__), which FAContext.tla does not model; every other construction keeps its requested structure
    there, so the history is a behaviour of FAContext in an enable_alt context as well."""
    kinds = {}
    for h in hist:
        req = h["req"]
        kind = req["kind"]
        if kind not in ("symbol", "constant") and kind != "list":
            if "rawops" in req:
                allc = all(o[0] == "raw" or kinds.get(o[1]) == "constant" for o in req["rawops"])
            else:
                allc = all(kinds.get(o) == "constant" for o in req["ops"])
            if allc:
                return False
        kinds.setdefault(h["res"], kind)
    return True


def alt_like_histories(seed, k):
    """enable_alt family: two constants of one value whose likes have different types, used in the same operation
    with identical siblings, in both construction orders, explicitly and as raw Python-number operands."""
    rng = random.Random(seed)
    nov = dict(pt="", num="", neg=0, obj=0)

    def sym(name, ty, res):
        return dict(req=dict(kind="symbol", name=name, ty=ty, value=nov, like=0, ops=[]), res=res)

    def const(v, like, res):
        return dict(req=dict(kind="constant", name="", ty="", value=nov, pyvalue=v, like=like, ops=[]), res=res)

    def op(kind, ops, res):
        return dict(req=dict(kind=kind, name="", ty="", value=nov, like=0, ops=ops), res=res)

    def opnum(kind, rawops, res):
        return dict(req=dict(kind=kind, name="", ty="", value=nov, like=0, ops=[], rawops=rawops), res=res)

    hs = []
    values = [0.1, 3, -0.0, 0.0, 1.0, 2.5, True, 1e300] + [rng.choice([-1, 1]) * rng.random() * 10.0 ** rng.randrange(-5, 6) for _ in range(k)]
    tys = ["float16", "float32", "float64"]
    kinds2 = ["multiply", "add", "subtract", "lt", "maximum", "divide", "atan2", "copysign", "hypot"]
    for i, v in enumerate(values):
        tx, ty = rng.sample(tys, 2)
        k1, k2 = rng.sample(kinds2, 2)
        for first, second in ((3, 4), (4, 3)):
            h = [sym("x", tx, 1), sym("y", ty, 2), const(v, 1, 3), const(v, 2, 4)]
            n = 5
            ids = {}
            for c in (first, second):
                for kk in (k1, k2):
                    h.append(op(kk, [2, c], n)); ids[kk, c] = n; n += 1
                    h.append(op(kk, [c, 1], n)); n += 1
                h.append(op("select", [ids[k1, c], c, 2], n)); n += 1
            h.append(op(k1, [2, 3], ids[k1, 3]))
            h.append(op(k1, [2, 4], ids[k1, 4]))
            if isinstance(v, (int, float)) and not isinstance(v, bool):
                h.append(opnum(k1, [("id", 2), ("raw", v)], ids[k1, 4]))
            hs.append(h)
    return hs


def portable(hist):
    """history with direct Python values made JSON-serialisable (type name + hex bits)"""
    out = []
    for h in hist:
        req = dict(h["req"])
        if "rawops" in req:
            req["rawops"] = [list(o) if o[0] == "id" else ["raw", [type(o[1]).__name__, repr(o[1]), o[1].hex() if isinstance(o[1], float) else repr(o[1])]]
                             for o in req["rawops"]]
        if "pyvalue" in req:
            v = req.pop("pyvalue")
            req["pyvalue_repr"] = [type(v).__name__, repr(v), v.hex() if isinstance(v, float) else (hex(int(numpy.asarray(v).view("u%d" % numpy.asarray(v).itemsize))) if isinstance(v, numpy.floating) else repr(v))]
        out.append(dict(req=req, res=h["res"]))
    return out


def unportable(hist):
    out = []
    for h in hist:
        req = dict(h["req"])
        if "rawops" in req:
            def back(o):
                if o[0] == "id":
                    return ("id", o[1])
                tn, rp, hx = o[1]
                return ("raw", float.fromhex(hx) if tn == "float" else numpy.float64(float.fromhex(hx)) if tn == "float64" else
                        int(rp) if tn == "int" else (rp == "True") if tn == "bool" else complex(rp))
            req["rawops"] = [back(o) for o in req["rawops"]]
        if "pyvalue_repr" in req:
            tn, rp, hx = req.pop("pyvalue_repr")
            if tn == "float":
                req["pyvalue"] = float.fromhex(hx)
            elif tn in ("float16", "float32", "float64"):
                req["pyvalue"] = bits.from_bits_int(int(hx, 16), tn)
            elif tn == "int":
                req["pyvalue"] = int(rp)
            elif tn == "bool":
                req["pyvalue"] = rp == "True"
            elif tn == "complex":
                req["pyvalue"] = complex(rp)
        out.append(dict(req=req, res=h["res"]))
    return out


def key_of(ev, clauses):
    v = ev["val"]
    what = ev["kind"]
    if ev["kind"] == "constant":
        z = "zero" if (not v["nan"] and v["s"] == "" and bits.unnat(v["re"]) & ~(1 << 63) == 0 and bits.unnat(v["im"]) & ~(1 << 63) == 0) else ("nan" if v["nan"] else "nonzero")
        what = "constant(%s,%s)" % (v["pt"], z)
    return "%s:%s" % (what, "+".join(clauses))


def run(tier, seed):
    fa = import_repo()
    chk = Check(PID, tier, seed)
    # U1
    r = tlc.run("MC_Context", "MC_Context.cfg", extra=["-coverage", "1"])
    chk.add_mc("MC_Context.cfg", r)
    if not r.ok:
        chk.fail("model:" + "+".join(r.invariant_violated), "FAContext.tla violates its invariant", r.error_trace())
    # U2
    hists = export_histories("HIST_Context.cfg", chk, steps=3 if tier == "quick" else 4)
    hists += export_histories("HIST_ContextSel.cfg", chk, steps=4)
    hists += simulated_histories(1500 if tier == "quick" else 40000, 12, seed + 1, chk)
    # every fixed-arity operation kind of the package (the quantifier says "operations of every kind and arity")
    hists += simulated_histories(600 if tier == "quick" else 15000, 24, seed + 2, chk, cfg="SIM_ContextAll.cfg")
    hists += pair_histories(seed + 2, 40 if tier == "quick" else 1500, chk)
    # the same histories in contexts with an alternative context (enable_alt=True): constants are wrapped into
    # constants of the alternative context there.  Only histories without an all-constant operation (no_fold).
    alt_kwargs = dict(enable_alt=True, default_constant_type="float64")
    alt = [h for h in hists if no_fold(h)]
    rng = random.Random(seed + 7)
    if len(alt) > (4000 if tier == "quick" else 60000):
        alt = rng.sample(alt, 4000 if tier == "quick" else 60000)
    alt += [h for h in alt_like_histories(seed + 3, 60 if tier == "quick" else 2000)]
    n_plain = len(hists)
    hists = hists + alt
    chk.cov["enable_alt_histories"] = len(alt)
    events = []
    for i, h in enumerate(hists):
        replay_history(fa, h, events, i, ctx_kwargs=alt_kwargs if i >= n_plain else None)
    chk.sample(dict(history=portable(hists[len(hists) // 3]), events=[e for e in events if e["beh"] == len(hists) // 3][:8]))
    # U3
    res = tlc.validate_events("Trace_Context", "Trace_Context.cfg", events, starts=lambda e: e["op"] == "Begin", name="ctx")
    chk.add_trace("Trace_Context", res, len(events), ntraces=len(hists))
    byid = {e["id"]: e for e in events}
    for eid, clauses in res["fails"]:
        ev = byid[eid]
        chk.fail(key_of(ev, clauses), "history %d: %s -> clauses %s" % (ev["beh"], json.dumps(ev)[:400], clauses),
                 dict(history=portable(hists[ev["beh"]]), failing_event=ev, clauses=clauses,
                      ctx_kwargs=alt_kwargs if ev["beh"] >= n_plain else None))
    drift = [byid[i] for i, w in res["notes"] if "drift" in w]
    if drift:
        chk.drift_note("FAContext key-scheme model predicts a different object than the code on %d constructions, e.g. %s"
                       % (len(drift), json.dumps(drift[0])[:300]))
    chk.assumptions += ["NaN constants unconstrained (statement's 'same value' is ambiguous for NaN)",
                        "like of a constant constrained by its type (must-differ) / its normalised object (must-be-same)",
                        "object identity observed with `is`; values logged as type name + raw float64 bits"]
    nontrivial = len({json.dumps(portable(h)) for h in hists if len({x["res"] for x in h}) < len(h)})
    return chk.finish(rule="construction histories enumerated by TLC from FAContext (all of the stated length over the "
                           "stated alphabets) plus -simulate walks; non-trivial = distinct histories in which some "
                           "construction returned an already existing object",
                      distinct_nontrivial=nontrivial, extra_cov=dict(histories=len(hists)))


def replay(path):
    fa = import_repo()
    with open(path) as f:
        rp = json.load(f)["replay"]
    events = []
    replay_history(fa, unportable(rp["history"]), events, 0, ctx_kwargs=rp.get("ctx_kwargs"))
    res = tlc.validate_events("Trace_Context", "Trace_Context.cfg", events, stateful=True)
    for e in events:
        print(json.dumps(e))
    for eid, clauses in res["fails"]:
        print("VIOLATION property=%s replay=%s  # event %d clauses %s" % (PID, path, eid, clauses))
    return 1 if res["fails"] else 0
