"""C07 - expression identity is structural identity (sound hash-consing).

U1: TLC checks FAContext.tla (key scheme refines structural identity) over all histories of
    bounded length on an alphabet containing 0.0/-0.0, 1/1.0/True, numpy scalars, NaN objects.
U2: every history TLC enumerates (plus -simulate walks over a larger alphabet and more kinds)
    is replayed into a fresh real Context.
U3: Trace_Context.tla validates every construction: structure of the returned object equals the
    request, and it is an earlier object iff the requests are structurally equal.
"""
import json
import math
import os
import random
import struct

import numpy

from .. import tlc, tlaval, bits
from ..common import Check, import_repo

PID = "C07"


def f64bits(x):
    return bits.nat(struct.unpack("<Q", struct.pack("<d", float(x)))[0])


class Ident:
    """Identity-based numbering of objects in order of first appearance."""

    def __init__(self):
        self.ids = {}
        self.keep = []

    def __call__(self, obj):
        k = id(obj)
        if k not in self.ids:
            self.ids[k] = len(self.keep) + 1
            self.keep.append(obj)
        return self.ids[k]

    def __len__(self):
        return len(self.keep)


def pyvalue(v, nan_objs):
    """Alphabet record of FAContext -> Python value."""
    pt, num, neg = v["pt"], v["num"], v["neg"]
    if pt == "str":
        return num
    if num == "nan":
        return nan_objs.setdefault((pt, v["obj"]), float("nan") if pt == "float" else getattr(numpy, pt)("nan"))
    base = {"0": 0.0, "1": 1.0, "half": 0.5, "m1": -1.0, "two": 2.0, "big": 1e300}[num]
    if pt == "complex":
        return complex(-0.0 if neg & 2 else 0.0, -0.0 if neg & 1 else 0.0) if num == "0" else complex(base, 0.0)
    if num == "0" and neg:
        base = -0.0
    if pt == "float":
        return base
    if pt == "int":
        return int(base)
    if pt == "bool":
        return bool(base)
    return getattr(numpy, pt)(base)


def encode_value(value, vident):
    """Python value -> uninterpreted log encoding (type name + raw bits)."""
    pt = type(value).__name__
    if isinstance(value, str):
        return dict(pt=pt, re=[], im=[], s=value, nan=False, obj=0)
    if isinstance(value, (complex, numpy.complexfloating)):
        re, im = value.real, value.imag
    else:
        re, im = value, 0.0
    nan = bool(math.isnan(float(re)) or math.isnan(float(im)))
    return dict(pt=pt, re=f64bits(re), im=f64bits(im), s="", nan=nan, obj=vident(value) if nan else 0)


def observe(fa, r, ident, vident):
    from functional_algorithms.expr import Expr
    o = dict(kind=r.kind, name="", ty="", ops=[], val=dict(pt="", re=[], im=[], s="", nan=False, obj=0), like_ty="")
    if r.kind == "symbol":
        o["name"] = r.operands[0]
        o["ty"] = str(r.operands[1])
    elif r.kind == "constant":
        v = r.operands[0]
        if isinstance(v, Expr):  # alternative-context constant: the value lives in ctx.alt
            v = v.operands[0] if v.kind == "constant" else "<alt-expr>"
        o["val"] = encode_value(v, vident)
        like = r.operands[1]
        o["like_ty"] = str(like.operands[1]) if like.kind == "symbol" else "<%s>" % like.kind
    else:
        o["ops"] = [ident(x) for x in r.operands]
    return o


def replay_history(fa, hist, events, beh, ctx_kwargs=None):
    """hist: list of {req: node record, res: model id}."""
    ctx = fa.Context(**(ctx_kwargs or {}))
    ident, vident = Ident(), Ident()
    nan_objs = {}
    by_model = {}
    events.append(dict(id=len(events), beh=beh, op="Begin", kind="", name="", ty="", ops=[], like=0,
                       val=dict(pt="", re=[], im=[], s="", nan=False, obj=0), res=0, raised="",
                       obs=dict(kind="", name="", ty="", ops=[], val=dict(pt="", re=[], im=[], s="", nan=False, obj=0), like_ty="")))
    for h in hist:
        req, mres = h["req"], h["res"]
        kind = req["kind"]
        ev = dict(id=len(events), beh=beh, op="Construct", kind=kind, name=req["name"], ty=req["ty"], ops=[], like=0,
                  val=dict(pt="", re=[], im=[], s="", nan=False, obj=0), res=0, raised="", model_res=mres)
        r = None
        try:
            if kind == "symbol":
                r = ctx.symbol(req["name"], req["ty"])
            elif kind == "constant":
                value = pyvalue(req["value"], nan_objs)
                like = by_model[req["like"]]
                ev["val"] = encode_value(value, vident)
                ev["like"] = ident(like)
                r = ctx.constant(value, like)
            else:
                ops = [by_model[m] for m in req["ops"]]
                ev["ops"] = [ident(o) for o in ops]
                r = getattr(ctx, kind)(*ops)
        except Exception as ex:  # noqa
            ev["raised"] = type(ex).__name__
        if r is not None:
            ev["res"] = ident(r)
            ev["obs"] = observe(fa, r, ident, vident)
            by_model.setdefault(mres, r)
        else:
            ev["obs"] = dict(kind="", name="", ty="", ops=[], val=dict(pt="", re=[], im=[], s="", nan=False, obj=0), like_ty="")
            events.append(ev)
            break
        events.append(ev)


def expand(c):
    """compact tuple printed by FAContext!Emit -> request dict"""
    kind, name, ty, v, like, ops, res = c
    return dict(req=dict(kind=kind, name=name, ty=ty, value=dict(pt=v[0], num=v[1], neg=v[2], obj=v[3]), like=like, ops=ops), res=res)


def export_histories(cfg, chk, steps=None):
    path = os.path.join(tlc.SPEC, cfg)
    if steps is not None:
        wd = tlc.workdir()
        with open(path) as f:
            txt = f.read()
        import re
        txt = re.sub(r"MaxSteps = \d+", "MaxSteps = %d" % steps, txt)
        path = os.path.join(wd, "ctx_%d_%s" % (steps, cfg))
        with open(path, "w") as f:
            f.write(txt)
    r = tlc.run("MC_Context", path, workers=1, timeout=3000)
    if not r.ok:
        raise tlc.MachineryError("history export failed (%s):\n%s" % (cfg, r.out[-2000:]))
    chk.add_mc(cfg, r)
    return [[expand(c) for c in h[1]] for h in tlaval.fast_tuples(r.out, "H")]


def simulated_histories(n, depth, seed, chk):
    """Random walks of FAContext over the larger alphabet (tlc -simulate); each walk prints its
    history from the Emit invariant when it reaches MaxSteps."""
    r = tlc.run("MC_Context", "SIM_Context.cfg", workers=1,
                extra=["-simulate", "num=%d" % n, "-depth", str(depth + 2), "-seed", str(seed)], timeout=3000)
    if r.invariant_violated:
        chk.fail("model:" + "+".join(r.invariant_violated), "FAContext.tla violates its invariant in simulation", r.error_trace())
    hs = [[expand(c) for c in h[1]] for h in tlaval.fast_tuples(r.out, "H")]
    chk.cov.setdefault("model_runs", []).append(dict(config="SIM_Context.cfg -simulate", histories=len(hs), wall_s=round(r.wall, 2)))
    return hs


def key_of(ev, clauses):
    v = ev["val"]
    what = ev["kind"]
    if ev["kind"] == "constant":
        z = "zero" if (not v["nan"] and v["s"] == "" and bits.unnat(v["re"]) & ~(1 << 63) == 0 and bits.unnat(v["im"]) & ~(1 << 63) == 0) else ("nan" if v["nan"] else "nonzero")
        what = "constant(%s,%s)" % (v["pt"], z)
    return "%s:%s" % (what, "+".join(clauses))


def run(tier, seed):
    fa = import_repo()
    chk = Check(PID, tier, seed)
    # U1
    r = tlc.run("MC_Context", "MC_Context.cfg", extra=["-coverage", "1"])
    chk.add_mc("MC_Context.cfg", r)
    if not r.ok:
        chk.fail("model:" + "+".join(r.invariant_violated), "FAContext.tla violates its invariant", r.error_trace())
    # U2
    hists = export_histories("HIST_Context.cfg", chk, steps=3 if tier == "quick" else 4)
    hists += export_histories("HIST_ContextSel.cfg", chk, steps=4)
    hists += simulated_histories(1500 if tier == "quick" else 40000, 12, seed + 1, chk)
    events = []
    for i, h in enumerate(hists):
        replay_history(fa, h, events, i)
    chk.sample(dict(history=hists[len(hists) // 3], events=[e for e in events if e["beh"] == len(hists) // 3][:8]))
    # U3
    res = tlc.validate_events("Trace_Context", "Trace_Context.cfg", events, starts=lambda e: e["op"] == "Begin", name="ctx")
    chk.add_trace("Trace_Context", res, len(events), ntraces=len(hists))
    byid = {e["id"]: e for e in events}
    for eid, clauses in res["fails"]:
        ev = byid[eid]
        chk.fail(key_of(ev, clauses), "history %d: %s -> clauses %s" % (ev["beh"], json.dumps(ev)[:400], clauses),
                 dict(history=hists[ev["beh"]], failing_event=ev, clauses=clauses))
    drift = [byid[i] for i, w in res["notes"] if "drift" in w]
    if drift:
        chk.drift_note("FAContext key-scheme model predicts a different object than the code on %d constructions, e.g. %s"
                       % (len(drift), json.dumps(drift[0])[:300]))
    chk.assumptions += ["NaN constants unconstrained (statement's 'same value' is ambiguous for NaN)",
                        "like of a constant constrained by its type (must-differ) / its normalised object (must-be-same)",
                        "object identity observed with `is`; values logged as type name + raw float64 bits"]
    nontrivial = len({json.dumps(h) for h in hists if len({x["res"] for x in h}) < len(h)})
    return chk.finish(rule="construction histories enumerated by TLC from FAContext (all of the stated length over the "
                           "stated alphabets) plus -simulate walks; non-trivial = distinct histories in which some "
                           "construction returned an already existing object",
                      distinct_nontrivial=nontrivial, extra_cov=dict(histories=len(hists)))


def replay(path):
    fa = import_repo()
    with open(path) as f:
        rp = json.load(f)["replay"]
    events = []
    replay_history(fa, rp["history"], events, 0)
    res = tlc.validate_events("Trace_Context", "Trace_Context.cfg", events, stateful=True)
    for e in events:
        print(json.dumps(e))
    for eid, clauses in res["fails"]:
        print("VIOLATION property=%s replay=%s  # event %d clauses %s" % (PID, path, eid, clauses))
    return 1 if res["fails"] else 0
