"""C03 - symmetries and cross-function identities of the algorithms hold bit for bit.

U1: TLC checks MC_Symmetry exhaustively (algebra of Conj / Neg / RotI on bit patterns, closure of the exclusion
    sets, satisfiability and classification of the identity clauses on model functions over a toy format; the
    sign-bit primitives on limb lists against IEEE.tla on float16 patterns).
U2: TLC enumerates the input classes (SymmetryShapes.tla: class of |re z| x class of |im z| x relation); this
    driver concretises every shape into float32 and float64 points.  Plus random points: uniform over bit
    patterns, log-uniform magnitudes 2^-12..2^12, and points on the axes / diagonals / unit lines.
U3: every point is evaluated TOGETHER WITH its images under the sign symmetries (one ORBIT per event: z, Conj z,
    Neg z, Neg Conj z; the parents of the derived functions at the corresponding points) with the package's own
    expansion of each algorithm (harness/evalalgo.py) and judged by Trace_Symmetry.tla (Symmetry.tla).

The driver never decides a clause: it logs bit patterns.  The images the driver evaluates are produced by XOR on
the sign bit of the raw pattern; the spec recomputes them from z and the "ops" events validate the driver's.
"""
import bisect
import concurrent.futures as cf
import json
import os
import re as _re
import time

import numpy

from .. import tlc, tlaval, bits, evalalgo
from ..common import Check, import_repo

PID = "C03"
TRACE = "Trace_Symmetry"
CFG = "Trace.cfg"

ODD = ("asin", "asinh", "atan", "atanh")
EVEN = ("square",)
# derived function -> (parent, evaluated at RotI(u)?)
PARENT = {"asinh": ("asin", True), "atan": ("atanh", True), "acosh": ("acos", False), "acos": ("asin", False)}
REAL_FNS = ("asin", "asinh", "atan", "atanh", "square")          # real algorithms the statement speaks about
HARNESS_CLAUSES = ("ops_", "shape_", "malformed")

DEC = [str(i) for i in range(1 << bits.LB)]


# ------------------------------------------------------------------------------------------------ formats
class Fmt:
    """Bit-level view of a component format; all constants are computed the way algorithms.py computes them."""

    def __init__(self, name):
        self.name = name
        self.ft = bits.FLOAT[name]
        self.ut = bits.UINT[name]
        self.w = bits.WIDTH[name]
        self.p = bits.PREC[name]
        self.S = self.ut(1) << self.ut(self.w - 1)
        self.cname = evalalgo.COMPLEX_OF[name]
        fi = numpy.finfo(self.ft)
        t = self.ft
        with numpy.errstate(all="ignore"):
            smax = numpy.sqrt(fi.max) / t(8)
            inv_negeps = numpy.nextafter(t(1 / fi.epsneg), t(numpy.inf))
            self.nominal = {
                "zero": t(0), "minsub": fi.smallest_subnormal, "maxsub": numpy.nextafter(fi.smallest_normal, t(0)),
                "minnorm": fi.smallest_normal, "safe_min": numpy.sqrt(fi.smallest_normal) * t(4),
                "one_m": numpy.nextafter(t(1), t(0)), "one": t(1), "one_p": numpy.nextafter(t(1), t(2)), "one_half": t(1.5),
                "log_largest": numpy.log(fi.max), "inv_negeps": inv_negeps, "smax_m6": smax * t(1e-6),
                "inv_negeps2": inv_negeps * inv_negeps, "smax_log1p": numpy.sqrt(fi.max) * t(0.01), "smax": smax,
                "smax_p2": smax * t(1e2), "smax_p12": smax * t(1e12), "sqrt_largest": numpy.sqrt(fi.max),
                "half_largest": fi.max / t(2), "largest": fi.max, "inf": t(numpy.inf),
            }
        self.nominal = {k: int(numpy.array([v], dtype=t).view(self.ut)[0]) for k, v in self.nominal.items()}
        n = self.nominal
        self.nan = n["inf"] + (1 << (self.p - 2))                                  # a quiet NaN pattern
        # range classes: (lo, hi) exclusive bounds on the magnitude ordinal
        self.ranges = {"sub": (n["minsub"], n["maxsub"]), "tiny": (n["minnorm"], n["safe_min"]), "small": (n["safe_min"], n["one_m"]),
                       "mid": (n["one_p"], n["one_half"]), "big": (n["one_half"], n["sqrt_largest"]),
                       "huge": (n["sqrt_largest"], n["largest"])}
        self.offsets = {"zero": (0,), "minsub": (0, 1), "maxsub": (-1, 0), "minnorm": (0, 1), "one_m": (-1, 0), "one": (0,),
                        "one_p": (0, 1), "largest": (-1, 0), "inf": (0,), "nan": (0,)}

    def floats(self, u):
        return numpy.ascontiguousarray(u, dtype=self.ut).view(self.ft)

    def cx(self, re, im):
        return evalalgo._make_complex(self.floats(re), self.floats(im))

    def ubits(self, a):
        return numpy.ascontiguousarray(a, dtype=self.ft).view(self.ut)


FMTS = {}


def fmt_of(name):
    if name not in FMTS:
        FMTS[name] = Fmt(name)
    return FMTS[name]


# ------------------------------------------------------------------------------------------------ encoding
def limb_strs(u, w):
    """uint array of raw patterns -> list of JSON texts of the canonical BigInt limb lists (bits.nat)."""
    u = u.astype(numpy.uint64)
    m = numpy.uint64(bits.MASK)
    out = []
    if w == 32:
        cols = [((u >> numpy.uint64(bits.LB * k)) & m).tolist() for k in range(3)]
        for a, b, c in zip(*cols):
            if c:
                out.append("[%s,%s,%s]" % (DEC[a], DEC[b], DEC[c]))
            elif b:
                out.append("[%s,%s]" % (DEC[a], DEC[b]))
            elif a:
                out.append("[%s]" % DEC[a])
            else:
                out.append("[]")
    else:
        cols = [((u >> numpy.uint64(bits.LB * k)) & m).tolist() for k in range(5)]
        for a, b, c, d, e in zip(*cols):
            if e:
                out.append("[%s,%s,%s,%s,%s]" % (DEC[a], DEC[b], DEC[c], DEC[d], DEC[e]))
            elif d:
                out.append("[%s,%s,%s,%s]" % (DEC[a], DEC[b], DEC[c], DEC[d]))
            elif c:
                out.append("[%s,%s,%s]" % (DEC[a], DEC[b], DEC[c]))
            elif b:
                out.append("[%s,%s]" % (DEC[a], DEC[b]))
            elif a:
                out.append("[%s]" % DEC[a])
            else:
                out.append("[]")
    return out


# ------------------------------------------------------------------------------------------------ points
class Points:
    """Base points of one component format: bit patterns of re (and im), with the source of each."""

    def __init__(self, fm, re, im, src):
        self.fm, self.re, self.im, self.src = fm, re, im, src

    def __len__(self):
        return len(self.re)


def draw_range(fm, cls, n, rng):
    lo, hi = fm.ranges[cls]
    return rng.integers(lo + 1, hi, size=n, dtype=numpy.uint64).astype(fm.ut)


def class_values(fm, cls, thorough, ndraw, rng):
    """[(pattern, offset)] for one component class."""
    if cls in fm.ranges:
        return [(int(v), 0) for v in draw_range(fm, cls, ndraw, rng)]
    if cls == "nan":
        return [(fm.nan, 0)]
    offs = fm.offsets.get(cls, (-1, 0, 1) if thorough else (0,))    # computed thresholds: +-1 ulp only in thorough
    return [(fm.nominal[cls] + o, o) for o in offs]


def lattice(fm, shapes, thorough, rng):
    """Concretise the TLC shapes.  -> (complex Points, real Points, shape claims for the 'shape' events)."""
    ndraw = 4 if thorough else 1
    cre, cim, claims = [], [], []
    rre, rclaims = [], []
    for sh in shapes:
        if sh[0] == "r":
            for v, o in class_values(fm, sh[1], thorough, max(ndraw, 2), rng):
                rre.append(v)
                rclaims.append((sh[1], o, "", 0, "na"))
            continue
        _, cx, cy, rel = sh
        if rel in ("lt", "eq", "gt") and cx in fm.ranges:
            for _ in range(ndraw + 1):
                a, b = sorted(int(v) for v in draw_range(fm, cx, 2, rng))
                if a == b:
                    b = a + 1
                x, y = {"lt": (a, b), "eq": (a, a), "gt": (b, a)}[rel]
                cre.append(x)
                cim.append(y)
                claims.append((cx, 0, cy, 0, rel))
            continue
        xs = class_values(fm, cx, thorough, ndraw, rng)
        ys = class_values(fm, cy, thorough, ndraw, rng)
        if rel == "eq":                                   # the same computed threshold in both components
            for (x, ox) in xs:
                cre.append(x)
                cim.append(x)
                claims.append((cx, ox, cy, ox, "eq"))
            continue
        if cx in fm.ranges and cy in fm.ranges:           # two different ranges: pair the draws
            pairs = list(zip(xs, ys))
        else:
            pairs = [(a, b) for a in xs for b in ys]
        for (x, ox), (y, oy) in pairs:
            cre.append(x)
            cim.append(y)
            claims.append((cx, ox, cy, oy, "na"))
    cpts = Points(fm, numpy.array(cre, dtype=fm.ut), numpy.array(cim, dtype=fm.ut), "lattice")
    rpts = Points(fm, numpy.array(rre, dtype=fm.ut), None, "lattice")
    return cpts, rpts, claims, rclaims


def uniform_bits(fm, n, rng, real=False):
    hi = numpy.iinfo(fm.ut).max
    re = rng.integers(0, hi, size=n, dtype=fm.ut, endpoint=True)
    im = None if real else rng.integers(0, hi, size=n, dtype=fm.ut, endpoint=True)
    return Points(fm, re, im, "bit-uniform")


def magnitudes(fm, n, rng):
    """+-2^u, u uniform in [-12, 12], as bit patterns."""
    v = (numpy.exp2(rng.uniform(-12.0, 12.0, size=n)) * rng.choice([-1.0, 1.0], size=n)).astype(fm.ft)
    return fm.ubits(v)


def magnitude_points(fm, n, rng, real=False):
    return Points(fm, magnitudes(fm, n, rng), None if real else magnitudes(fm, n, rng), "magnitude")


def axis_points(fm, n, rng):
    """Measure-zero sets: an axis, a diagonal |x| = |y|, a unit line, an infinite or largest component."""
    k = max(1, n // 12)
    nm = fm.nominal
    specials = [0, 0, nm["one"], nm["inf"], nm["minsub"], nm["largest"]]
    res, ims = [], []
    for sp in specials:
        for other in (magnitudes(fm, k, rng), uniform_bits(fm, k, rng, real=True).re):
            half = len(other) // 2
            spv = numpy.full(len(other), sp, dtype=fm.ut)
            spv ^= (rng.integers(0, 2, size=len(other), dtype=fm.ut) << fm.ut(fm.w - 1))
            res += [spv[:half], other[half:]]
            ims += [other[:half], spv[half:]]
    d = magnitudes(fm, k, rng)
    res.append(d)
    ims.append(d ^ (rng.integers(0, 2, size=k, dtype=fm.ut) << fm.ut(fm.w - 1)))
    d = uniform_bits(fm, k, rng, real=True).re
    res.append(d)
    ims.append(d ^ fm.S)
    return Points(fm, numpy.concatenate(res), numpy.concatenate(ims), "axes")


# ------------------------------------------------------------------------------------------------ orbits
def images(fm, re, im):
    """The driver's sign images (XOR on the sign bit), in the order of Symmetry!Images."""
    if im is None:
        return [(re, None), (re ^ fm.S, None)]
    return [(re, im), (re, im ^ fm.S), (re ^ fm.S, im ^ fm.S), (re ^ fm.S, im)]


def rot(fm, re, im):
    return im ^ fm.S, re


def nrot(fm, re, im):
    return im, re ^ fm.S


def evaluate(fn, fm, re, im):
    """Result components (bit patterns) of the package's expansion of fn at the points (re, im)."""
    if im is None:
        f = evalalgo.get_function(fn, fm.name)
        return [fm.ubits(f(fm.floats(re)))]
    f = evalalgo.get_function(fn, fm.cname)
    r = f(fm.cx(re, im))
    if r.dtype.kind == "c":
        return [fm.ubits(r.real), fm.ubits(r.imag)]
    return [fm.ubits(r)]


def orbit_lines(fn, pts, id0):
    """ndjson lines of the orbit events of fn over the base points pts (ids id0, id0+1, ...)."""
    fm = pts.fm
    cols = [limb_strs(pts.re, fm.w)]
    if pts.im is not None:
        cols.append(limb_strs(pts.im, fm.w))
    img = images(fm, pts.re, pts.im)
    ncomp = None
    for (r, i) in img:
        comps = evaluate(fn, fm, r, i)
        ncomp = len(comps)
        cols += [limb_strs(c, fm.w) for c in comps]
    par = PARENT.get(fn) if pts.im is not None else None
    if par:
        for (r, i) in img:
            if par[1]:
                r, i = rot(fm, r, i)
            cols += [limb_strs(c, fm.w) for c in evaluate(par[0], fm, r, i)]
    val = "[%s,%s]" if ncomp == 2 else "[%s]"
    zt = "[%s,%s]" if pts.im is not None else "[%s]"
    tmpl = ('{"id":%d,"kind":"orbit","fmt":"' + fm.name + '","fn":"' + fn + '","z":' + zt + ',"W":['
            + ",".join([val] * len(img)) + '],"P":[' + (",".join(["[%s,%s]"] * 4) if par else "") + "]}")
    return [tmpl % ((id0 + k,) + t) for k, t in enumerate(zip(*cols))]


def ops_lines(pts, id0):
    fm = pts.fm
    re, im = pts.re, pts.im
    c, n = images(fm, re, im)[1], images(fm, re, im)[2]
    r, q = rot(fm, re, im), nrot(fm, re, im)
    cols = [limb_strs(a, fm.w) for a in (re, im, c[0], c[1], n[0], n[1], r[0], r[1], q[0], q[1])]
    tmpl = ('{"id":%d,"kind":"ops","fmt":"' + fm.name + '","z":[%s,%s],"c":[%s,%s],"n":[%s,%s],"r":[%s,%s],"q":[%s,%s]}')
    return [tmpl % ((id0 + k,) + t) for k, t in enumerate(zip(*cols))]


def shape_lines(pts, claims, id0):
    fm = pts.fm
    re = limb_strs(pts.re, fm.w)
    im = limb_strs(pts.im, fm.w) if pts.im is not None else None
    out = []
    for k, (cx, ox, cy, oy, rel) in enumerate(claims):
        z = "[%s,%s]" % (re[k], im[k]) if im is not None else "[%s]" % re[k]
        out.append('{"id":%d,"kind":"shape","fmt":"%s","z":%s,"cx":"%s","ox":%d,"cy":"%s","oy":%d,"rel":"%s"}'
                   % (id0 + k, fm.name, z, cx, ox, cy, oy, rel))
    return out


# ------------------------------------------------------------------------------------------------ validation
class Validator:
    """Streams ndjson lines to chunk files and validates them with TLC while the driver keeps generating."""

    def __init__(self, chk, chunk, nproc=None):
        self.chk = chk
        self.chunk = chunk
        self.nproc = nproc or tlc.NCPU
        self.pool = cf.ThreadPoolExecutor(max_workers=self.nproc)
        self.futures = []
        self.buf = []
        self.batches = []          # (id0, n, meta) sorted by id0
        self.next_id = 0
        self.nfile = 0
        self.events = 0
        self.fails = []
        self.states = self.transitions = self.chunks = 0
        self.t0 = time.time()

    def add(self, meta, make_lines):
        """make_lines(id0) -> list of lines; meta describes the batch (for failure reports)."""
        lines = make_lines(self.next_id)
        self.batches.append((self.next_id, len(lines), meta))
        self.next_id += len(lines)
        self.events += len(lines)
        self.buf += lines
        while len(self.buf) >= self.chunk:
            self._submit(self.buf[:self.chunk])
            self.buf = self.buf[self.chunk:]
        # bound the number of chunk files waiting on disk
        while len([f for f in self.futures if not f.done()]) > 2 * self.nproc:
            time.sleep(0.2)

    def _submit(self, lines):
        path = os.path.join(tlc.workdir(), "sym_%d_%d.ndjson" % (os.getpid(), self.nfile))
        self.nfile += 1
        with open(path, "w") as f:
            f.write("\n".join(lines))
            f.write("\n")
        self.futures.append(self.pool.submit(self._run, path, len(lines)))

    @staticmethod
    def _run(path, n):
        r = tlc.run(TRACE, CFG, workers=1, env={"TRACE_FILE": path}, heap="2g", tag=os.path.basename(path))
        fails, done = [], None
        for line in tlc.printed_blocks(r.out):
            m = tlc.FAIL_RE.match(line)
            if m:
                fails.append((int(m.group(1)), sorted(_re.findall(r'"([^"]*)"', m.group(2)))))
                continue
            m = tlc.DONE_RE.match(line)
            if m:
                done = int(m.group(1))
        if not r.ok or done != n:
            raise tlc.MachineryError("trace spec %s did not consume %s (%s of %s lines, ok=%s):\n%s"
                                     % (TRACE, path, done, n, r.ok, r.out[-3000:]))
        os.unlink(path)
        return fails, r.distinct, r.generated

    def finish(self):
        if self.buf:
            self._submit(self.buf)
            self.buf = []
        for f in self.futures:
            fails, distinct, generated = f.result()
            self.fails += fails
            self.states += distinct
            self.transitions += generated
            self.chunks += 1
        self.pool.shutdown()
        return dict(fails=self.fails, notes=[], states=self.states, transitions=self.transitions, chunks=self.chunks,
                    wall=time.time() - self.t0)

    def lookup(self, eid):
        k = bisect.bisect_right([b[0] for b in self.batches], eid) - 1
        id0, n, meta = self.batches[k]
        assert id0 <= eid < id0 + n, (eid, id0, n)
        return meta, eid - id0


# ------------------------------------------------------------------------------------------------ verdicts
def hexbits(fm, v):
    return "0x%0*x" % (fm.w // 4, int(v))


def describe(fn, fm, re, im, clause):
    """One line for a failure report: the point, the clause and the values at the orbit (decoded for reading only)."""
    one = lambda v: numpy.array([v], dtype=fm.ut)  # noqa: E731
    x = float(fm.floats(one(re))[0])
    if im is None:
        zs = "x=%r [%s]" % (x, hexbits(fm, re))
        imgs, names = images(fm, one(re), None), "x, -x"
    else:
        y = float(fm.floats(one(im))[0])
        zs = "z=(%r, %r) [%s, %s]" % (x, y, hexbits(fm, re), hexbits(fm, im))
        imgs, names = images(fm, one(re), one(im)), "z, conj z, -z, -conj z"
    vals = []
    for (r, i) in imgs:
        vals.append("(" + ", ".join(repr(float(fm.floats(c)[0])) for c in evaluate(fn, fm, r, i)) + ")")
    return "%s %s(%s) %s: clause %s; f at %s = %s" % ("complex" if im is not None else "real", fn, fm.name, zs, clause,
                                                     names, " ".join(vals))


def report(chk, val, res):
    for eid, clauses in res["fails"]:
        meta, k = val.lookup(eid)
        if meta["kind"] != "orbit" or any(c.startswith(HARNESS_CLAUSES) for c in clauses):
            raise tlc.MachineryError("harness defect: event %d of batch %s failed %s" % (eid, {a: b for a, b in meta.items() if a != "pts"}, clauses))
        pts, fn = meta["pts"], meta["fn"]
        fm = pts.fm
        re = int(pts.re[k])
        im = int(pts.im[k]) if pts.im is not None else None
        dom = "complex" if im is not None else "real"
        for clause in clauses:
            key = "%s:%s:%s" % (fn, dom, clause)
            chk.fail(key, describe(fn, fm, re, im, clause),
                     dict(fn=fn, fmt=fm.name, domain=dom, re=hexbits(fm, re), im=hexbits(fm, im) if im is not None else None,
                          clause=clause, source=pts.src))


# ------------------------------------------------------------------------------------------------ run
def export_shapes(chk):
    r = tlc.run("SymmetryShapes", "SymmetryShapes.cfg", workers=1, timeout=600)
    if not r.ok:
        raise tlc.MachineryError("shape export failed:\n" + r.out[-2000:])
    chk.add_mc("SymmetryShapes", r)
    shapes = sorted((v[1] for v in tlaval.printed_values(r.out, "S")), key=json.dumps)
    nc = sum(1 for s in shapes if s[0] == "c")
    nr = sum(1 for s in shapes if s[0] == "r")
    if nc < 700 or nr < 25:
        raise tlc.MachineryError("shape export too small: %d complex, %d real shapes" % (nc, nr))
    return shapes


def check_evaluator(chk):
    """Machinery self-test: the vectorised evaluator equals the same text run pointwise with the package's own
    run-time environment (Python max/min, utils.make_complex), and no complex-valued operation is native."""
    try:
        rep = evalalgo.self_check(n=120, seed=chk.seed, against_numpy_target=False)
    except RuntimeError as ex:
        raise tlc.MachineryError(str(ex))
    bad = {k: v for k, v in rep.items() if v["vector_vs_scalar_mismatches"]}
    if bad:
        raise tlc.MachineryError("vectorised evaluation differs from pointwise evaluation of the same text: %s" % bad)
    return len(rep)


def run(tier, seed):
    import_repo()
    chk = Check(PID, tier, seed)
    quick = tier == "quick"
    rng = numpy.random.default_rng(seed)
    # ---- U1 in the background (TLC is a subprocess)
    pool = cf.ThreadPoolExecutor(max_workers=1)
    u1 = pool.submit(tlc.run, "MC_Symmetry", "MC_Symmetry_quick.cfg" if quick else "MC_Symmetry.cfg", workers=4, timeout=1800)
    # ---- the functions
    nfun = check_evaluator(chk)
    complex_fns = [(n, d) for n, d in evalalgo.available("complex")]
    real_fns = []
    for name in REAL_FNS:
        for d in evalalgo.REAL_DTYPES:
            try:
                evalalgo.get_function(name, d)
                real_fns.append((name, d))
            except evalalgo.NotAvailable as ex:
                if d == "float64":
                    chk.note("no real algorithm in algorithms.py: %s - its identities are not checked" % ex)
    if len(complex_fns) != 2 * len(evalalgo.COMPLEX_NAMES):
        raise tlc.MachineryError("complex algorithms missing: %s" % complex_fns)
    # ---- U2 shapes
    shapes = export_shapes(chk)
    scale = float(os.environ.get("FA_C03_SCALE", "1"))      # development aid (mutation runs): scales the random part
    n_uniform = int((8000 if quick else 80000) * scale)      # orbits (x4 points) per (function, dtype) and distribution
    n_magn = int((8000 if quick else 80000) * scale)
    n_axes = int((2400 if quick else 20000) * scale)
    total_guess = (len(complex_fns) + len(real_fns)) * (n_uniform + n_magn + n_axes + 3000)
    chunk = max(4000, min(60000, total_guess // tlc.NCPU + 1))
    val = Validator(chk, chunk)
    stats = dict(orbits=0, points=0, by_source={}, by_function={}, lattice_points={})
    nontrivial = 0
    for fname in ("float32", "float64"):
        fm = fmt_of(fname)
        cl, rl, claims, rclaims = lattice(fm, shapes, not quick, rng)
        stats["lattice_points"][fname] = dict(complex=len(cl), real=len(rl))
        # harness binding: the classes the driver claims and the images it evaluates at
        val.add(dict(kind="shape", fmt=fname), lambda i0: shape_lines(cl, claims, i0))
        val.add(dict(kind="shape", fmt=fname), lambda i0: shape_lines(rl, rclaims, i0))
        sample = uniform_bits(fm, 1500, rng)
        val.add(dict(kind="ops", fmt=fname), lambda i0: ops_lines(cl, i0))
        val.add(dict(kind="ops", fmt=fname), lambda i0: ops_lines(sample, i0))
        for fn, dt in complex_fns:
            if evalalgo.COMPONENT[dt] != fname:
                continue
            for pts in (cl, uniform_bits(fm, n_uniform, rng), magnitude_points(fm, n_magn, rng), axis_points(fm, n_axes, rng)):
                val.add(dict(kind="orbit", fn=fn, pts=pts), lambda i0: orbit_lines(fn, pts, i0))
                stats["orbits"] += len(pts)
                stats["points"] += 4 * len(pts)
                stats["by_source"][pts.src] = stats["by_source"].get(pts.src, 0) + len(pts)
                stats["by_function"][fn + ":" + dt] = stats["by_function"].get(fn + ":" + dt, 0) + len(pts)
                nan = numpy.isnan(fm.floats(pts.re)) | numpy.isnan(fm.floats(pts.im))
                nontrivial += int((~nan).sum())
        for fn, dt in real_fns:
            if dt != fname:
                continue
            for pts in (rl, uniform_bits(fm, n_uniform, rng, real=True), magnitude_points(fm, n_magn, rng, real=True)):
                val.add(dict(kind="orbit", fn=fn, pts=pts), lambda i0: orbit_lines(fn, pts, i0))
                stats["orbits"] += len(pts)
                stats["points"] += 2 * len(pts)
                stats["by_source"][pts.src] = stats["by_source"].get(pts.src, 0) + len(pts)
                stats["by_function"][fn + ":" + dt] = stats["by_function"].get(fn + ":" + dt, 0) + len(pts)
                nontrivial += int((~numpy.isnan(fm.floats(pts.re))).sum())
        if chk.samples == [] or len(chk.samples) < 4:
            chk.sample(json.loads(orbit_lines("asin", Points(fm, cl.re[40:41], cl.im[40:41], "lattice"), 0)[0]))
    res = val.finish()
    chk.add_trace(TRACE, res, val.events, ntraces=res["chunks"])
    # ---- U1 result
    r = u1.result()
    chk.add_mc("MC_Symmetry", r)
    if not r.ok:
        if r.invariant_violated:
            raise tlc.MachineryError("MC_Symmetry violates %s:\n%s" % (r.invariant_violated, r.error_trace()))
        raise tlc.MachineryError("MC_Symmetry did not complete:\n" + r.out[-2000:])
    expect = 128 + (1024 + 3072 if quick else 4096 + 65536)
    if r.distinct != expect:
        raise tlc.MachineryError("MC_Symmetry explored %d states, expected %d" % (r.distinct, expect))
    wit = {}
    for v in tlaval.printed_values(r.out, "W"):
        k = "%s:%s" % (v[1], v[2] if isinstance(v[2], str) else "+".join(v[2]["__set__"]))
        wit[k] = wit.get(k, 0) + 1
    for need in ("asin:odd:im0:offcut:re=eq:im=sign0", "asinh:odd:re0:offcut:re=sign0:im=eq", "atan:odd:im0:offcut:re=eq:im=sign0",
                 "atanh:odd:re0:offcut:re=sign0:im=eq", "real:odd:x0:offcut:v=sign0"):
        if not wit.get(need):
            raise tlc.MachineryError("vacuous model run: no witness for %s" % need)
    chk.cov["u1"] = dict(witnesses=wit)
    # ---- verdicts
    report(chk, val, res)
    chk.assumptions += [
        "the implementation evaluated is the text the package prints for a NumPy-like target in which every operation on a "
        "complex operand is expanded by the package's own definitions (harness/evalalgo.py); real primitives (including real "
        "hypot, sin, cos, log, log1p, atan2, sign) are NumPy's",
        "inputs with a NaN component are outside the domain of every identity (the statement lists infinities, zeros and "
        "subnormals; the sign bit of a NaN is not a sign); outputs: any NaN pattern matches any NaN pattern, componentwise",
        "oddness is not demanded at the zero-component points of the function's branch cuts, the branch points |.| = 1 included "
        "(asin, atanh: im z = +-0 and |re z| >= 1; asinh, atan: re z = +-0 and |im z| >= 1); it IS demanded on the axes off the "
        "cuts and at the origin",
        "acosh(z) = +-i acos(z): 'negative' imaginary part means sign bit set and not a zero; when im z = +-0 either rotation is "
        "accepted (the real axis is a cut of acos or acosh everywhere)",
        "conj is demanded only for a non-zero imaginary part (as the statement says), whatever the real part",
        "real atan and atanh have no algorithm in algorithms.py (NotImplemented): nothing to check for them",
    ]
    return chk.finish(
        rule="one event = one orbit {z, conj z, -z, -conj z} (real: {x, -x}) of one algorithm and component format; per "
             "(function, dtype): every TLC input shape concretised (%s) + %d bit-uniform + %d log-uniform-magnitude + %d "
             "axis/diagonal orbits; non-trivial = orbits whose base point has no NaN component (the identities of the function "
             "are demanded on them, except conj at zero imaginary part and oddness on cut points)" % (
                 "exact points, 1 draw per range" if quick else "points and +-1 ulp neighbours, 4 draws per range", n_uniform, n_magn, n_axes),
        distinct_nontrivial=nontrivial,
        extra_cov=dict(orbit_events=stats["orbits"], points_evaluated=stats["points"], shapes=len(shapes),
                       functions_self_checked=nfun, lattice_points=stats["lattice_points"], by_source=stats["by_source"],
                       by_function=stats["by_function"], complex_functions=len(complex_fns), real_functions=len(real_fns)))


def replay(path):
    import_repo()
    with open(path) as f:
        rp = json.load(f)["replay"]
    fm = fmt_of(rp["fmt"])
    re = numpy.array([int(rp["re"], 16)], dtype=fm.ut)
    im = numpy.array([int(rp["im"], 16)], dtype=fm.ut) if rp.get("im") is not None else None
    pts = Points(fm, re, im, "replay")
    line = orbit_lines(rp["fn"], pts, 0)[0]
    print(line)
    res = tlc.validate_events(TRACE, CFG, [json.loads(line)], nproc=1)
    dom = "complex" if im is not None else "real"
    for eid, clauses in res["fails"]:
        for clause in clauses:
            print("VIOLATION property=%s replay=%s  # %s:%s:%s: %s" % (
                PID, path, rp["fn"], dom, clause, describe(rp["fn"], fm, int(re[0]), int(im[0]) if im is not None else None, clause)))
    return 1 if res["fails"] else 0
