"""C04 - rewriting never changes what an expression denotes.

U1: the three relational-operator tables are EXTRACTED from /repo's rewrite.py at check time into
    a generated TLA+ module and checked exhaustively by TLC (MC_Relop) against the order of the
    float lattice: every folded entry must hold for every pair of values of its classes.
U2: FATerms.tla makes TLC enumerate every small term, every comparison between sign-class
    representatives, one template per rule left-hand side, and sampled deeper terms; the driver
    builds each in the real package and rewrites it with the real rewriter.
U3: the original and rewritten terms are projected back to spec terms and Trace_Rewrite.tla
    evaluates both with the spec's own semantics (FAIR.tla: exact rationals and IEEE arithmetic)
    under every assignment of a small domain.  No Python interpreter of the IR is involved.
"""
import contextlib
import io
import json
import math
import os
import random
import re
import signal
import warnings
from fractions import Fraction

import numpy

from .. import tlc, tlaval, bits
from ..common import Check, import_repo

PID = "C04"
NAMED = {"largest", "smallest", "smallest_subnormal", "eps", "posinf", "neginf"}
NUMS = {"0": 0, "1": 1, "-1": -1, "2": 2, "3": 3, "4": 4, "1/2": 0.5, "0.1": 0.1, "0.2": 0.2, "-0.0": -0.0,
        "1e300": 1e300, "1e-300": 1e-300, "int:3": 3, "int:0": 0, "int:1": 1,
        # NumPy scalars of a given width, whatever the expression's type
        "np64:0.1": numpy.float64(0.1), "np64:0.7": numpy.float64(0.7), "np64:sqrt2": numpy.sqrt(numpy.float64(2)),
        "np64:log2": numpy.log(numpy.float64(2)), "np32:third": numpy.float32(1) / numpy.float32(3),
        "np32:seventh": numpy.float32(1) / numpy.float32(7)}
# powers of two at the edges of the expression's own format (resolved per type in build)
POW2 = {"minsub": lambda fi: float(fi.smallest_subnormal), "minsub2": lambda fi: float(fi.smallest_subnormal) * 4,
        "minnormal": lambda fi: float(fi.smallest_normal), "max": lambda fi: float(2.0 ** (fi.maxexp - 1)),
        "-minsub": lambda fi: -float(fi.smallest_subnormal)}


class Timeout(Exception):
    pass


def _alarm(signum, frame):
    raise Timeout()


def gen_terms(gen, chk, maxops=2, nrandom=100, maxdepth=4, seed=1):
    with open(os.path.join(tlc.SPEC, "FATerms.cfg")) as f:
        txt = f.read()
    txt = (txt.replace('Gen = "small"', 'Gen = "%s"' % gen).replace("MaxOps = 2", "MaxOps = %d" % maxops)
           .replace("NumRandom = 100", "NumRandom = %d" % nrandom).replace("MaxDepth = 4", "MaxDepth = %d" % maxdepth))
    p = os.path.join(tlc.workdir(), "terms_%s_%d.cfg" % (gen, seed))
    with open(p, "w") as f:
        f.write(txt)
    r = tlc.run("FATerms", p, workers=1, extra=["-seed", str(seed)], timeout=1800)
    if not r.ok:
        raise tlc.MachineryError("FATerms %s failed:\n%s" % (gen, r.out[-2000:]))
    chk.add_mc("FATerms(%s)" % gen, r)
    return [h[1] for h in tlaval.fast_tuples(r.out, "H")]


CNUMS = {"1+2j": 1 + 2j, "3+4j": 3 + 4j, "0": 0j, "1j": 1j}
CTYPE = {"float": "complex", "float32": "complex64", "float64": "complex128"}


def build(ctx, term, ty):
    """nested tuple from FATerms -> real Expr"""
    k = term[0]
    x = ctx.symbol("x", ty)
    if k == "sym":
        if term[1] in ("z", "w"):
            return ctx.symbol(term[1], CTYPE[ty])
        return ctx.symbol(term[1], "boolean" if term[1] in ("b", "c") else ty)
    if k == "num":
        if term[1].startswith("pow2:"):
            fi = numpy.finfo(getattr(numpy, ty if ty in ("float16", "float32", "float64") else "float64"))
            return ctx.constant(POW2[term[1][5:]](fi), x)
        return ctx.constant(NUMS[term[1]], x)
    if k == "numz":
        return ctx.constant(NUMS[term[1]], ctx.symbol("z", CTYPE[ty]))
    if k == "cnum":
        return ctx.constant(CNUMS[term[1]], ctx.symbol("z", CTYPE[ty]))
    if k == "named":
        return ctx.constant(term[1], x)
    if k == "bool":
        return ctx.constant(bool(term[1]))
    if k == "idx":
        return int(term[1])
    if k == "idxc":
        return ctx.constant(int(term[1]))
    if k == "list":
        return ctx.list([build(ctx, t, ty) for t in term[1:]])
    ops = [build(ctx, t, ty) for t in term[1:]]
    return getattr(ctx, k)(*ops)


LEAF = dict(a=[], n="", q=[[0, []], [1]], b=False, t="", qi=[[0, []], [1]], lv=0)
FMTBITS = {"float16": 16, "float32": 32, "float64": 64}


def _bits_of(e):
    """component width of a float/complex-typed expression, None if unsized / not a float"""
    try:
        t = e.get_type()
        if t.kind == "float":
            return t.bits
        if t.kind == "complex":
            return None if t.bits is None else t.bits // 2
    except Exception:  # noqa
        pass
    return None


def _is_complex_typed(e):
    try:
        return e.get_type().kind == "complex"
    except Exception:  # noqa
        return False


def _level(e, fmt):
    b = _bits_of(e)
    if b is None:
        return 0
    return {1: 0, 2: 1, 4: 2}.get(b // FMTBITS[fmt], 0) if b >= FMTBITS[fmt] else {2: -1, 4: -2}.get(FMTBITS[fmt] // b, 0)


def _frac(v):
    fr = Fraction(v) if isinstance(v, int) else Fraction(float(v))
    return [bits.zint(fr.numerator), bits.nat(fr.denominator)]


def project(fa, e, fmt, memo=None):
    """real Expr -> spec term (JSON for FAIR.tla)"""
    from functional_algorithms.expr import Expr
    if memo is None:
        memo = {}
    if id(e) in memo:
        return memo[id(e)]
    if e.kind == "symbol":
        t = str(e.operands[1])
        r = dict(LEAF, k="sym", n=e.operands[0], t="boolean" if t == "boolean" else "complex" if t.startswith("complex") else fmt)
    elif e.kind == "constant":
        v = e.operands[0]
        lv = _level(e, fmt)
        if isinstance(v, Expr):
            r = dict(LEAF, k="unsupported_altconst")
        elif isinstance(v, (bool, numpy.bool_)):
            r = dict(LEAF, k="bool", b=bool(v))
        elif isinstance(v, str):
            r = dict(LEAF, k="named", n=v, lv=lv)
        elif isinstance(v, (complex, numpy.complexfloating)):
            cv = complex(v)
            if math.isfinite(cv.real) and math.isfinite(cv.imag) and not (isinstance(v, numpy.complexfloating) and v.dtype.itemsize > 16):
                r = dict(LEAF, k="cnum", q=_frac(cv.real), qi=_frac(cv.imag), lv=lv)
            else:
                r = dict(LEAF, k="unsupported_complex_value")
        elif isinstance(v, (int, float, numpy.floating, numpy.integer)) and _is_complex_typed(e) and math.isfinite(float(v)):
            r = dict(LEAF, k="cnum", q=_frac(v if isinstance(v, int) else float(v)), lv=lv)
        elif isinstance(v, (int, float, numpy.floating, numpy.integer)):
            fv = float(v) if not isinstance(v, int) else v
            if isinstance(fv, float) and math.isinf(fv):
                r = dict(LEAF, k="named", n="posinf" if fv > 0 else "neginf", lv=lv)
            elif isinstance(fv, float) and math.isnan(fv):
                r = dict(LEAF, k="named", n="nan")
            else:
                fr = Fraction(v) if isinstance(v, int) else Fraction(float(v)) if not isinstance(v, numpy.floating) else Fraction(float(numpy.float64(v)))
                if isinstance(v, numpy.floating) and v.dtype.itemsize > 8:
                    r = dict(LEAF, k="unsupported_longdouble")
                else:
                    r = dict(LEAF, k="num", q=[bits.zint(fr.numerator), bits.nat(fr.denominator)], lv=lv)
        else:
            r = dict(LEAF, k="unsupported_value_" + type(v).__name__)
    elif e.kind in ("upcast", "downcast"):
        (x,) = e.operands
        bx, be = _bits_of(x), _bits_of(e)
        if bx is None or be is None or bx == be:
            kind = "positive"        # a cast of an unsized float is the identity
        elif be == 2 * bx:
            kind = "upcast"
        elif 2 * be == bx:
            kind = "downcast"
        else:
            kind = "unsupported_cast"
        r = dict(LEAF, k=kind, a=[project(fa, x, fmt, memo)])
    else:
        r = dict(LEAF, k=e.kind, a=[project(fa, o, fmt, memo) if isinstance(o, Expr) else
                                    dict(LEAF, k="num", q=_frac(o)) if isinstance(o, int) else dict(LEAF, k="unsupported_operand")
                                    for o in e.operands])
    memo[id(e)] = r
    return r


def subterms(e, seen=None, out=None):
    if seen is None:
        seen, out = set(), []
    if id(e) in seen:
        return out
    seen.add(id(e))
    out.append(e)
    for o in e.operands:
        if hasattr(o, "kind"):
            subterms(o, seen, out)
    return out


PROPS = ["positive", "negative", "nonpositive", "nonnegative", "finite", "zero"]


def inferences(fa, e, fmt):
    """optional sub-check: the rewriter's private sign/finiteness inference on every sub-term"""
    out = []
    for s in subterms(e):
        if s.kind in ("symbol",) and str(s.operands[1]) == "boolean":
            continue
        try:
            if s._is_boolean:
                continue
        except Exception:  # noqa
            continue
        for p in PROPS:
            try:
                v = getattr(s, "_is_" + p)
            except AttributeError:
                return None
            except Exception:  # noqa
                continue
            if v is None:
                continue
            out.append(dict(t=project(fa, s, fmt), prop=p, val=bool(v)))
    return out


def rewrite_event(fa, ctx, term, ty, fmt, variant, eid, with_infer):
    from functional_algorithms import rewrite as rewrite_mod
    from functional_algorithms import targets
    ev = dict(id=eid, fmt=fmt, ty=ty, variant=variant, src=term, raised="", t=dict(LEAF, k="bool", b=True),
              t2=dict(LEAF, k="bool", b=True), infer=[])
    try:
        e = build(ctx, term, ty)
    except Exception as ex:  # building is not the property: skip, but count
        ev["raised"] = ""
        ev["build_error"] = "%s: %s" % (type(ex).__name__, str(ex)[:100])
        return ev
    ev["t"] = project(fa, e, fmt)
    old = signal.signal(signal.SIGALRM, _alarm)
    signal.setitimer(signal.ITIMER_REAL, 20.0)
    try:
        with warnings.catch_warnings(), contextlib.redirect_stdout(io.StringIO()):   # the rewriter prints TODO/NOTIMPL notes
            warnings.simplefilter("ignore")
            if variant == "rewrite":
                r = e.rewrite(rewrite_mod)
            elif variant == "numpy+rewrite":
                r = e.rewrite(targets.numpy, rewrite_mod)
            elif variant == "cpp+rewrite":
                r = e.rewrite(targets.cpp, rewrite_mod)
            else:
                r = e.rewrite(rewrite_mod).rewrite(rewrite_mod)
        ev["t2"] = project(fa, r, fmt)
    except Timeout:
        ev["raised"] = "Timeout"
    except RecursionError:
        ev["raised"] = "RecursionError"
    except NotImplementedError as ex:
        declined = False
        if variant in ("numpy+rewrite", "cpp+rewrite"):
            # the target's expansion pass declines a kind it has no implementation for: the expression is not one the
            # target accepts - not judged.  Decided by running the expansion pass ALONE (it raises NotImplementedError
            # by itself), never by the wording of the message.
            try:
                e.rewrite(targets.numpy if variant == "numpy+rewrite" else targets.cpp)
            except NotImplementedError:
                declined = True
            except Exception:  # noqa
                pass
        if declined:
            ev["declined"] = str(ex)[:100]
        else:
            ev["raised"] = type(ex).__name__
            ev["raised_msg"] = str(ex)[:200]
    except Exception as ex:  # noqa
        ev["raised"] = type(ex).__name__
        ev["raised_msg"] = str(ex)[:200]
    finally:
        signal.setitimer(signal.ITIMER_REAL, 0)
        signal.signal(signal.SIGALRM, old)
    if with_infer and not ev["raised"]:
        try:
            inf = inferences(fa, e, fmt)
        except Exception:  # noqa
            inf = None
        ev["infer"] = inf or []
    return ev


def extract_tables(fa):
    """The live relop tables of rewrite.py as a generated TLA+ module (text)."""
    from functional_algorithms import rewrite as rw

    def name(x):
        return '"%s"' % (x if isinstance(x, str) else {1: "one", 0: "zero"}[x])

    def tri(v):
        return {True: '"T"', False: '"F"', None: '"N"'}[v]

    parts = []
    for tname, table in [("ConstConst", rw._constant_relop_constant), ("ConstAny", rw._constant_relop_any), ("AnyAny", rw._any_relop_any)]:
        rows = []
        for (a, b), r in table.items():
            if not (isinstance(a, (str, int)) and isinstance(b, (str, int))):
                continue
            rows.append("<<%s, %s, <<%s>>>>" % (name(a), name(b), ", ".join(tri(v) for v in r)))
        parts.append("%s == {\n  %s}" % (tname, ",\n  ".join(rows)))
    return "---- MODULE RelopTables ----\n(* generated from /repo functional_algorithms/rewrite.py at check time *)\n" + "\n".join(parts) + "\n====\n"


def check_tables(fa, chk):
    try:
        text = extract_tables(fa)
    except AttributeError as ex:
        # the tables are private data of rewrite.py: when they are not found under their names (a refactoring may rename or
        # restructure them) the table sub-check is skipped - the differential evaluation below judges the rewriter anyway
        chk.note("relational tables of rewrite.py not found under their names (%s): table sub-check skipped" % ex)
        chk.cov["relop_table_rows_checked"] = 0
        return 0
    wd = tlc.workdir()
    with open(os.path.join(wd, "RelopTables.tla"), "w") as f:
        f.write(text)
    for fn in ("MC_Relop.tla", "MC_Relop.cfg"):
        with open(os.path.join(tlc.SPEC, fn)) as f, open(os.path.join(wd, fn), "w") as g:
            g.write(f.read())
    r = tlc.run("MC_Relop", "MC_Relop.cfg", workers=1, cwd=wd, library=tlc.SPEC)
    chk.add_mc("MC_Relop(live tables)", r)
    if not r.finished:
        raise tlc.MachineryError("MC_Relop failed:\n" + r.out[-2500:])
    bad = tlaval.fast_tuples(r.out, "BAD")
    rows = tlaval.fast_tuples(r.out, "ROWS")
    chk.cov["relop_table_rows_checked"] = rows[0][1] if rows else 0
    for b in bad:
        _, table, lhs, rhs, op, claimed, wa, wb = b
        chk.fail("relop_table:%s:%s,%s:%s" % (table, lhs, rhs, op),
                 "table %s row (%s, %s) folds %s to %s, false for the values (%s, %s)" % (table, lhs, rhs, op, claimed, wa, wb),
                 dict(table=table, row=[lhs, rhs], op=op, claimed=claimed, witness=[wa, wb]))
    return len(bad)


def key_of(ev, clauses):
    def shape(t, d=0):
        if isinstance(t, list):
            if t[0] in ("sym", "bool", "cnum", "numz", "idx", "idxc"):
                return t[0]
            if t[0] == "num":
                return "num"
            if t[0] == "named":
                return t[1]
            if d >= 2:
                return t[0]
            return "%s(%s)" % (t[0], ",".join(shape(x, d + 1) for x in t[1:]))
        return str(t)
    if list(clauses) == ["float_updown"]:
        return "float_updown:upcast(downcast(x))->x"
    return "%s:%s" % ("+".join(clauses), shape(ev["src"]))


def run(tier, seed):
    fa = import_repo()
    chk = Check(PID, tier, seed)
    quick = tier == "quick"
    # U1: live tables
    check_tables(fa, chk)
    # U2: terms
    rng = random.Random(seed)
    jobs = []  # (gen, term)
    small = gen_terms("small", chk, maxops=2)
    if quick:
        small = [t for t in small if rng.random() < 0.35]
    jobs += [("small", t) for t in small]
    jobs += [("relop", t) for t in gen_terms("relop", chk)]
    jobs += [("rules", t) for t in gen_terms("rules", chk)]
    jobs += [("random", t) for t in gen_terms("random", chk, nrandom=1500 if quick else 20000, maxdepth=4 if quick else 5, seed=seed + 7)]
    jobs += [("ext", t) for t in gen_terms("ext", chk)]
    jobs += [("extrandom", t) for t in gen_terms("extrandom", chk, nrandom=600 if quick else 6000, maxdepth=3 if quick else 4, seed=seed + 11)]
    tys = [("float", "float64"), ("float32", "float32"), ("float64", "float64")]
    variants = ["rewrite", "rewrite", "numpy+rewrite", "rewrite", "twice", "cpp+rewrite"]
    nbuild = 0
    shared_ctx, shared_n = None, 0
    next_id = 0
    nevents = 0
    seen_pairs = set()          # digests of (format, outcome, term, result) already validated in an earlier batch
    changed_src = set()
    unsupported = 0
    bad_inf = []
    sample_done = False
    BATCH = 10 ** 9 if quick else 4000      # jobs per batch: bounds the memory of a thorough run (events carry whole terms)
    chk.cov["terms"] = len(jobs)
    import hashlib
    for lo in range(0, len(jobs), BATCH):
        events = []
        for i in range(lo, min(lo + BATCH, len(jobs))):
            gen, term = jobs[i]
            combos = [(tys[i % 3], variants[i % len(variants)])]
            if gen in ("rules", "relop") or not quick:
                combos = [(ty, variants[(i + j) % len(variants)]) for j, ty in enumerate(tys)]
            for (ty, fmt), variant in combos:
                # a fresh Context per term, except every 7th term which reuses a shared one
                if i % 7 == 3:
                    if shared_ctx is None or shared_n > 40:
                        shared_ctx, shared_n = fa.Context(paths=[fa.algorithms]), 0
                    ctx = shared_ctx
                    shared_n += 1
                else:
                    ctx = fa.Context(paths=[fa.algorithms])
                ev = rewrite_event(fa, ctx, term, ty, fmt, variant, next_id, with_infer=False)
                next_id += 1
                ev["gen"] = gen
                if "build_error" in ev or "declined" in ev:
                    nbuild += 1
                    continue
                events.append(ev)
        if not events:
            continue
        nevents += len(events)
        if not sample_done:
            chk.sample(dict(src=events[len(events) // 2]["src"], t=events[len(events) // 2]["t"], t2=events[len(events) // 2]["t2"]))
            sample_done = True
        # identical (format, term, result, outcome) pairs are validated once
        uniq = {}
        for e in events:
            st, st2 = json.dumps(e["t"]), json.dumps(e["t2"])
            if st != st2:
                changed_src.add(json.dumps(e["src"]))
            k = hashlib.sha1(json.dumps([e["fmt"], e["raised"], st, st2]).encode()).digest()
            if k not in seen_pairs:
                seen_pairs.add(k)
                uniq[k] = slim(e)
        todo = list(uniq.values())
        if not todo:
            continue
        random.Random(seed * 7919 + 13 + lo).shuffle(todo)      # the chunks then cost about the same
        res = tlc.validate_events("Trace_Rewrite", "Trace.cfg", todo, name="rw%d" % lo, timeout=7200)
        chk.add_trace("Trace_Rewrite", res, len(events), ntraces=len(todo))
        byid = {e["id"]: e for e in events}
        witness = {i: w for i, w in res["notes"] if "unsupported" not in w and not w.startswith('"infer')}
        unsupported += sum(1 for i, w in res["notes"] if "unsupported" in w)
        for eid, clauses in res["fails"]:
            ev = byid[eid]
            msg = "%s [%s/%s] %s -> %s" % (json.dumps(ev["src"]), ev["ty"], ev["variant"], clauses, ev.get("raised_msg", ""))
            chk.fail(key_of(ev, clauses), msg[:600], dict(term=ev["src"], ty=ev["ty"], fmt=ev["fmt"], variant=ev["variant"], clauses=clauses,
                                                          raised=ev["raised"], witness=witness.get(eid, ""), t2=ev["t2"]))
        bad_inf += [(i, w) for i, w in res["notes"] if w.startswith('"infer')]
    chk.cov["build_errors_skipped"] = nbuild
    chk.cov["distinct_rewrite_pairs_validated"] = len(seen_pairs)
    chk.cov["events_with_unsupported_kinds"] = unsupported
    # unsound private inferences (not a violation by themselves)
    chk.cov["unsound_inferences_noted"] = len(bad_inf)
    if bad_inf:
        chk.note("unsound private inference on %d (sub-term, property) pairs, e.g. event %s %s" % (len(bad_inf), bad_inf[0][0], bad_inf[0][1][:200]))
    chk.assumptions += ["exact-arithmetic clause judged only for terms whose numeric constants are small dyadics",
                        "float clause: symbols range over finite values; a node is exceptional when it yields NaN, overflows, underflows or does arithmetic on an infinity",
                        "kinds evaluated by the spec: " + "arith, min/max, abs, sign, sqrt, square, comparisons, logical ops, select, named and numeric constants; events containing other kinds are counted, not judged",
                        "each term rewritten under a 20 s budget (Timeout counts as 'raised')"]
    changed = len(changed_src)
    return chk.finish(rule="terms enumerated by TLC from FATerms (small: all terms with <= 2 operator nodes; relop: all comparisons of "
                           "sign-class representatives; rules: rule templates; random: sampled depth <= 5); non-trivial = distinct "
                           "terms that the rewriter actually changed",
                      distinct_nontrivial=changed)


def slim(e):
    return dict(id=e["id"], fmt=e["fmt"], raised=e["raised"], t=e["t"], t2=e["t2"], infer=e["infer"])


def replay(path):
    fa = import_repo()
    with open(path) as f:
        rp = json.load(f)["replay"]
    if "table" in rp:
        chk = Check(PID, "quick", 0)
        n = check_tables(fa, chk)
        for v in chk.violations:
            print("VIOLATION property=%s replay=%s  # %s" % (PID, path, v[1]))
        return 1 if n else 0
    ev = rewrite_event(fa, fa.Context(paths=[fa.algorithms]), rp["term"], rp["ty"], rp["fmt"], rp["variant"], 0, True)
    print(json.dumps(ev)[:3000])
    res = tlc.validate_events("Trace_Rewrite", "Trace.cfg", [slim(ev)], stateful=True)
    for eid, clauses in res["fails"]:
        print("VIOLATION property=%s replay=%s  # clauses %s" % (PID, path, clauses))
    print(res["notes"])
    return 1 if res["fails"] else 0
