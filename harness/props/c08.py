"""C08 - static types equal run-time types.

U1: TLC checks MC_Types: the inference design (FATypes!TypeOf) against NumPy's documented promotion for the
    call forms the NumPy printer emits (FATypes!NpResult) on every well-typed DAG of the bound; the
    design-level disagreements it lists are compared with what the code does (notes only).
U2: TLC (TypedTerms.tla) enumerates well-typed terms with a dtype assignment of their symbols: every
    one-operation term, two-operation compositions, sampled deeper terms.  Each is traced in the real
    package (Context.trace), rewritten for the NumPy target (every third random term also by the package's
    rewriter) and printed: as the package prints it with debug=1 ("nat1") and debug=0 ("nat0", every 4th
    program), and with every node referenced (Expr.reference(force=True), public API) with debug=1
    ("forced1") so that every sub-expression is bound to a variable.  The shipped algorithms
    (targets.numpy.trace_arguments) go through the same pipeline.
U3: the emitted text is executed on several input vectors (operand ORDER varies: Python max/min return
    one of their operands; zeros, negatives, huge values; typed NumPy scalars and plain Python numbers).
    The text is not changed: it is parsed with `ast`, a recording call is inserted after every assignment
    and every `assert` is wrapped so that its outcome is recorded and the run continues; the unmodified
    text is executed too and must behave identically (else exit 2).  One event per bound variable (node
    kind, operand static types from get_type(), operand run-time dtypes, static type, declared dtype,
    run-time dtype, assertion outcome) is judged by Trace_Types.tla; identical events are judged once.

The driver decides nothing: it builds, prints, runs, records and finally groups the failing events into
classes (kind + operand static types + static type + run-time dtype + clause).  A mismatch downstream of a
mismatching operand (Trace_Types says which events are such) is reported under the class of that operand.
Not judged, only counted: programs the package declines to build or print, runs in which the emitted code
raises, nodes outside the typing discipline (made by the package's own rewriting) and their consequences.
"""
import ast
import contextlib
import io
import json
import os
import random
import signal
import sys
import time
import warnings

import numpy

from .. import tlc, tlaval
from ..common import Check, import_repo

PID = "C08"
TRACE = "Trace_Types"
CFG = "Trace.cfg"

CONST_VALUES = {"1": 1, "2": 2, "3": 3, "5": 5, "7": 7, "0.25": 0.25, "1.5": 1.5, "largest": "largest", "eps": "eps",
                "posinf": "posinf", "pi": "pi"}
CONST0_VALUES = {"int:2": 2, "int:3": 3, "int:5": 5, "1.5": 1.5, "0.25": 0.25, "cplx": 1.5 + 0.25j, "true": True, "false": False}
UNKNOWN = ["?", 0]


class Skip(Exception):
    """The package declined / raised while building or printing: counted, not judged."""

    def __init__(self, stage, ex):
        Exception.__init__(self, "%s:%s" % (stage, type(ex).__name__ if isinstance(ex, BaseException) else ex))
        self.stage = stage
        self.detail = "%s: %s" % (type(ex).__name__, str(ex)[:160]) if isinstance(ex, BaseException) else str(ex)


class Timeout(Exception):
    pass


def _alarm(signum, frame):
    raise Timeout()


# ------------------------------------------------------------------------------------------------ terms
def tystr(t):
    kind, nbits = t
    if kind == "boolean":
        return "boolean"
    base = {"integer": "int", "float": "float", "complex": "complex"}[kind]
    return base + (str(nbits) if nbits else "")


def tyname(t):
    return "%s%s" % (t[0], t[1] if t[1] else "")


def dtname(d):
    return "%s%s" % ({"f": "float", "c": "complex", "i": "int", "u": "uint", "b": "bool"}.get(d[0], d[0]), d[1] if d[1] else "")


def gen_terms(gen, chk, nrandom=100, maxdepth=4, seed=1, small=False):
    with open(os.path.join(tlc.SPEC, "TypedTerms.cfg")) as f:
        txt = f.read()
    txt = (txt.replace('Gen = "ops1"', 'Gen = "%s"' % gen).replace("NumRandom = 100", "NumRandom = %d" % nrandom)
           .replace("MaxDepth = 4", "MaxDepth = %d" % maxdepth).replace("Small = FALSE", "Small = %s" % ("TRUE" if small else "FALSE")))
    p = os.path.join(tlc.workdir(), "typedterms_%s_%d.cfg" % (gen, seed))
    with open(p, "w") as f:
        f.write(txt)
    r = tlc.run("TypedTerms", p, workers=1, extra=["-seed", str(seed)], timeout=1800)
    if not r.ok:
        raise tlc.MachineryError("TypedTerms %s failed:\n%s" % (gen, r.out[-2000:]))
    chk.add_mc("TypedTerms(%s)" % gen, r)
    out, seen = [], set()
    for h in tlaval.fast_tuples(r.out, "H"):
        k = json.dumps(h[1])
        if k not in seen:
            seen.add(k)
            out.append((h[1], h[2]))
    return out


def term_symbols(term, acc=None):
    acc = {} if acc is None else acc
    k = term[0]
    if k == "sym":
        if acc.setdefault(term[1], term[2]) != term[2]:
            raise tlc.MachineryError("generator emitted a symbol with two types: %s" % term)
    elif k == "const":
        term_symbols(term[2], acc)
    elif k in ("constT", "const0"):
        pass
    elif k == "named":
        term_symbols(term[2], acc)
    else:
        for t in term[1:]:
            term_symbols(t, acc)
    return acc


def build(ctx, term, syms):
    """nested tuple from TypedTerms -> real Expr (public Context API only)"""
    k = term[0]
    if k == "sym":
        return syms[term[1]]
    if k == "const":
        return ctx.constant(CONST_VALUES[term[1]], build(ctx, term[2], syms))
    if k == "constT":
        return ctx.constant(CONST_VALUES[term[1]], tystr(term[2]))
    if k == "const0":
        return ctx.constant(CONST0_VALUES[term[1]])
    if k == "named":      # a user-named sub-expression (Expr.reference with an explicit name; alt family only)
        return build(ctx, term[2], syms).reference(ref_name=term[1], force=True)
    ops = [build(ctx, t, syms) for t in term[1:]]
    return getattr(ctx, k)(*ops)


# ------------------------------------------------------------------------------------------------ programs
class Program:
    """A traced function, its three emitted texts and the table variable name -> graph node."""
    pass


def _type_of(e):
    t = e.get_type()
    if t.kind not in ("float", "complex", "integer", "boolean"):
        raise Skip("type", "type kind %s" % t.kind)
    b = t.bits
    return [t.kind, int(b) if b else 0]


def walk(body):
    """nodes of the graph below body in operand-first order; the value / like of a constant are not nodes"""
    order, seen = [], {}

    def rec(e):
        if id(e) in seen:
            return
        seen[id(e)] = None
        if e.kind not in ("constant", "symbol"):
            for o in e.operands:
                if hasattr(o, "kind"):
                    rec(o)
        seen[id(e)] = len(order)
        order.append(e)

    sys.setrecursionlimit(max(sys.getrecursionlimit(), 20000))
    rec(body)
    return order, seen


def make_program(fa, graph, trusted, label, with_nat0=True):
    """graph: an `apply` expression already rewritten for the NumPy target"""
    from functional_algorithms import targets
    prog = Program()
    prog.label = label
    prog.trusted = trusted
    body = graph.operands[-1]
    args = list(graph.operands[1:-1])
    if any(a.kind != "symbol" for a in args):
        raise Skip("args", "non-symbol argument")
    try:
        order, index = walk(body)
        for a in args:
            if id(a) not in index:
                index[id(a)] = len(order)
                order.append(a)
        nodes = []
        for e in order:
            leaf = e.kind in ("constant", "symbol")
            st = _type_of(e)
            ops = [] if leaf else [index[id(o)] for o in e.operands if hasattr(o, "kind")]
            if not leaf and len(ops) != len(e.operands):
                raise Skip("type", "non-expression operand")
            nodes.append(dict(k=e.kind, st=st, ops=ops))
        for nd in nodes:
            nd["ots"] = [nodes[j]["st"] for j in nd["ops"]] if nd["ops"] or nd["k"] not in ("constant", "symbol") else [nd["st"]]
    except Skip:
        raise
    except Exception as ex:  # get_type / is_complex declines a kind
        raise Skip("type", ex)
    prog.nodes = nodes
    prog.body = index[id(body)]
    prog.argnames = [a.operands[0] for a in args]
    prog.argnodes = {a.operands[0]: index[id(a)] for a in args}
    prog.texts = {}
    try:
        with warnings.catch_warnings():
            warnings.simplefilter("ignore")
            prog.texts["nat1"] = graph.tostring(targets.numpy, debug=1)
            if with_nat0:
                prog.texts["nat0"] = graph.tostring(targets.numpy, debug=0)
            for e in order:
                if e.kind != "symbol":
                    e.reference(force=True)
            # values of constants that are expressions of the alternative context (enable_alt): they are bound to
            # variables of their own by the constant printer; those variables are not nodes of this graph
            altvals, seen_alt = [], set()

            def alt_rec(a):
                if id(a) in seen_alt or not hasattr(a, "kind"):
                    return
                seen_alt.add(id(a))
                altvals.append(a)
                if a.kind not in ("constant", "symbol"):
                    for o in a.operands:
                        alt_rec(o)

            for e in order:
                if e.kind == "constant" and hasattr(e.operands[0], "kind"):
                    alt_rec(e.operands[0])
            for a in altvals:
                a.reference(force=True)
            prog.texts["forced1"] = graph.tostring(targets.numpy, debug=1)
            prog.alt_names = {a.ref for a in altvals if isinstance(a.ref, str)}
            prog.name2node = {}
            for i, e in enumerate(order):
                r = e.ref
                if isinstance(r, str):
                    prog.name2node.setdefault(r, []).append(i)
    except Exception as ex:  # the printer declines (no native form, unsupported cast, ...)
        raise Skip("print", ex)
    prog.fname = graph.operands[0].operands[0] if hasattr(graph.operands[0], "operands") else str(graph.operands[0])
    return prog


ALT_KWARGS = dict(enable_alt=True, default_constant_type="float64")


def alt_terms():
    """enable_alt family: one value as two constants with different likes (symbols of one type, or of two types) used
    under two operations whose results are combined.  In a context with an alternative context both constants
    share one expression of the alternative context as their value."""
    out = []
    fl = [["float", 16], ["float", 32], ["float", 64]]
    for t1 in fl:
        for t2 in fl:
            for v in ("3", "1.5", "0.25", "2", "pi", "largest"):
                for k1, k2 in (("add", "multiply"), ("subtract", "add"), ("multiply", "subtract"), ("maximum", "multiply")):
                    if t1 != t2 and (k1, k2) != ("add", "multiply"):
                        continue
                    x, y = ["sym", "x", t1], ["sym", "y", t2]
                    out.append([k1, [k2, x, ["const", v, x]], [k2, y, ["const", v, y]]])
                    out.append([k1, [k2, ["const", v, y], y], [k2, ["const", v, x], x]])
                    # the two constants named by the user (as the tracer names assigned locals): two variables
                    out.append([k1, [k2, x, ["named", "c_x", ["const", v, x]]], [k2, y, ["named", "c_y", ["const", v, y]]]])
                    out.append([k1, [k2, ["named", "c_y", ["const", v, y]], y], [k2, ["named", "c_x", ["const", v, x]], x]])
    return out


def program_from_term(fa, term, use_rewriter, with_nat0=True, alt=False):
    from functional_algorithms import targets
    syms = term_symbols(term)
    names = sorted(syms)
    src = "def f(ctx%s):\n    return _build(ctx, _term, dict(%s))\n" % (
        "".join(", " + n for n in names), ", ".join("%s=%s" % (n, n) for n in names))
    env = dict(_build=build, _term=term)
    exec(src, env)
    ctx = fa.Context(paths=[fa.algorithms], **(ALT_KWARGS if alt else {}))
    sink = io.StringIO()
    try:
        with warnings.catch_warnings(), contextlib.redirect_stdout(sink):
            warnings.simplefilter("ignore")
            graph = ctx.trace(env["f"], *["%s:%s" % (n, tystr(syms[n])) for n in names])
            static_body = None
            try:
                static_body = _type_of(graph.operands[-1])
            except Exception:  # noqa
                pass
            if use_rewriter:
                graph = graph.rewrite(targets.numpy, fa.rewrite)
            else:
                graph = graph.rewrite(targets.numpy)
    except Skip:
        raise
    except Timeout:
        raise
    except Exception as ex:
        raise Skip("build", ex)
    prog = make_program(fa, graph, False, json.dumps(term), with_nat0)
    prog.static_body = static_body
    prog.argtypes = {n: tystr(syms[n]) for n in names}
    return prog


def shipped_requests(fa):
    from functional_algorithms import targets
    out = []
    for func, sigs in sorted(targets.numpy.trace_arguments.items()):
        if not hasattr(fa.algorithms, func):
            continue
        for sig in sigs:
            out.append((func, list(sig)))
    return out


def program_from_shipped(fa, func, sig):
    from functional_algorithms import targets
    ctx = fa.Context(paths=[fa.algorithms])
    sink = io.StringIO()
    try:
        with warnings.catch_warnings(), contextlib.redirect_stdout(sink):
            warnings.simplefilter("ignore")
            graph = ctx.trace(getattr(fa.algorithms, func), *sig).rewrite(targets.numpy, fa.rewrite)
    except Timeout:
        raise
    except Exception as ex:
        raise Skip("build", ex)
    prog = make_program(fa, graph, True, "%s%s" % (func, sig))
    prog.static_body = None
    prog.argtypes = {}
    for a in graph.operands[1:-1]:
        prog.argtypes[a.operands[0]] = str(a.operands[1])
    return prog


# ------------------------------------------------------------------------------------------------ execution
def dtype_desc(v):
    dt = getattr(v, "dtype", None)
    if isinstance(dt, numpy.dtype):
        return [dt.kind, dt.itemsize * 8]
    return ["py_" + type(v).__name__, 0]


def decl_desc(src, env):
    if not src:
        return UNKNOWN
    try:
        obj = eval(src, dict(env))
        dt = numpy.dtype(obj)
    except Exception:  # noqa
        return UNKNOWN
    return [dt.kind, dt.itemsize * 8]


def instrument(text, fname):
    """Parse the emitted text; return (code of the instrumented module, meta).  The statements themselves are kept
    as they are; a recording call follows each assignment, each assert is wrapped."""
    try:
        mod = ast.parse(text)
    except SyntaxError as ex:
        raise tlc.MachineryError("emitted text does not parse: %s\n%s" % (ex, text[:500]))
    fdefs = [n for n in mod.body if isinstance(n, ast.FunctionDef) and n.name == fname]
    if len(fdefs) != 1:
        raise tlc.MachineryError("expected one function %s in the emitted text:\n%s" % (fname, text[:500]))
    fd = fdefs[0]
    holder = fd
    if len(fd.body) == 1 and isinstance(fd.body[0], ast.With):
        holder = fd.body[0]
    meta = dict(args={a.arg: (ast.unparse(a.annotation) if a.annotation is not None else None) for a in fd.args.args},
                returns=ast.unparse(fd.returns) if fd.returns is not None else None, assigns=[], asserts=[])
    new = []
    last = {}
    for s in holder.body:
        if isinstance(s, (ast.Assign, ast.AnnAssign)):
            tgt = s.targets[0] if isinstance(s, ast.Assign) and len(s.targets) == 1 else getattr(s, "target", None)
            if not isinstance(tgt, ast.Name):
                raise tlc.MachineryError("unexpected assignment target in emitted text: %s" % ast.unparse(s))
            ann = ast.unparse(s.annotation) if isinstance(s, ast.AnnAssign) else None
            idx = len(meta["assigns"])
            meta["assigns"].append((tgt.id, ann))
            last[tgt.id] = idx
            last[None] = idx
            new.append(s)
            new.append(ast.parse("__c08_rec__(%d, %s)" % (idx, tgt.id)).body[0])
        elif isinstance(s, ast.Assert):
            names = [n.id for n in ast.walk(s.test) if isinstance(n, ast.Name) and n.id in last]
            var = names[0] if names else None
            j = len(meta["asserts"])
            meta["asserts"].append((last.get(var), ast.unparse(s.test)))
            handler = ast.parse("try:\n    pass\nexcept Exception as __c08_e__:\n    __c08_fired__(%d, __c08_e__)" % j).body[0]
            handler.body = [s]
            new.append(handler)
        elif isinstance(s, (ast.Return, ast.Expr, ast.Pass)):
            new.append(s)
        else:
            raise tlc.MachineryError("unexpected statement in emitted text: %s" % ast.unparse(s)[:200])
    holder.body = new
    ast.fix_missing_locations(mod)
    return compile(mod, "<c08 instrumented>", "exec"), meta


def base_env():
    from functional_algorithms import utils
    return dict(sys=sys, numpy=numpy, make_complex=utils.make_complex, warnings=warnings,
                finfo_float32=numpy.finfo(numpy.float32), finfo_float64=numpy.finfo(numpy.float64))


SLOTS = [(1.5, 0.25, 0.125), (0.25, 1.5, 3.0), (-2.0, 0.0, -0.0), ("big", 1.0, "-big"), (0.0, -3.0, 2.0), (1.0, 1.0, 1.0)]
BIG = {"float16": 6.0e4, "float32": 3.0e38, "float64": 1.0e308, "float": 1.0e308,
       "complex64": 3.0e38, "complex128": 1.0e308, "complex": 1.0e308}


def input_vector(prog, j):
    """concrete argument values of vector j: typed NumPy scalars on even vectors, plain Python values on odd ones"""
    vals = []
    nslot = 0
    for n in prog.argnames:
        t = prog.argtypes[n]
        if t.startswith("bool"):
            v = (j + (0 if n == "b" else 1)) % 2 == 0
            vals.append(numpy.bool_(v) if j % 2 == 0 else bool(v))
            continue
        s = SLOTS[j % len(SLOTS)][nslot % 3]
        nslot += 1
        if s == "big":
            s = BIG.get(t, 1.0e4)
        elif s == "-big":
            s = -BIG.get(t, 1.0e4)
        if t.startswith("complex"):
            s = complex(s, -0.5 * s if abs(s) < 1e30 else 1.0)
        if j % 2 == 0:
            with warnings.catch_warnings():
                warnings.simplefilter("ignore")
                s = getattr(numpy, t if t not in ("float", "complex", "int") else {"float": "float64", "complex": "complex128", "int": "int64"}[t])(s)
        vals.append(s)
    return vals


def run_instrumented(code, fname, vals):
    recs, fired = [], {}
    env = base_env()
    env["__c08_rec__"] = lambda i, v: recs.append((i, dtype_desc(v)))
    env["__c08_fired__"] = lambda j, ex: fired.__setitem__(j, type(ex).__name__)
    exec(code, env)
    raised = None
    with warnings.catch_warnings(), numpy.errstate(all="ignore"):
        warnings.simplefilter("ignore")
        try:
            r = env[fname](*vals)
            out = dtype_desc(r)
        except Exception as ex:  # noqa
            raised = "%s: %s" % (type(ex).__name__, str(ex)[:120])
            out = None
    return recs, fired, out, raised


def run_plain(text, fname, vals):
    env = base_env()
    exec(text, env)
    with warnings.catch_warnings(), numpy.errstate(all="ignore"):
        warnings.simplefilter("ignore")
        try:
            return dtype_desc(env[fname](*vals)), None
        except Exception as ex:  # noqa
            return None, type(ex).__name__


def observe(prog, pidx, nvec, counters, with_nat0=True):
    """events of one program (without ids)"""
    events = []
    env0 = base_env()
    compiled = {}
    for m in ("nat1", "forced1"):
        compiled[m] = instrument(prog.texts[m], prog.fname)
    for j in range(nvec):
        vals = input_vector(prog, j)
        for m in ("nat1", "forced1"):
            code, meta = compiled[m]
            recs, fired, out, raised = run_instrumented(code, prog.fname, vals)
            pout, praised = run_plain(prog.texts[m], prog.fname, vals)
            if raised is not None:
                # the emitted code itself raises (e.g. make_complex declines the component dtypes): not a typed value
                counters["runs_raised"] = counters.get("runs_raised", 0) + 1
                counters.setdefault("runs_raised_examples", {}).setdefault(raised.split(":")[0], prog.label[:200])
                if praised is None:
                    raise tlc.MachineryError("instrumented run raised %s, the plain text did not: %s" % (raised, prog.label[:300]))
                continue
            # the instrumented run must be the plain run
            if fired:
                if praised is None:
                    raise tlc.MachineryError("recorded a fired assertion but the plain text ran through: %s" % prog.label[:300])
            elif praised is not None or pout != out:
                raise tlc.MachineryError("instrumented and plain runs differ (%s vs %s %s): %s" % (out, pout, praised, prog.label[:300]))
            ret = decl_desc(meta["returns"], env0)
            fired_for = {}
            for jx, (aidx, _src) in enumerate(meta["asserts"]):
                if aidx is None:
                    raise tlc.MachineryError("assertion not attached to a variable: %s" % _src)
                fired_for.setdefault(aidx, []).append(fired.get(jx))
            seen_dt = {}
            counters["runs"] = counters.get("runs", 0) + 1
            for aidx, rt in recs:
                name, ann = meta["assigns"][aidx]
                res = name == "result"
                if res:
                    cands = [prog.body]
                elif name in prog.argnodes:
                    cands = [prog.argnodes[name]]
                else:
                    # two constants of one value with different likes share one reference name (the printer binds
                    # the first and reuses it for the second): the variable is the value of each of them
                    cands = prog.name2node.get(name, [])
                    if not cands and name in prog.alt_names:
                        counters["alt_context_variables"] = counters.get("alt_context_variables", 0) + 1
                        continue
                    if not cands:
                        counters["unmapped_variables"] = counters.get("unmapped_variables", 0) + 1
                        continue
                if ann is None and name in meta["args"]:
                    ann = meta["args"][name]
                flist = fired_for.get(aidx, [])
                for ni in cands:
                    nd = prog.nodes[ni]
                    if not res:
                        seen_dt[ni] = rt
                    leaf = nd["k"] in ("constant", "symbol")
                    ods = [] if leaf else [seen_dt.get(o, UNKNOWN) for o in nd["ops"]]
                    events.append(dict(p=pidx, v=j, m=m, var=name, n=ni, ops=nd["ops"], k=nd["k"], ots=nd["ots"], ods=ods,
                                       full=all(o[0] != "?" for o in ods), st=nd["st"],
                                       decl=ret if (res and ann is None) else decl_desc(ann, env0), rt=rt,
                                       asserted=bool(flist), fired=any(f is not None for f in flist), res=res,
                                       ret=ret if res else UNKNOWN, trusted=prog.trusted, shared=len(cands)))
        # debug=0: the text a user runs; only the returned value is visible
        if not with_nat0:
            continue
        out0, raised0 = run_plain(prog.texts["nat0"], prog.fname, vals)
        if raised0 is None:
            _c, meta0 = compiled.get("nat0") or compiled.setdefault("nat0", instrument(prog.texts["nat0"], prog.fname))
            nd = prog.nodes[prog.body]
            leaf = nd["k"] in ("constant", "symbol")
            ods = [] if leaf else [UNKNOWN for _ in nd["ops"]]
            ret0 = decl_desc(meta0["returns"], env0)
            events.append(dict(p=pidx, v=j, m="nat0", var="return", n=prog.body, ops=nd["ops"], k=nd["k"], ots=nd["ots"], ods=ods,
                               full=not ods, st=nd["st"], decl=ret0, rt=out0, asserted=False, fired=False, res=True,
                               ret=ret0, trusted=prog.trusted, shared=1))
    return events


# ------------------------------------------------------------------------------------------------ workers
_FA = {}
JUDGED_FIELDS = ("k", "ots", "ods", "full", "st", "decl", "rt", "asserted", "fired", "res", "ret", "trusted", "shared")
CONSEQUENCES = {"assert_fired", "result_dtype"}
ROOTS = {"mismatch", "mismatch_shared_name"}
DERIVED = {"mismatch_inherited", "mismatch_partial_view"}
OUTSIDE = "<outside the typing discipline>"


def judged_key(e):
    return json.dumps([e[f] for f in JUDGED_FIELDS], separators=(",", ":"))


def _work(job):
    """job = (first index, [(source, payload)], nvec) -> (rows, judged keys, operand tables, counters, info)

    A row is (program, vector, mode, node, variable, index of its judged key): what TLC judges is the judged key (the
    event without its coordinates), every distinct one once.  An input vector whose whole observation (all printings)
    repeats that of an earlier vector of the same program is counted and dropped."""
    first, items, nvec = job
    fa = _FA["fa"]
    rows, jks, jkidx, ops_tables, counters, info = [], [], {}, {}, {}, []
    old = signal.signal(signal.SIGALRM, _alarm)
    for off, (source, payload) in enumerate(items):
        pidx = first + off
        signal.setitimer(signal.ITIMER_REAL, 90.0)
        try:
            nat0 = source == "shipped" or pidx % 4 == 0
            if source == "shipped":
                prog = program_from_shipped(fa, payload[0], payload[1])
            else:
                prog = program_from_term(fa, payload[0], payload[2], nat0, alt=(source == "alt"))
            ev = observe(prog, pidx, nvec, counters, nat0)
            seen_sig = set()
            byvec = {}
            for e in ev:
                byvec.setdefault(e["v"], []).append(e)
            for v in sorted(byvec):
                keyed = [(e, judged_key(e)) for e in byvec[v]]
                sig = tuple((e["m"], e["n"], e["var"], k) for e, k in keyed)
                counters["events_observed"] = counters.get("events_observed", 0) + len(keyed)
                if sig in seen_sig:
                    counters["vectors_repeating_an_earlier_one"] = counters.get("vectors_repeating_an_earlier_one", 0) + 1
                    continue
                seen_sig.add(sig)
                for e, k in keyed:
                    if k not in jkidx:
                        jkidx[k] = len(jks)
                        jks.append(k)
                    rows.append((pidx, v, e["m"], e["n"], e["var"], jkidx[k]))
            ops_tables[pidx] = {i: nd["ops"] for i, nd in enumerate(prog.nodes) if nd["ops"]}
            drift = None
            if source not in ("shipped", "alt") and prog.static_body is not None and prog.static_body != payload[1]:
                drift = (payload[1], prog.static_body)
            info.append(dict(p=pidx, ok=True, nodes=len(prog.nodes), drift=drift))
        except Skip as s:
            counters.setdefault("skipped", {})
            counters["skipped"][s.stage] = counters["skipped"].get(s.stage, 0) + 1
            counters.setdefault("skip_examples", {}).setdefault(s.stage + ":" + s.detail[:60], str(payload)[:200])
            info.append(dict(p=pidx, ok=False))
        except Timeout:
            counters.setdefault("skipped", {})
            counters["skipped"]["timeout"] = counters["skipped"].get("timeout", 0) + 1
            info.append(dict(p=pidx, ok=False))
        finally:
            signal.setitimer(signal.ITIMER_REAL, 0)
    signal.signal(signal.SIGALRM, old)
    return rows, jks, ops_tables, counters, info


def merge_counters(total, c):
    for k, v in c.items():
        if isinstance(v, dict):
            d = total.setdefault(k, {})
            for kk, vv in v.items():
                if isinstance(vv, int):
                    d[kk] = d.get(kk, 0) + vv
                else:
                    d.setdefault(kk, vv)
        else:
            total[k] = total.get(k, 0) + v


class Observations:
    def __init__(self):
        self.rows = []       # (p, v, mode, node, var, uid)
        self.jks = []        # uid -> judged key (JSON text)
        self.uid = {}
        self.ops = {}        # p -> node -> operand nodes
        self.counters = {}
        self.info = []
        self._parsed = {}

    def event(self, uid):
        e = self._parsed.get(uid)
        if e is None:
            e = dict(zip(JUDGED_FIELDS, json.loads(self.jks[uid])))
            e["id"] = uid
            self._parsed[uid] = e
        return e

    def add(self, result):
        rows, jks, ops_tables, counters, info = result
        loc = []
        for k in jks:
            u = self.uid.get(k)
            if u is None:
                u = self.uid[k] = len(self.jks)
                self.jks.append(k)
            loc.append(u)
        self.rows += [(p, v, m, n, var, loc[j]) for p, v, m, n, var, j in rows]
        self.ops.update(ops_tables)
        merge_counters(self.counters, counters)
        self.info += info


def make_pool(fa, nproc):
    import multiprocessing
    _FA["fa"] = fa
    if nproc <= 1:
        return None
    return multiprocessing.get_context("fork").Pool(nproc)


def execute(fa, items, nvec, pool, nproc=16):
    """items: [(source, payload)] -> Observations"""
    _FA["fa"] = fa
    step = max(1, min(40, (len(items) + nproc * 6 - 1) // (nproc * 6)))
    jobs = [(i, items[i:i + step], nvec) for i in range(0, len(items), step)]
    obs = Observations()
    if pool is None:
        for j in jobs:
            obs.add(_work(j))
    else:
        for r in pool.imap_unordered(_work, jobs, chunksize=1):
            obs.add(r)
    obs.rows.sort(key=lambda r: (r[0], r[1]))
    return obs


# ------------------------------------------------------------------------------------------------ judging
def class_key(e, clauses):
    """class of a failing event: kind, operand static types, static type, run-time dtype, clauses (the consequences
    of a mismatch - the assertion that fires, the result dtype - are not part of its class)"""
    cl = set(clauses)
    if cl & ROOTS:
        cl -= CONSEQUENCES
    if "mismatch_shared_name" in cl:
        # one defect (distinct nodes with one reference name share a variable) whatever the types that meet in it
        return "%s:%s" % (e["k"], "+".join(sorted(cl)))
    ops = ",".join(tyname(t) for t in e["ots"])
    return "%s(%s):%s->%s:%s" % (e["k"], ops, tyname(e["st"]), dtname(e["rt"]), "+".join(sorted(cl)))


def validate(chk, obs, name="types"):
    """TLC judges every distinct event once; returns {uid: clauses}, {uid: drift notes}"""
    evs = [obs.event(u) for u in range(len(obs.jks))]
    res = tlc.validate_events(TRACE, CFG, evs, name=name, overrides=False)
    chk.add_trace(TRACE, res, len(obs.rows), ntraces=len({(r[0], r[1], r[2]) for r in obs.rows}))
    chk.cov["distinct_events_validated"] = len(evs)
    chk.cov["events_observed"] = obs.counters.get("events_observed", len(obs.rows))
    verdict = {uid: clauses for uid, clauses in res["fails"]}
    notes = {uid: sorted(tlc._parse_set(what)) for uid, what in res["notes"]}
    return verdict, notes


def attribute(obs, verdict, notes):
    """failing row index -> list of class keys.  A consequence (mismatch_inherited / mismatch_partial_view, as classified
    by the spec) carries the keys of the mismatching nodes it descends from, looked up in the fully referenced run of
    the same program on the same input vector.  A consequence of a node that Trace_Types does not judge (outside the
    typing discipline, produced by the package's own rewriting) is counted and not reported."""
    forced = {}    # (p, v) -> node -> [uids of the forced run]
    for p, v, m, n, var, uid in obs.rows:
        if m == "forced1":
            forced.setdefault((p, v), {}).setdefault(n, []).append(uid)
    memo = {}
    ckey = {}

    def key_of(uid):
        if uid not in ckey:
            ckey[uid] = class_key(obs.event(uid), verdict[uid])
        return ckey[uid]

    def roots(run, n):
        if (run, n) in memo:
            return memo[(run, n)]
        memo[(run, n)] = []
        uids = forced.get(run, {}).get(n, [])
        keys = [key_of(u) for u in uids if u in verdict and set(verdict[u]) & ROOTS]
        if any("outside_discipline" in notes.get(u, ()) for u in uids):
            keys.append(OUTSIDE)
        if not keys and any(u in verdict and set(verdict[u]) & DERIVED for u in uids):
            for o in obs.ops.get(run[0], {}).get(n, []):
                keys += roots(run, o)
        memo[(run, n)] = sorted(set(keys))
        return memo[(run, n)]

    out = {}
    unjudged = noforced = 0
    for i, (p, v, m, n, var, uid) in enumerate(obs.rows):
        cl = verdict.get(uid)
        if not cl:
            continue
        if set(cl) & ROOTS or not (set(cl) & DERIVED):
            out[i] = [key_of(uid)]
            continue
        keys = list(roots((p, v), n))
        rest = set(cl) - DERIVED - CONSEQUENCES
        if (p, v) not in forced:
            # the fully referenced printing raised on this vector (counted under runs_raised): nothing to attribute through
            noforced += 1
            keys = []
        elif keys and all(k == OUTSIDE for k in keys):
            unjudged += 1
            keys = []
        else:
            keys = [k for k in keys if k != OUTSIDE]
            if not keys:
                keys = ["unattributed:" + key_of(uid)]
        if rest:
            keys.append(class_key(obs.event(uid), sorted(rest)))
        if keys:
            out[i] = keys
    obs.counters["consequences_of_unjudged_nodes"] = unjudged
    obs.counters["partial_views_without_a_fully_referenced_run"] = noforced
    return out


# ------------------------------------------------------------------------------------------------ U1
def model_check(tier):
    """-> (list of (cfg, TLCResult), set of design-level disagreement classes, counts)"""
    runs = [("MC_Types", "MC_Types_quick.cfg")] if tier == "quick" else [("MC_Types", "MC_Types.cfg"), ("MC_Types", "MC_Types_deep.cfg")]
    out = []
    for mod, cfg in runs:
        out.append((cfg, tlc.run(mod, cfg, extra=["-coverage", "1"], overrides=False, workers=6 if tier == "quick" else 8, timeout=3000,
                                 tag="u1_" + cfg)))
    return out


def account_model_check(chk, results):
    dis = set()
    for cfg, r in results:
        chk.add_mc(cfg, r)
        if r.invariant_violated:
            # the two tables do not compose as designed: a finding about the DESIGN, reported with TLC's counterexample
            chk.fail("model:" + "+".join(r.invariant_violated), "FATypes violates %s (%s)" % (r.invariant_violated, cfg), r.error_trace())
            continue
        if not r.ok:
            raise tlc.MachineryError("MC_Types %s failed:\n%s" % (cfg, r.out[-2500:]))
        cov = r.coverage()
        if cov.get("AddNode", (0, 0))[0] == 0:
            raise tlc.MachineryError("vacuous model run %s: AddNode never taken" % cfg)
        chk.cov.setdefault("action_coverage", {})[cfg] = {k: v[0] for k, v in cov.items()}
        counts = tlaval.fast_tuples(r.out, "COUNTS")
        if not counts:
            raise tlc.MachineryError("MC_Types printed no COUNTS")
        chk.cov["design_disagreements"] = counts[0][1]
        chk.cov["welltyped_kind_type_tuples"] = counts[0][2]
        dis = {"%s(%s):%s->%s" % (x[1], ",".join(tyname(t) for t in x[2]), tyname(x[3]), dtname(x[4])) for x in tlaval.fast_tuples(r.out, "DIS")}
    return dis


# ------------------------------------------------------------------------------------------------ run
def collect_items(chk, tier, seed):
    quick = tier == "quick"
    rng = random.Random(seed)
    items = []
    ops1 = gen_terms("ops1", chk)
    items += [("ops1", (t, st, False)) for t, st in ops1]
    ops2 = gen_terms("ops2", chk, small=quick)
    if quick:
        ops2 = rng.sample(ops2, min(len(ops2), 1500))
    items += [("ops2", (t, st, False)) for t, st in ops2]
    rnd = gen_terms("random", chk, nrandom=1500 if quick else 40000, maxdepth=4 if quick else 5, seed=seed + 11)
    items += [("random", (t, st, i % 3 == 0)) for i, (t, st) in enumerate(rnd)]
    # contexts with an alternative context: the hand-written two-likes family and a share of the TLC terms with constants
    items += [("alt", (t, None, False)) for t in alt_terms()]
    withc = [(t, st) for t, st in ops1 + ops2 if '"const"' in json.dumps(t)]
    items += [("alt", (t, st, False)) for t, st in rng.sample(withc, min(len(withc), 400 if quick else 5000))]
    return items


def vector_doc(j):
    return " (non-boolean arguments in signature order take the values %s%s, as %s)" % (
        SLOTS[j % len(SLOTS)], " with big = 6e4 / 3e38 / 1e308 by width" if "big" in SLOTS[j % len(SLOTS)] else "",
        "NumPy scalars of the declared dtype" if j % 2 == 0 else "plain Python numbers")


def describe(obs, items, row, clauses):
    p, v, m, n, var, uid = row
    e = obs.event(uid)
    src, payload = items[p]
    return "%s: variable %s (%s node) static %s, declared %s, run-time %s; operands static (%s) run-time (%s); clauses %s [printing %s, input vector %d]" % (
        ("%s%s" % (payload[0], payload[1]) if src == "shipped" else json.dumps(payload[0])[:300]), var, e["k"], tyname(e["st"]),
        dtname(e["decl"]), dtname(e["rt"]), ",".join(tyname(t) for t in e["ots"]), ",".join(dtname(d) for d in e["ods"]), clauses, m, v) + vector_doc(v)


def report(chk, obs, verdict, notes, keys, items):
    nroot = {}
    for i, ks in keys.items():
        row = obs.rows[i]
        src, payload = items[row[0]]
        cl = verdict[row[5]]
        for k in ks:
            first = k not in nroot
            nroot[k] = nroot.get(k, 0) + 1
            if first or nroot[k] <= 3:
                chk.fail(k, describe(obs, items, row, cl), dict(source=src, payload=payload, vector=row[1], mode=row[2], variable=row[4],
                                                               failing_event=obs.event(row[5]), clauses=cl))
            else:
                chk.fail(k, "", None)
    # drift: the transcription against the code (never a failure)
    dr = {}
    for uid, ns in notes.items():
        e = obs.event(uid)
        for n in ns:
            k = "%s: %s(%s) static %s run-time %s" % (n, e["k"], ",".join(tyname(t) for t in e["ots"]), tyname(e["st"]), dtname(e["rt"]))
            dr[k] = dr.get(k, 0) + 1
    for k in sorted(dr)[:40]:
        chk.drift_note(k)
    chk.cov["drift_classes"] = len(dr)
    return {k.rsplit(":", 1)[0] for k in nroot if k.endswith(":mismatch")}


def run(tier, seed):
    import concurrent.futures as cf
    fa = import_repo()
    chk = Check(PID, tier, seed)
    quick = tier == "quick"
    nproc = min(tlc.NCPU, 16)
    nvec = 4 if quick else 6
    tlc.workdir()                         # created before threads race for it
    pool = make_pool(fa, nproc)           # forked before any thread exists
    tp = cf.ThreadPoolExecutor(max_workers=1)
    try:
        u1 = tp.submit(model_check, tier)  # U1 runs beside the generation / execution
        items = [("shipped", rq) for rq in shipped_requests(fa)] + collect_items(chk, tier, seed)
        t0 = time.time()
        obs = execute(fa, items, nvec, pool, nproc)
        chk.cov["execution_wall_s"] = round(time.time() - t0, 1)
        dis_u1 = account_model_check(chk, u1.result())
    finally:
        tp.shutdown(wait=True)
        if pool is not None:
            pool.terminate()
            pool.join()
    okprogs = [i for i in obs.info if i["ok"]]
    chk.cov["programs"] = len(items)
    chk.cov["programs_executed"] = len(okprogs)
    chk.cov["programs_by_source"] = {s: sum(1 for x in items if x[0] == s) for s in ("shipped", "ops1", "ops2", "random", "alt")}
    if len(okprogs) < 0.5 * len(items):
        raise tlc.MachineryError("more than half of the programs could not be built/printed: %s" % obs.counters.get("skip_examples"))
    if obs.counters.get("unmapped_variables", 0) > 0.01 * max(1, len(obs.rows)):
        raise tlc.MachineryError("cannot map %d emitted variables to graph nodes" % obs.counters["unmapped_variables"])
    ndrift = 0
    for i in okprogs:
        if i.get("drift"):
            ndrift += 1
            if ndrift <= 10:
                chk.drift_note("TypedTerms!ST says %s, the package says %s for %s" % (i["drift"][0], i["drift"][1], json.dumps(items[i["p"]][1][0])[:200]))
    chk.cov["programs_where_package_and_TypedTerms_disagree_on_the_static_type"] = ndrift
    verdict, notes = validate(chk, obs)
    keys = attribute(obs, verdict, notes)
    seen = report(chk, obs, verdict, notes, keys, items)
    chk.cov["counters"] = obs.counters
    only_u1 = sorted(dis_u1 - seen)
    chk.cov["u1_disagreements_confirmed_by_code"] = len(dis_u1 & seen)
    if only_u1:
        chk.note("%d design-level disagreements of MC_Types not observed on the code, e.g. %s" % (len(only_u1), only_u1[:4]))
    if obs.rows:
        mid = obs.rows[len(obs.rows) // 2]
        chk.sample(dict(program=items[mid[0]][1][0], vector=mid[1], printing=mid[2], variable=mid[4], event=obs.event(mid[5])))
    chk.assumptions += [
        "programs are well-typed by construction (TLC generates them under FATypes!WellTyped; shipped algorithms are trusted); Trace_Types re-checks WellTyped on the operand types the package reports and does not judge a node outside it (the package's own rewriting can produce such nodes), nor - in the driver - the consequences of such a node",
        "a program the package declines to build / print, and a run in which the emitted code itself raises (e.g. make_complex(float64, float32)), is counted and not judged",
        "unsized static types (float/int/complex without bits): only the kind is fixed by the property; the width is the one the package's printer declares",
        "observation points: every variable the emitted text binds; with Expr.reference(force=True) on every node that is every sub-expression",
        "a mismatch at a node whose operands already mismatch is reported under the class(es) of the mismatching operands it descends from (every kind x operand-type tuple is also exercised on well-behaved leaf operands)",
        "symbols float16/32/64, complex64/128, boolean; constants like a symbol / an operation / a type, and Python int/float/complex/bool constants without a like",
    ]
    nontrivial = set()
    for u in range(len(obs.jks)):
        e = obs.event(u)
        if e["k"] not in ("symbol", "constant") and e["full"]:
            nontrivial.add(json.dumps([e["k"], e["ots"], e["ods"]]))
    return chk.finish(rule="programs = every 1-operation term, (sampled in quick) 2-operation compositions and random deeper terms "
                           "enumerated by TLC from TypedTerms under every dtype assignment of the scope, plus every shipped "
                           "(function, signature) of targets.numpy.trace_arguments; each run on %d input vectors in up to 3 printings; "
                           "non-trivial = distinct (kind, operand static types, operand run-time dtypes) observed on operation nodes"
                           % nvec,
                      distinct_nontrivial=len(nontrivial))


def replay(path):
    fa = import_repo()
    with open(path) as f:
        rp = json.load(f)["replay"]
    chk = Check(PID, "quick", 0)
    payload = rp["payload"]
    items = [(rp["source"], payload)]
    obs = execute(fa, items, 6, None)
    verdict, notes = validate(chk, obs, name="replay")
    keys = attribute(obs, verdict, notes)
    print(json.dumps(obs.counters))
    known = {k["key"] for k in chk.known}
    bad = 0
    for i, ks in sorted(keys.items()):
        row = obs.rows[i]
        new = [k for k in ks if k not in known]
        bad += bool(new)
        print("%s property=%s replay=%s  # %s: %s" % ("VIOLATION" if new else "KNOWN-FINDING", PID, path, new or ks,
                                                      describe(obs, items, row, verdict[row[5]])))
    return 1 if bad else 0
