"""C17 - argument reduction reconstructs its input.

U1: TLC proves inside TLA+ (MC_ArgReduce.cfg) that the enclosures of ln 2 (300 bits) and pi (1300 bits)
    in the generated module ArgReduceConsts contain the real constants (series with remainder bounds).
U2: TLC enumerates the input-shape classes (function x format x class); this driver concretises each
    class (neighbours of k*ln2, (k+1/2)*ln2, k*pi/2, continued-fraction worst cases of pi/2 per binade, the
    |x| < pi/4 switch, domain edges, subnormals, log-uniform samples, out-of-domain arguments; float16
    exhaustively) and calls the real floating_point_algorithms.argument_reduction_exponent /
    argument_reduction_trigonometric with a NumpyContext and a NumPy scalar (the way the package's tests do).
U3: every call is one event judged by Trace_ArgReduce.tla (ArgReduce.tla over BigInt/IEEE).

The driver never decides a clause.  It logs raw bit patterns of x, k, r, c/t and, for the trigonometric
reduction, the integer witness N (nearest integer to (x - k*pi/2 - r - t) / (2*pi)) which the spec verifies
with its own enclosure of pi.  Numbers printed in messages (error in ulp) are descriptive only.
"""
import concurrent.futures as cf
import json
import multiprocessing
import os
import random
import warnings
from fractions import Fraction

import numpy

from .. import tlc, tlaval, bits
from ..common import Check, import_repo

PID = "C17"
FMTS = ["float16", "float32", "float64"]
TRIG_J = {"float64": 18, "float32": 5, "float16": 2}       # only used to aim the generators; the spec decides the domain
S_PI = 1500
_CONST = {}


def consts():
    """High-precision pi and ln 2 as Fractions (for generating inputs and the witness N only)."""
    if not _CONST:
        import mpmath
        with mpmath.workprec(S_PI + 64):
            _CONST["pi"] = Fraction(int(mpmath.floor(mpmath.ldexp(mpmath.pi, S_PI))), 1 << S_PI)
            _CONST["ln2"] = Fraction(int(mpmath.floor(mpmath.ldexp(mpmath.ln2, 400))), 1 << 400)
    return _CONST["pi"], _CONST["ln2"]


# --------------------------------------------------------------------------- calling the code under test
_CTX = {}


def _as_bits(v, fmt):
    """Bit pattern of a result that must be a value of the format -> (problem, int)."""
    dt = bits.FLOAT[fmt]
    if isinstance(v, numpy.ndarray) and v.shape == ():
        v = v[()]
    if type(v) is dt:
        return "", bits.fbits_int(v, fmt)
    if isinstance(v, (int, float, numpy.floating, numpy.integer)) and not isinstance(v, bool):
        with numpy.errstate(all="ignore"):
            c = dt(v)
            same = (numpy.isnan(c) and v != v) or (float(c) == float(v) and numpy.signbit(c) == numpy.signbit(float(v)))
        if same:
            return "", bits.fbits_int(c, fmt)
        return "ResultNotInFormat:" + type(v).__name__, 0
    return "ResultType:" + type(v).__name__, 0


def form_of(xi):
    """How the argument is phrased: a NumPy scalar, or (one pattern in five) a 0-d array - the other dispatch branch."""
    return "0d" if xi % 5 == 2 else "scalar"


def call_one(fn, fmt, xi, form=None):
    """-> (xi, k bits, r bits, lo bits, raised, N)"""
    from functional_algorithms import floating_point_algorithms as fpa, utils
    dt = bits.FLOAT[fmt]
    ctx = _CTX.get(fmt)
    if ctx is None:
        ctx = _CTX[fmt] = utils.NumpyContext(dt)
    x = bits.from_bits_int(xi, fmt)
    if (form or form_of(xi)) == "0d":
        x = numpy.array(x)
    try:
        with warnings.catch_warnings(), numpy.errstate(all="ignore"):
            warnings.simplefilter("ignore")
            if fn == "exp":
                k, r, lo = fpa.argument_reduction_exponent(ctx, x)
            else:
                k, r, lo = fpa.argument_reduction_trigonometric(ctx, x)
    except Exception as ex:  # noqa: any exception is a recorded outcome
        return (xi, 0, 0, 0, type(ex).__name__, 0)
    out = []
    for v in (k, r, lo):
        if isinstance(v, numpy.ndarray) and v.ndim == 0:
            v = v[()]
        prob, b = _as_bits(v, fmt)
        if prob:
            return (xi, 0, 0, 0, prob, 0)
        out.append(b)
    n = 0
    if fn == "trig":
        n = witness(fmt, xi, *out)
    return (xi, out[0], out[1], out[2], "", n)


def fval(b, fmt):
    """Exact value of a finite bit pattern as a Fraction (None if not finite)."""
    v = bits.from_bits_int(b, fmt)
    if not numpy.isfinite(v):
        return None
    return Fraction(float(v))


def witness(fmt, xi, kb, rb, tb):
    """Nearest integer N to (x - k*pi/2 - r - t) / (2*pi); 0 when undefined.  Verified by the spec."""
    pi, _ = consts()
    x, k, r, t = (fval(b, fmt) for b in (xi, kb, rb, tb))
    if None in (x, k, r, t) or k.denominator != 1 or not (0 <= k <= 3):
        return 0
    q = (2 * (x - r - t) - k * pi) / (4 * pi)
    return int((q + Fraction(1, 2)).__floor__())


def _work(task):
    fn, fmt, pats = task
    return [call_one(fn, fmt, xi) for xi in pats]


HIST_POINTS = (Fraction(5, 2), Fraction(100), Fraction(-7, 8), Fraction(12345, 8))


def _work_hist(task):
    """One history in a FRESH process: a first call (format, form) followed by probes in every format and form -
    no call may leave anything behind that changes a later call (module-level caches, contexts)."""
    fn, first_fmt, first_form = task
    _CTX.clear()
    out = []
    seq = [(first_fmt, first_form, HIST_POINTS[0])]
    seq += [(fmt, form, pt) for fmt in ("float64", "float32", "float16") for form in ("scalar", "0d") for pt in HIST_POINTS]
    for fmt, form, pt in seq:
        out.append((fmt, call_one(fn, fmt, pat_of(pt, fmt), form)))
    return out


def run_histories(fn):
    """-> [(fmt, result tuple)] over all first calls; every history runs in its own forked process"""
    res = []
    for first_fmt in ("float16", "float32", "float64"):
        for first_form in ("0d", "scalar"):
            with cf.ProcessPoolExecutor(max_workers=1, mp_context=multiprocessing.get_context("fork")) as ex:
                res += ex.submit(_work_hist, (fn, first_fmt, first_form)).result()
    return res


class Runner:
    """Executes calls in a small process pool (the trigonometric reduction costs 0.5 - 2.5 ms per call)."""

    def __init__(self, nproc):
        import_repo()
        consts()
        self.nproc = nproc
        self.pool = None
        if nproc > 1:
            self.pool = cf.ProcessPoolExecutor(max_workers=nproc, mp_context=multiprocessing.get_context("fork"))

    def warm(self):
        if self.pool is not None:
            list(self.pool.map(_work, [("exp", "float32", [0])] * self.nproc))

    def run(self, fn, fmt, pats):
        if not pats:
            return []
        if self.pool is None or len(pats) < 64:
            return _work((fn, fmt, pats))
        size = max(32, min(2000, len(pats) // (self.nproc * 4) + 1))
        tasks = [(fn, fmt, pats[i:i + size]) for i in range(0, len(pats), size)]
        out = []
        for res in self.pool.map(_work, tasks):
            out += res
        return out

    def close(self):
        if self.pool is not None:
            self.pool.shutdown()


def make_event(eid, fn, fmt, cls, res):
    xi, kb, rb, lb, raised, n = res
    ev = dict(id=eid, fn=fn, fmt=fmt, cls=cls, x=bits.nat(xi), k=bits.nat(kb), r=bits.nat(rb), lo=bits.nat(lb), raised=raised)
    if fn == "trig":
        ev["n"] = bits.zint(n)
    return ev


# --------------------------------------------------------------------------- input generators (bit patterns)
def sign_bit(fmt):
    return 1 << (bits.WIDTH[fmt] - 1)


def inf_mag(fmt):
    return ((1 << (bits.WIDTH[fmt] - bits.PREC[fmt])) - 1) << (bits.PREC[fmt] - 1)


def pat_of(fr, fmt):
    """Bit pattern of a float near the rational fr (exactness is irrelevant: inputs only)."""
    with numpy.errstate(all="ignore"):
        return bits.fbits_int(bits.FLOAT[fmt](float(fr)), fmt)


def neighbours(p, fmt, radius):
    """Patterns within `radius` lattice steps of pattern p (sign-magnitude ordinal), finite only."""
    sb = sign_bit(fmt)
    o = -(p & (sb - 1)) if p & sb else p
    out = []
    for d in range(-radius, radius + 1):
        q = o + d
        m = abs(q)
        if m < inf_mag(fmt):
            out.append((sb | m) if q < 0 or (q == 0 and (p & sb)) else m)
    return out


def both_signs(mags, fmt):
    sb = sign_bit(fmt)
    return [m for m in mags] + [m | sb for m in mags]


def log_largest_pat(fmt):
    _, ln2 = consts()
    return pat_of((bits.EMAX[fmt] + 1) * ln2, fmt)


def trig_max_pat(fmt):
    return inf_mag(fmt) - 1 - (TRIG_J[fmt] << (bits.PREC[fmt] - 1))      # largest / 2^j: exponent field minus j


def convergent_denominators(e, fmt):
    """Denominators q < 2^p of the continued-fraction convergents of 2^e * 2/pi (x = q * 2^e is then
    exceptionally close to a multiple of pi/2)."""
    pi, _ = consts()
    a = Fraction(2) ** (e + 1) / pi
    lim = 1 << bits.PREC[fmt]
    qs = []
    k0, k1 = 1, 0
    x = a
    while True:
        ai = x.numerator // x.denominator
        k0, k1 = k1, ai * k1 + k0
        if k1 >= lim:
            break
        if k1 > 0:
            qs.append(k1)
        x -= ai
        if x == 0 or len(qs) > 120:
            break
        x = 1 / x
    return qs


def pat_of_int_scaled(q, e, fmt):
    """Pattern of q * 2^e when exactly representable and finite, else None."""
    with numpy.errstate(all="ignore"):
        v = numpy.ldexp(numpy.float64(q), e)
        c = bits.FLOAT[fmt](v)
    if not numpy.isfinite(c) or float(c) != float(v) or float(v) == 0.0 or Fraction(float(v)) != Fraction(q) * Fraction(2) ** e:
        return None
    return bits.fbits_int(c, fmt)


def gen_exp(fmt, cls, budget, rng, thorough):
    _, ln2 = consts()
    sb = sign_bit(fmt)
    kmax = bits.EMAX[fmt] + 2
    top = log_largest_pat(fmt)
    out = []
    if cls in ("near_kln2", "near_khalfln2"):
        ks = list(range(-kmax, kmax + 1))
        per = 7
        if len(ks) * per > budget:
            keep = {-kmax, -kmax + 1, -1, 0, 1, 2, kmax - 1, kmax}
            ks = sorted(set(rng.sample(ks, max(1, budget // per - len(keep)))) | keep)
        for k in ks:
            c = (k * ln2) if cls == "near_kln2" else ((2 * k + 1) * ln2 / 2)
            out += neighbours(pat_of(c, fmt), fmt, 3)
    elif cls == "interior":
        # x = (k + f) * ln2 with k over the WHOLE range and f at every scale around the decision point 1/2 (and uniform):
        # an error of the quotient that grows with |k| moves the switch of k by a fraction of ln2, not by a few ulps
        ks = list(range(-kmax, kmax + 1))
        per = 12
        if len(ks) * per > budget:
            n = max(8, budget // per)
            big = [k for k in ks if abs(k) > kmax // 2]
            ks = sorted(set(rng.sample(big, min(len(big), n // 2)) + rng.sample(ks, min(len(ks), n - n // 2))))
        for k in ks:
            fs = [Fraction(1, 2) + s * Fraction(1, 1 << j) for j in rng.sample(range(2, 11), 4) for s in (1, -1)]
            fs += [Fraction(rng.randrange(1, 1 << 20), 1 << 20) for _ in range(4)]
            for f in fs:
                out.append(pat_of((k + f) * ln2, fmt))
    elif cls == "random":
        # log-uniform: uniform over the bit patterns below log(largest), both signs
        for _ in range(budget):
            out.append(rng.randrange(0, top + 1) | (sb if rng.getrandbits(1) else 0))
    elif cls == "tiny":
        mn = 1 << (bits.PREC[fmt] - 1)
        mags = [0, 1, 2, 3, mn - 1, mn, mn + 1, mn >> 1] + [rng.randrange(1, mn) for _ in range(24)] + [rng.randrange(mn, 4 * mn) for _ in range(8)]
        out = both_signs(mags, fmt)
    elif cls == "edge":
        # the boundary of the domain |x| < log(largest) and the first switch k = 0 -> +-1
        out = both_signs([m & (sb - 1) for m in neighbours(top, fmt, 12)], fmt)
        out += neighbours(pat_of(ln2 / 2, fmt), fmt, 40) + neighbours(pat_of(-ln2 / 2, fmt), fmt, 40)
    elif cls == "huge":
        # outside the domain: the spec must classify these out_of_domain and demand nothing
        for _ in range(min(budget, 64)):
            out.append(rng.randrange(top + 16, inf_mag(fmt)) | (sb if rng.getrandbits(1) else 0))
    else:
        raise tlc.MachineryError("unknown exp class %r" % cls)
    return out


def gen_trig(fmt, cls, budget, rng, thorough):
    pi, _ = consts()
    sb = sign_bit(fmt)
    p = bits.PREC[fmt]
    top = trig_max_pat(fmt)
    out = []
    if cls == "near_kpio2":
        nsmall = max(8, min(budget // 14, 40000))
        ks = list(range(1, nsmall + 1))
        # plus large multipliers, log-uniform up to 2^(p+8)
        nl = max(4, budget // 14 // 4)
        ks += [rng.randrange(1 << (b - 1), 1 << b) for b in (rng.randint(8, p + 8) for _ in range(nl))]
        for k in ks:
            pt = pat_of(k * pi / 2, fmt)
            nb = neighbours(pt, fmt, 3)
            out += nb
            if rng.random() < 0.25:
                out += [q ^ sb for q in nb]
    elif cls == "convergent":
        emax_in = bits.EMAX[fmt] - TRIG_J[fmt]            # x = q * 2^e <= largest / 2^j
        es = list(range(-p - 1, emax_in - 1))
        per = 10
        if len(es) * per > budget:
            n = max(8, budget // per)
            # every high binade matters most (the 2/pi table runs out there): half of the budget above emax_in - 4p
            hi = [e for e in es if e >= emax_in - 4 * p]
            lo = [e for e in es if e < emax_in - 4 * p]
            es = sorted(set(rng.sample(hi, min(len(hi), n // 2)) + rng.sample(lo, min(len(lo), n - n // 2))))
        for e in es:
            qs = convergent_denominators(e, fmt)
            cand = []
            for q in qs[-4:]:
                cand.append(q)
                for j in (2, 3):
                    if j * q < (1 << p):
                        cand.append(j * q)
            for q in cand:
                pt = pat_of_int_scaled(q, e, fmt)
                if pt is None or pt > top:
                    continue
                out.append(pt)
                if rng.random() < 0.3:
                    out.append(pt | sb)
                if rng.random() < 0.2:
                    out += neighbours(pt, fmt, 1)
    elif cls == "interior":
        # x = (k + f) * pi/2: k log-uniform over every magnitude the domain admits, f at every scale around 1/2 and uniform
        kbits = max(2, bits.EMAX[fmt] - TRIG_J[fmt] - 1)
        for _ in range(max(8, budget // 10)):
            b = rng.randint(1, kbits)
            k = rng.randrange(1 << (b - 1), 1 << b)
            fs = [Fraction(1, 2) + s * Fraction(1, 1 << j) for j in rng.sample(range(2, 11), 3) for s in (1, -1)]
            fs += [Fraction(rng.randrange(1, 1 << 20), 1 << 20) for _ in range(4)]
            sg = sb if rng.random() < 0.4 else 0
            for f in fs:
                pt = pat_of((k + f) * pi / 2, fmt)
                if pt <= top:
                    out.append(pt | sg)
    elif cls == "switch":
        c = pat_of(pi / 4, fmt)
        offs = set(range(-24, 25))
        for b in range(5, p - 2):
            offs |= {-(1 << b), (1 << b), -(1 << b) + rng.randrange(1 << (b - 1)), (1 << b) - rng.randrange(1 << (b - 1))}
        out = both_signs([c + o for o in sorted(offs)], fmt)
        out += both_signs([pat_of(pi / 2, fmt) + o for o in range(-8, 9)], fmt)
    elif cls == "random":
        for _ in range(budget):
            u = rng.random()
            if u < 0.6:
                m = rng.randrange(0, top + 1)                                   # log-uniform over the whole domain
            elif u < 0.9:
                m = rng.randrange(pat_of(Fraction(1, 2), fmt), pat_of(Fraction(1 << 20), fmt) if fmt != "float16" else top)
            else:
                m = rng.randrange(max(1, top - (8 * p << (p - 1))), top + 1)    # the top 8p binades
            out.append(m | (sb if rng.getrandbits(1) else 0))
    elif cls == "tiny":
        mn = 1 << (p - 1)
        mags = [0, 1, 2, 3, mn - 1, mn, mn + 1, mn >> 1] + [rng.randrange(1, mn) for _ in range(24)] + [rng.randrange(mn, 4 * mn) for _ in range(8)]
        out = both_signs(mags, fmt)
    elif cls == "edge":
        out = both_signs(list(range(top - 24, top + 4)), fmt)          # around largest / 2^j (the last 4 are outside)
        for b in range(1, 12):
            out.append(top - rng.randrange(1 << b, 1 << (b + 6)))
    elif cls == "huge":
        for _ in range(min(budget, 48)):
            out.append(rng.randrange(top + 1, inf_mag(fmt)) | (sb if rng.getrandbits(1) else 0))
    else:
        raise tlc.MachineryError("unknown trig class %r" % cls)
    return out


def gen_f16(fn, cls, rng):
    fmt = "float16"
    top = log_largest_pat(fmt) + 4 if fn == "exp" else trig_max_pat(fmt)
    if cls == "exhaustive":
        return both_signs(list(range(0, top + 1)), fmt)
    if cls == "huge":
        return both_signs(sorted(rng.sample(range(top + 1, inf_mag(fmt)), 40)), fmt)
    raise tlc.MachineryError("unknown float16 class %r" % cls)


# --------------------------------------------------------------------------- verdict plumbing
SEV = ("sev_dw", "sev_tab", "sev_unbounded")


def key_of(ev, clauses):
    """Key of a failing event: function, format, clauses; a failing trigonometric reconstruction also carries its
    severity class (bounded classes, see ArgReduce.tla) and, for float16 (enumerated exhaustively), |x|."""
    cl = [c for c in clauses if c not in SEV]
    key = "%s:%s:%s" % (ev["fn"], ev["fmt"], "+".join(cl))
    sev = [c for c in clauses if c in SEV]
    if sev:
        key += ":" + "+".join(s[4:] for s in sev)
        if ev["fmt"] == "float16":
            key += ":|x|=0x%04x" % (bits.unnat(ev["x"]) & 0x7fff)
    return key


def describe(ev, clauses):
    fmt = ev["fmt"]
    vals = [bits.from_bits(ev[f], fmt) for f in ("x", "k", "r", "lo")]
    s = "argument_reduction_%s(%s(%r)) -> k=%r r=%r %s=%r %s" % (
        "exponent" if ev["fn"] == "exp" else "trigonometric", fmt, float(vals[0]), float(vals[1]), float(vals[2]),
        "c" if ev["fn"] == "exp" else "t", float(vals[3]), ev["raised"])
    err = error_ulps(ev)
    if err is not None:
        s += " error %.4g ulp(%s)" % (err, "x" if ev["fn"] == "exp" else "r")
    return s + ": clauses %s" % (clauses,)


def error_ulps(ev):
    """Descriptive only: |reconstruction error| in ulp(x) (exp) / ulp(r) (trig), as a float."""
    fmt = ev["fmt"]
    pi, ln2 = consts()
    x, k, r, lo = (fval(bits.unnat(ev[f]), fmt) for f in ("x", "k", "r", "lo"))
    if None in (x, k, r, lo):
        return None
    p, emax = bits.PREC[fmt], bits.EMAX[fmt]

    def ulp(v):
        if v == 0:
            return Fraction(2) ** (2 - emax - p)
        n, d = abs(v).numerator, abs(v).denominator
        e = n.bit_length() - d.bit_length()
        if Fraction(2) ** e > abs(v):
            e -= 1
        return Fraction(2) ** (max(e, 1 - emax) - (p - 1))
    if ev["fn"] == "exp":
        q = abs(k * ln2 + r + lo - x) / ulp(x)
    else:
        q = abs(x - k * pi / 2 - r - lo - 2 * pi * bits.unzint(ev["n"])) / ulp(r)
    try:
        return float(q)
    except OverflowError:
        return float("inf")


class Stats:
    def __init__(self):
        self.notes = {}
        self.by = {}
        self.fail_by = {}
        self.nontrivial = set()
        self.worst = {}

    def count(self, fn, fmt, cls, n):
        k = "%s:%s:%s" % (fn, fmt, cls)
        self.by[k] = self.by.get(k, 0) + n


def validate(chk, events, stats):
    if not events:
        return
    res = tlc.validate_events("Trace_ArgReduce", "Trace.cfg", events, name="argreduce", nproc=min(tlc.NCPU, 14))
    chk.add_trace("Trace_ArgReduce", res, len(events))
    byid = {e["id"]: e for e in events}
    for eid, text in res["notes"]:
        for kind in tlaval.parse(text)["__set__"]:
            ev = byid[eid]
            k = "%s:%s:%s" % (kind, ev["fn"], ev["fmt"])
            stats.notes[k] = stats.notes.get(k, 0) + 1
            if kind == "undecided":
                raise tlc.MachineryError("enclosure too wide to decide a clause: %s" % json.dumps(ev))
    for eid, clauses in res["fails"]:
        ev = byid[eid]
        key = key_of(ev, clauses)
        cls_key = key.split(":|x|=")[0]
        stats.fail_by[cls_key] = stats.fail_by.get(cls_key, 0) + 1
        err = error_ulps(ev)
        if err is not None and err > stats.worst.get(cls_key, (0, None))[0]:
            stats.worst[cls_key] = (err, describe(ev, clauses))
        chk.fail(key, describe(ev, clauses), dict(event=ev, clauses=clauses))


def export_shapes(chk):
    r = tlc.run("MC_ArgReduce", "MC_ArgReduce_shapes.cfg", workers=1, timeout=300)
    if not r.ok:
        raise tlc.MachineryError("shape export failed:\n" + r.out[-2000:])
    chk.add_mc("MC_ArgReduce_shapes", r)
    shapes = [v[1] for v in tlaval.printed_values(r.out, "S")]
    shapes.sort(key=lambda d: json.dumps(d, sort_keys=True))
    if len(shapes) != 38:
        raise tlc.MachineryError("expected 38 shape classes, TLC printed %d" % len(shapes))
    return shapes


def run_u1(chk):
    r = tlc.run("MC_ArgReduce", "MC_ArgReduce.cfg", workers=3, timeout=900)
    chk.add_mc("MC_ArgReduce", r)
    if not r.ok:
        if r.invariant_violated:
            raise tlc.MachineryError("ArgReduceConsts is not an enclosure of ln 2 / pi (or the oracle arithmetic is broken): %s\n%s"
                                     % (r.invariant_violated, r.error_trace()[:1500]))
        raise tlc.MachineryError("MC_ArgReduce did not complete:\n" + r.out[-2000:])
    seen = {v[1] for v in tlaval.printed_values(r.out, "U1")}
    if seen != {"ln2", "pi", "rn", "div", "logic"}:
        raise tlc.MachineryError("vacuous constants run: evaluated only %s" % sorted(seen))
    chk.cov["u1"] = dict(proved=["ln2 in [Ln2Num, Ln2Num+1]*2^-300 (2 atanh(1/3) series)",
                                 "pi in [PiNum, PiNum+1]*2^-1300 (Machin)"], checks=sorted(seen))


BUDGET = {
    # per (function, class): events per float32/float64 format
    "quick": {"exp": dict(near_kln2=1850, near_khalfln2=1850, random=1500, interior=4000, tiny=80, edge=300, huge=40),
              "trig": dict(near_kpio2=1400, convergent=900, switch=400, random=1200, interior=1000, tiny=80, edge=100, huge=40)},
    "thorough": {"exp": dict(near_kln2=10 ** 6, near_khalfln2=10 ** 6, random=190000, interior=60000, tiny=80, edge=300, huge=64),
                 "trig": dict(near_kpio2=160000, convergent=10 ** 6, switch=400, random=150000, interior=60000, tiny=80, edge=100, huge=48)},
}


def run(tier, seed):
    import_repo()
    chk = Check(PID, tier, seed)
    rng = random.Random(seed)
    thorough = tier != "quick"
    runner = Runner(nproc=min(12, max(2, tlc.NCPU - 4)))
    runner.warm()                      # fork the workers before any thread exists
    pool = cf.ThreadPoolExecutor(max_workers=1)
    u1 = pool.submit(run_u1, chk)
    shapes = export_shapes(chk)
    stats = Stats()
    events, eid = [], 0
    batch = 200000
    u1_done = []

    def flush(force=False):
        nonlocal events
        if events and (force or len(events) >= batch):
            if not u1_done:
                u1.result()
                u1_done.append(True)
            validate(chk, events, stats)
            events = []

    try:
        for sh in shapes:
            fn, fmt, cls = sh["fn"], sh["fmt"], sh["cls"]
            if cls == "history":
                if fmt != "float64":      # the histories span all formats: run once per function (under the float64 shape)
                    continue
                for hf, rr in run_histories(fn):
                    stats.count(fn, hf, cls, 1)
                    events.append(make_event(eid, fn, hf, cls, rr))
                    eid += 1
                continue
            if fmt == "float16":
                pats = gen_f16(fn, cls, rng)
            else:
                budget = BUDGET[tier][fn].get(cls)
                if budget is None:
                    raise tlc.MachineryError("no budget for shape %r" % (sh,))
                pats = (gen_exp if fn == "exp" else gen_trig)(fmt, cls, budget, rng, thorough)
            # keep finite, distinct patterns in a deterministic order
            seen, uniq = set(), []
            for q in pats:
                if q not in seen and (q & (sign_bit(fmt) - 1)) < inf_mag(fmt):
                    seen.add(q)
                    uniq.append(q)
            res = runner.run(fn, fmt, uniq)
            stats.count(fn, fmt, cls, len(res))
            for rr in res:
                ev = make_event(eid, fn, fmt, cls, rr)
                events.append(ev)
                if cls != "huge":
                    stats.nontrivial.add((fn, fmt, rr[0]))
                if eid % 7919 == 0:
                    chk.sample(ev)
                eid += 1
            flush()
        flush(force=True)
        if not u1_done:
            u1.result()
    finally:
        runner.close()
        pool.shutdown(wait=True)
    # ---- consistency of the run itself
    ood = sum(v for k, v in stats.notes.items() if k.startswith("out_of_domain"))
    nhuge = sum(v for k, v in stats.by.items() if k.endswith(":huge"))
    if ood < nhuge:
        raise tlc.MachineryError("only %d of %d out-of-domain arguments were classified out_of_domain by the spec" % (ood, nhuge))
    if ood > nhuge + 400:
        raise tlc.MachineryError("%d events classified out_of_domain, only %d were aimed outside: generators and spec disagree on the domain"
                                 % (ood, nhuge))
    strict_only = {k: v for k, v in stats.notes.items() if k.startswith("strict_only")}
    if strict_only:
        chk.note("trigonometric recon fails the real-line reading but passes the lattice reading (not a failure): %s" % strict_only)
    for k, (err, what) in sorted(stats.worst.items()):
        chk.note("worst failing event of class %s: %s" % (k, what))
    chk.assumptions += [
        "ln 2 and pi enter as dyadic enclosures of width 2^-300 / 2^-1300 (proved in U1); a clause fails only when it is false at "
        "both ends of the enclosure (hence for the real constant); an undecidable clause would be a machinery failure (none occurred)",
        "exponential domain: |x| < (emax+1)*ln2 - 2^-p - 2^-2p (a lower bound of log(largest)); trigonometric domain: "
        "|x| <= largest/2^j with j = 18/5/2 for float64/float32/float16 (the domain of the package's tests); outside nothing is demanded",
        "trigonometric recon: ulp of the remainder = ulp of the returned high word r; tol = 1 (10 for float16); an event fails "
        "only if it fails on the real line (exact r + t) AND on the float lattice (diff_ulp(fl(r+t), RN(true remainder)) > tol, "
        "the package's own test criterion)",
        "the witness N is computed by the driver and verified by the spec; a wrong N can only produce a failure",
        "functions are called as the package's tests do: NumpyContext(dtype) and a NumPy scalar argument",
        "k, r, c/t of another numeric type are accepted when exactly a value of the format",
    ]
    return chk.finish(
        rule="float16: every finite pattern of the domain, both signs, both functions; float32/float64: per TLC shape class "
             "budgets %s; non-trivial = distinct (function, format, in-domain argument) triples" % json.dumps(BUDGET[tier]),
        distinct_nontrivial=len(stats.nontrivial),
        extra_cov=dict(events_by_shape=stats.by, shapes=len(shapes), spec_notes=stats.notes, failing_by_class=stats.fail_by,
                       worst_by_class={k: v[0] for k, v in stats.worst.items()}))


def replay(path):
    import_repo()
    with open(path) as f:
        rp = json.load(f)["replay"]
    old = rp["event"]
    res = call_one(old["fn"], old["fmt"], bits.unnat(old["x"]))
    ev = make_event(old["id"], old["fn"], old["fmt"], old.get("cls", "replay"), res)
    print(json.dumps(ev))
    out = tlc.validate_events("Trace_ArgReduce", "Trace.cfg", [ev], nproc=1)
    for eid, clauses in out["fails"]:
        print("VIOLATION property=%s replay=%s  # %s: %s" % (PID, path, key_of(ev, clauses), describe(ev, clauses)))
    for eid, text in out["notes"]:
        print("note: %s" % text)
    return 1 if out["fails"] else 0
