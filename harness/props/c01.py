"""C01 - complex-plane accuracy of every complex algorithm (absolute, acos, acosh, asin, asinh, atan, atanh, exp, log,
log2, log10, log1p, sqrt, square) in complex64 / complex128.

The true value of each function is SPECIFIED inside TLA+ (spec/AccuracyC.tla: forward interval evaluation, with the
rigorous enclosures of spec/Reals.tla, of well-conditioned formulas whose polynomial arguments are exact dyadics) -
nothing here computes a true value for a verdict.  mpmath appears only in selftest() (machinery soundness test).

U1: TLC checks small-scope laws of the complex enclosures (MC_AccuracyC.cfg / _deep.cfg): the defining relation
    evaluated forward on the enclosure contains z (square(sqrt z), exp(log z), sin(asin z), cos(acos z), sinh(asinh z),
    cosh(acosh z), tanh(atanh z), tan(atan z), log1p(z) = log(1+z), log2/log10 vs log, |exp z|^2 = e^2x), principal
    ranges, conjugate symmetry / oddness with signed zeros, the side of every branch cut selected by a zero's sign bit
    is the limit from that side, demanded zero signs are one-sided limits, shape, nestedness; and on a toy format the
    correctly rounded true value has no failing clause while a moved / NaN component has one.  Sabotaged variant caught.
U2: TLC enumerates the abstract input classes (AccuracyCShapes: per function and component the region boundaries of
    algorithms.py +- k lattice steps, pair classes, relation shapes |z| = 1, |1+z| = 1, x = -y^2/2, |1+x|+|y| = 0.2,
    a = 1.5, |y| = |x|/inv_negeps) and concretises them for float32 / float64 components.
U3: the package's own expansion (harness/evalalgo.get_function(name, "complex64"/"complex128")) is evaluated on
    (a) "uniform": both components uniform over non-NaN bit patterns, (b) "logu": both components uniform over the bit
    patterns of magnitudes 2^-12..2^12 (log-uniform), random signs, (c) "shape": the U2 classes, (d) "region": random
    neighbourhoods (+-4 binades) of the U2 pair classes, (e) "screen": the worst inputs found by a heuristic
    error-maximising screen (it only CHOOSES inputs).  Each evaluation is one event (raw bit patterns) judged by
    Trace_AccuracyC.tla.  The target-rate statistic is counted by the spec's notes over (a) and (b) separately and
    judged by "rate" events.

The driver never decides a clause.  Floats in messages are descriptive.
"""
import collections
import json
import os
import random
import sys
import time

import numpy

from .. import tlc, tlaval, bits, evalalgo
from ..common import Check, import_repo

PID = "C01"
FNS = list(evalalgo.COMPLEX_NAMES)
DTYPES = ["complex64", "complex128"]
COMP = evalalgo.COMPONENT


def evaluate(fn, dtype, xs, ys):
    """Bit patterns (wre, wim) of the package's expansion of fn on the inputs with component patterns xs, ys."""
    fmt = COMP[dtype]
    f = evalalgo.get_function(fn, dtype)
    x = numpy.array(xs, dtype=bits.UINT[fmt]).view(bits.FLOAT[fmt])
    y = numpy.array(ys, dtype=bits.UINT[fmt]).view(bits.FLOAT[fmt])
    z = evalalgo._make_complex(x, y)
    r = numpy.ascontiguousarray(f(z))
    if fn == "absolute":
        if r.dtype != numpy.dtype(bits.FLOAT[fmt]):
            raise tlc.MachineryError("%s(%s) returned dtype %s" % (fn, dtype, r.dtype))
        return [int(v) for v in r.view(bits.UINT[fmt])], None
    if r.dtype != numpy.dtype(dtype):
        raise tlc.MachineryError("%s(%s) returned dtype %s" % (fn, dtype, r.dtype))
    re = numpy.ascontiguousarray(r.real).view(bits.UINT[fmt])
    im = numpy.ascontiguousarray(r.imag).view(bits.UINT[fmt])
    return [int(v) for v in re], [int(v) for v in im]


class Batch:
    def __init__(self):
        self.events = []
        self.meta = []          # id -> (fn, dtype, xb, yb, wre, wim, src, shape)

    def add(self, fn, dtype, xs, ys, src, shapes=None):
        if not len(xs):
            return
        fmt = COMP[dtype]
        wre, wim = evaluate(fn, dtype, xs, ys)
        for i in range(len(xs)):
            eid = len(self.events)
            ev = dict(id=eid, fn=fn, fmt=fmt, x=bits.nat(xs[i]), y=bits.nat(ys[i]), wre=bits.nat(wre[i]))
            if wim is not None:
                ev["wim"] = bits.nat(wim[i])
            self.events.append(ev)
            self.meta.append((fn, dtype, int(xs[i]), int(ys[i]), wre[i], None if wim is None else wim[i], src,
                              shapes[i] if shapes else None))


def fl(b, fmt):
    return float(bits.from_bits_int(b, fmt))


def describe(m):
    fn, dtype, xb, yb, wre, wim, src, shape = m
    fmt = COMP[dtype]
    res = "%r" % fl(wre, fmt) if wim is None else "(%r, %r)" % (fl(wre, fmt), fl(wim, fmt))
    return "%s[%s](%r, %r) = %s  (patterns 0x%x, 0x%x -> 0x%x%s; %s%s)" % (
        fn, dtype, fl(xb, fmt), fl(yb, fmt), res, xb, yb, wre, "" if wim is None else ", 0x%x" % wim, src,
        " " + json.dumps(shape) if shape else "")


# ------------------------------------------------------------------------------------------------ self-test
# MACHINERY self-test of the enclosures of AccuracyC.tla (never part of a verdict): the reference is mpmath at
# >= 400 bits (more when the input exponents are far apart, so that mpmath's own cancellation is harmless).
ENCL_FNS = [f for f in FNS if f != "absolute"]
ODD_FNS = ("asin", "asinh", "atan", "atanh")


def _dy(man, exp):
    return [[1 if man < 0 else 0, bits.nat(abs(man))], exp]


def _mp_of(man, exp):
    import mpmath
    return mpmath.ldexp(mpmath.mpf(man), exp)


def _dy_of_mpf(v):
    s, man, exp, bc = v._mpf_
    man = int(man)
    return _dy(-man if s else man, int(exp)) if man else _dy(0, 0)


def _rand_dyadic(rng, lead_lo, lead_hi, nb=None):
    nb = nb or rng.choice([1, 3, 12, 24, 53])
    man = rng.getrandbits(nb) | (1 << (nb - 1))
    lead = rng.randint(lead_lo, lead_hi)
    return rng.choice([-1, 1]) * man, lead - (nb - 1)


def _near(rng, c_man, c_exp):
    """c + d for a small dyadic d (|d| between 2^-60 and 2^-2 of |c|), exactly."""
    dm, de = _rand_dyadic(rng, -60, -2, rng.choice([1, 8, 24]))
    e = min(c_exp, de)
    return (c_man << (c_exp - e)) + (dm << (de - e)), e


def selftest_point(fn, rng):
    """A random dyadic input ((mx, ex), (my, ey), sx, sy) of fn aimed at its regions (descriptive of nothing)."""
    import math
    u = rng.random()
    if u < 0.30:
        x, y = _rand_dyadic(rng, -12, 12), _rand_dyadic(rng, -12, 12)
    elif u < 0.50:
        x, y = _rand_dyadic(rng, -1070, 1020), _rand_dyadic(rng, -1070, 1020)
    elif u < 0.60:                                  # on / near the unit circle
        t = rng.uniform(-math.pi, math.pi)
        nb = rng.choice([24, 53])
        x = (int(round(math.cos(t) * 2 ** nb)), -nb)
        y = (int(round(math.sin(t) * 2 ** nb)), -nb)
        if rng.random() < 0.5:                      # |1 + z| ~ 1 for log1p
            x = (x[0] - (1 << nb), -nb)
    elif u < 0.72:                                  # near +-1 / +-i
        c = rng.choice([1, -1])
        a, b = _near(rng, c, 0), _rand_dyadic(rng, -80, -1)
        if rng.random() < 0.3:
            b = (0, 0)
        x, y = (a, b) if rng.random() < 0.5 else (b, a)
    elif u < 0.80:                                  # x ~ -y^2/2 (log1p), tiny x with moderate y
        y = _rand_dyadic(rng, -30, -1, 24)
        x = (-(y[0] * y[0]) + rng.randint(-3, 3), 2 * y[1] - 1)
    elif u < 0.92:                                  # a zero component
        a = _rand_dyadic(rng, -1070, 1020) if rng.random() < 0.4 else _rand_dyadic(rng, -3, 3)
        x, y = ((0, 0), a) if rng.random() < 0.5 else (a, (0, 0))
        if rng.random() < 0.1:
            x, y = (0, 0), (0, 0)
    else:                                           # huge with tiny
        a, b = _rand_dyadic(rng, 400, 1020), _rand_dyadic(rng, -1070, -400)
        x, y = (a, b) if rng.random() < 0.5 else (b, a)
    if fn == "exp" and x[0] and x[1] + abs(x[0]).bit_length() > 12:     # |x| <= 4096 (beyond: clamped, see U1)
        x = (x[0], 12 - abs(x[0]).bit_length() - rng.randint(0, 8))
    return x, y, rng.getrandbits(1), rng.getrandbits(1)


def _is_pole(fn, x, y):
    xz, yz = x[0] == 0, y[0] == 0
    one = lambda v: v[0] != 0 and abs(v[0]) == 1 << (abs(v[0]).bit_length() - 1) and v[1] + abs(v[0]).bit_length() - 1 == 0
    if fn in ("log", "log2", "log10"):
        return xz and yz
    if fn == "log1p":
        return yz and one(x) and x[0] < 0
    if fn == "atanh":
        return yz and one(x)
    if fn == "atan":
        return xz and one(y)
    return False


def mp_reference(fn, x, y, sx, sy):
    """(re, im) mpf of fn at the dyadic point with signed zeros (sides of cuts chosen by stepping off the axis)."""
    import mpmath
    MP = {"acos": mpmath.acos, "acosh": mpmath.acosh, "asin": mpmath.asin, "asinh": mpmath.asinh, "atan": mpmath.atan,
          "atanh": mpmath.atanh, "exp": mpmath.exp, "log": mpmath.log, "log1p": lambda z: mpmath.log(1 + z),
          "log2": lambda z: mpmath.log(z) / mpmath.log(2), "log10": lambda z: mpmath.log(z) / mpmath.log(10),
          "sqrt": mpmath.sqrt, "square": lambda z: z * z}
    leads = [v[1] + abs(v[0]).bit_length() for v in (x, y) if v[0]]
    spread = (max(leads) - min(leads) if leads else 0) + 2 * max([abs(l) for l in leads] + [0])
    prec = 500 + 3 * spread + 120
    with mpmath.workprec(prec):
        vx, vy = _mp_of(*x), _mp_of(*y)
        f = MP[fn]
        v = f(mpmath.mpc(vx, vy))
        tiny = mpmath.ldexp(1, -(prec // 3))
        scale = max(abs(vx), abs(vy), mpmath.mpf(1))
        if y[0] == 0:
            probe = f(mpmath.mpc(vx, (-1 if sy else 1) * tiny * scale))
            alt = mpmath.conj(v)
            if abs(alt - probe) < abs(v - probe):
                v = alt
        if x[0] == 0 and fn in ODD_FNS:
            probe = f(mpmath.mpc((-1 if sx else 1) * tiny * scale, vy if y[0] else (-1 if sy else 1) * tiny * scale))
            alt = mpmath.mpc(-v.real, v.imag)
            if abs(alt - probe) < abs(v - probe):
                v = alt
        re, im = +v.real, +v.imag
    with mpmath.workprec(400):
        return +re, +im


def selftest_events(fns, n, W, seed, show=False):
    rng = random.Random(seed)
    evs = []
    for fn in fns:
        k = 0
        while k < n:
            x, y, sx, sy = selftest_point(fn, rng)
            if _is_pole(fn, x, y):
                continue
            re, im = mp_reference(fn, x, y, sx, sy)
            evs.append(dict(id=len(evs), fn="encl", g=fn, w=W, x=_dy(*x), y=_dy(*y), sx=sx, sy=sy,
                            rre=_dy_of_mpf(re), rim=_dy_of_mpf(im), show=show))
            k += 1
    return evs


# ------------------------------------------------------------------------------------------------ inputs
def sign_bit(fmt):
    return 1 << (bits.WIDTH[fmt] - 1)


def inf_mag(fmt):
    return ((1 << (bits.WIDTH[fmt] - bits.PREC[fmt])) - 1) << (bits.PREC[fmt] - 1)


def uniform_patterns(fmt, n, rng):
    """n non-NaN patterns uniform over bit patterns: sign and fraction random, exponent field stratified (every
    finite exponent field value equally often), in random order."""
    w, p = bits.WIDTH[fmt], bits.PREC[fmt]
    nexp = (1 << (w - p)) - 1
    off = rng.randrange(nexp)
    out = [(rng.getrandbits(1) << (w - 1)) | (((i + off) % nexp) << (p - 1)) | rng.getrandbits(p - 1) for i in range(n)]
    rng.shuffle(out)
    return out


def logu_patterns(fmt, n, rng):
    """n patterns uniform over the bit patterns with magnitude in [2^-12, 2^12), random sign: the exponent uniform in
    -12..11 and the fraction uniform - the statement's 'log-uniformly (uniformly over bit patterns)'."""
    w, p = bits.WIDTH[fmt], bits.PREC[fmt]
    bias = bits.EMAX[fmt]
    return [(rng.getrandbits(1) << (w - 1)) | ((bias + rng.randint(-12, 11)) << (p - 1)) | rng.getrandbits(p - 1) for _ in range(n)]


def export_shapes(tier, chk=None):
    """TLC's enumeration: comp[(anchor, k)] = {fmt: magnitude pattern or None}, pairs[fn] = [(ax, ay)],
    rel[fn][fmt] = [(x, y, shape)], ks."""
    r = tlc.run("AccuracyCShapes", "AccuracyCShapes.cfg", workers=2, timeout=1800)
    if not r.ok:
        raise tlc.MachineryError("shape enumeration failed:\n" + r.out[-2000:])
    if chk is not None:
        chk.add_mc("AccuracyCShapes.cfg", r)
    comp, pairs, rel = {}, collections.defaultdict(list), collections.defaultdict(lambda: collections.defaultdict(list))
    for h in tlaval.printed_values(r.out, "C"):
        comp[(h[1], h[2])] = {"float32": None if h[3] == [-1] else bits.unnat(h[3]),
                              "float64": None if h[4] == [-1] else bits.unnat(h[4])}
    for h in tlaval.printed_values(r.out, "P"):
        pairs[h[1]].append((h[2], h[3]))
    for h in tlaval.printed_values(r.out, "R"):
        kind, fns, tag, k = h[1], h[2]["__set__"], h[3], h[4]
        for fmt, b in (("float32", h[5]), ("float64", h[6])):
            if b[0] == [-1] or b[1] == [-1]:
                continue
            for fn in fns:
                rel[fn][fmt].append((bits.unnat(b[0]), bits.unnat(b[1]), [kind, tag, k]))
    ks = sorted({k for (_, k) in comp})
    if len(comp) < 100 or set(pairs) != set(FNS) or not all(len(v) >= 36 for v in pairs.values()):
        raise tlc.MachineryError("shape enumeration produced too little (%d components, %d functions)" % (len(comp), len(pairs)))
    for fn in FNS:
        pairs[fn].sort()
    return dict(comp=comp, pairs=pairs, rel=rel, ks=ks, states=r.distinct)


def shape_inputs(sh, fn, fmt, tier, rng):
    """Concretisations of the classes of fn: thorough = every class x every offset pair x 4 signs (+ relation shapes
    x 4 reflections); quick = one seeded (offsets, signs) per pair class and per relation shape."""
    sb = sign_bit(fmt)
    xs, ys, tags = [], [], []

    def put(x, y, tag):
        xs.append(x)
        ys.append(y)
        tags.append(tag)

    ks = sh["ks"]
    for ax, ay in sh["pairs"][fn]:
        if tier == "quick":
            combos = [(rng.choice(ks), rng.choice(ks), rng.getrandbits(1), rng.getrandbits(1))]
            if rng.random() < 0.5:
                combos.append((0, 0, rng.getrandbits(1), rng.getrandbits(1)))
        else:
            combos = [(kx, ky, sx, sy) for kx in ks for ky in ks for sx in (0, 1) for sy in (0, 1)]
        for kx, ky, sx, sy in combos:
            mx, my = sh["comp"][(ax, kx)][fmt], sh["comp"][(ay, ky)][fmt]
            if mx is None or my is None:
                continue
            put(mx | (sb if sx else 0), my | (sb if sy else 0), ["pair", ax, kx, sx, ay, ky, sy])
    for x, y, tag in sh["rel"][fn][fmt]:
        refl = [(rng.getrandbits(1), rng.getrandbits(1))] if tier == "quick" else [(0, 0), (0, 1), (1, 0), (1, 1)]
        for fx, fy in refl:
            put(x ^ (sb if fx else 0), y ^ (sb if fy else 0), tag + [fx, fy])
    return xs, ys, tags


def region_inputs(sh, fn, fmt, n, rng):
    """Random neighbourhoods of the pair classes: each component uniform over the bit patterns within +-4 binades
    of its anchor (half of the time one of the two exactly on its anchor)."""
    p = bits.PREC[fmt]
    sb, inf = sign_bit(fmt), inf_mag(fmt)
    span = 4 << (p - 1)
    xs, ys, tags = [], [], []
    cls = sh["pairs"][fn]
    for i in range(n):
        ax, ay = cls[rng.randrange(len(cls))]
        exact = rng.choice(["", "", "x", "y"])          # half of the time one component sits exactly on its anchor
        out = []
        for c, a in (("x", ax), ("y", ay)):
            m = sh["comp"][(a, 0)][fmt]
            lo, hi = max(0, m - span), min(inf, m + span)
            out.append((m if c == exact else rng.randint(lo, hi)) | (sb if rng.getrandbits(1) else 0))
        xs.append(out[0])
        ys.append(out[1])
        tags.append(["near", ax, ay, exact])
    return xs, ys, tags


# ------------------------------------------------------------------------------------------------ region labels
def _thresholds(fmt):
    p = bits.PREC[fmt]
    fi = numpy.finfo(bits.FLOAT[fmt])
    sl = float(numpy.sqrt(fi.max))
    return [("sub", float(fi.smallest_normal)), ("tiny", 4.0 * float(numpy.sqrt(fi.smallest_normal))),
            ("small", 2.0 ** -(p // 2)), ("lt1", 1.0), ("mid", 2.0 ** p), ("big", sl / 8 * 1e-6), ("large", sl / 8),
            ("huge", float("inf"))]


_THR = {}


def mclass(b, fmt):
    """Descriptive magnitude class of a component (used in failure KEYS only, never a verdict)."""
    v = abs(fl(b, fmt))
    if v == 0:
        return "0"
    if v == 1:
        return "1"
    if numpy.isinf(v):
        return "inf"
    if numpy.isnan(v):
        return "nan"
    if fmt not in _THR:
        _THR[fmt] = _thresholds(fmt)
    for name, t in _THR[fmt]:
        if v < t:
            return name
    return "huge"


def _exp_xclass(b, fmt):
    """exp: the real part relative to the overflow / underflow thresholds of e^x (descriptive)."""
    v = fl(b, fmt)
    fi = numpy.finfo(bits.FLOAT[fmt])
    lo, hi = float(numpy.log(numpy.float64(fi.smallest_subnormal))), float(numpy.log(numpy.float64(fi.max)))
    if numpy.isinf(v):
        return "inf" if v > 0 else "-inf"
    if v == 0:
        return "0"
    return "<2udf" if v < 2 * lo else "<udf" if v < lo else "<0" if v < 0 else "<ovf" if v <= hi else "<2ovf" if v <= 2 * hi else ">=2ovf"


def region(fn, dtype, xb, yb):
    fmt = COMP[dtype]
    if fn == "exp":
        return "x=%s,y=%s" % (_exp_xclass(xb, fmt), mclass(yb, fmt))
    return "x=%s,y=%s" % (mclass(xb, fmt), mclass(yb, fmt))


def fail_keys(m, clauses):
    """A finding is a CLASS: function, dtype, magnitude classes of the two input components, the failing COMPONENT and
    its failing clauses with the severity class: [(key, clauses of the component)].  A component that fails only the
    zero-sign clause (the value is right, the sign of an exact zero is not) is keyed by which input components are
    zeros / infinite only."""
    fn, dtype, xb, yb = m[0], m[1], m[2], m[3]
    fmt = COMP[dtype]
    out = []
    for comp in ("re", "im"):
        cl = sorted(c[:-3] for c in clauses if c.endswith("_" + comp))
        if not cl:
            continue
        if cl == ["zero_sign"]:
            coarse = lambda c: c if c in ("0", "inf") else "finite"
            reg = "x=%s,y=%s" % (coarse(mclass(xb, fmt)), coarse(mclass(yb, fmt)))
        else:
            reg = region(fn, dtype, xb, yb)
        out.append(("%s:%s:%s:%s:%s" % (fn, dtype, reg, comp, "+".join(cl)), cl))
    rest = [c for c in clauses if not (c.endswith("_re") or c.endswith("_im"))]
    if rest:
        out.append(("%s:%s:%s:%s" % (fn, dtype, region(fn, dtype, xb, yb), "+".join(sorted(rest))), rest))
    return out


# ------------------------------------------------------------------------------------------------ error-maximising screen
# A HEURISTIC pre-screen that only CHOOSES inputs: the package's expansion is compared with a reference one precision
# higher and the inputs with the largest apparent lattice distance are handed to TLC, which alone judges them.
# complex64: the reference is the package's own complex128 expansion of the same function on the upcast input;
# complex128: NumPy's native function in x87 extended precision (log1p: (1/2) log1p(2x+x^2+y^2), atan2(y, 1+x)).
# If the reference is wrong the only consequence is a less adversarial choice of inputs.
NP_NATIVE = {"absolute": numpy.abs, "acos": numpy.arccos, "acosh": numpy.arccosh, "asin": numpy.arcsin, "asinh": numpy.arcsinh,
             "atan": numpy.arctan, "atanh": numpy.arctanh, "exp": numpy.exp, "log": numpy.log, "log2": numpy.log2,
             "log10": numpy.log10, "sqrt": numpy.sqrt, "square": numpy.square}
SINT = {"float32": numpy.int32, "float64": numpy.int64}


def _ordinal(a, fmt):
    i = numpy.ascontiguousarray(a).view(SINT[fmt]).astype(numpy.int64)
    mask = numpy.int64((1 << (bits.WIDTH[fmt] - 1)) - 1)
    return numpy.where(i < 0, -(i & mask), i)


def _screen_reference(fn, dtype, z):
    fmt = COMP[dtype]
    with numpy.errstate(all="ignore"):
        if dtype == "complex64":
            r = evalalgo.get_function(fn, "complex128")(z.astype(numpy.complex128))
        else:
            zl = z.astype(numpy.clongdouble)
            if fn == "log1p":
                x, y = zl.real, zl.imag
                r = 0.5 * numpy.log1p(2 * x + x * x + y * y) + 1j * numpy.arctan2(y, 1 + x)
            else:
                r = NP_NATIVE[fn](zl)
    with numpy.errstate(all="ignore"):
        if fn == "absolute":
            return [numpy.asarray(r).astype(bits.FLOAT[fmt])]
        r = numpy.asarray(r)
        return [r.real.astype(bits.FLOAT[fmt]), r.imag.astype(bits.FLOAT[fmt])]


def _apparent_distance(fn, dtype, xs, ys):
    fmt = COMP[dtype]
    x = numpy.asarray(xs, dtype=bits.UINT[fmt]).view(bits.FLOAT[fmt])
    y = numpy.asarray(ys, dtype=bits.UINT[fmt]).view(bits.FLOAT[fmt])
    z = evalalgo._make_complex(x, y)
    r = numpy.asarray(evalalgo.get_function(fn, dtype)(z))
    got = [numpy.ascontiguousarray(r, dtype=bits.FLOAT[fmt])] if fn == "absolute" else \
        [numpy.ascontiguousarray(r.real), numpy.ascontiguousarray(r.imag)]
    ref = _screen_reference(fn, dtype, z)
    d = numpy.zeros(len(x), dtype=numpy.int64)
    cap = numpy.int64(1) << numpy.int64(40)
    onaxis = (x == 0) | (y == 0)            # sides of cuts / signs of zeros: compare magnitudes only
    for g, c in zip(got, ref):
        og, oc = _ordinal(g, fmt), _ordinal(numpy.ascontiguousarray(c), fmt)
        same = ((og < 0) == (oc < 0)) | (og == 0) | (oc == 0) | onaxis
        a, b = numpy.abs(og), numpy.abs(oc)
        dd = numpy.where(same, numpy.minimum(numpy.abs(a - b), cap), cap)
        gn, cn = numpy.isnan(g), numpy.isnan(c)
        dd = numpy.where(gn & cn, 0, dd)
        dd = numpy.where(gn ^ cn, cap, dd)
        d = numpy.maximum(d, dd)
    return d


def _np_patterns(fmt, n, g, kind, anchors=None):
    w, p = bits.WIDTH[fmt], bits.PREC[fmt]
    nexp = (1 << (w - p)) - 1
    sign = g.integers(0, 2, size=n, dtype=numpy.uint64) << numpy.uint64(w - 1)
    frac = g.integers(0, 1 << (p - 1), size=n, dtype=numpy.uint64)
    if kind == "uniform":
        e = g.integers(0, nexp, size=n, dtype=numpy.uint64)
        return sign | (e << numpy.uint64(p - 1)) | frac
    if kind == "logu":
        e = (bits.EMAX[fmt] + g.integers(-12, 12, size=n)).astype(numpy.uint64)
        return sign | (e << numpy.uint64(p - 1)) | frac
    a = numpy.asarray(anchors, dtype=numpy.int64)[g.integers(0, len(anchors), size=n)]
    span = 4 << (p - 1)
    off = numpy.where(g.integers(0, 4, size=n) == 0, 0, g.integers(-span, span + 1, size=n))    # a quarter exactly on the anchor
    m = numpy.clip(a + off, 0, inf_mag(fmt)).astype(numpy.uint64)
    return sign | m


def _screen_work(task):
    idx, fn, dtype, n, seed, keep, ax, ay = task
    fmt = COMP[dtype]
    g = numpy.random.default_rng(seed)
    cand = []
    evaluated = 0
    hist = numpy.zeros(6, dtype=numpy.int64)          # apparent distance 0, 1, 2, 3, 4..16, > 16
    block = 1 << 17
    for kind in ("uniform", "logu", "near"):
        done = 0
        while done < n:
            k = min(block, n - done)
            xs = _np_patterns(fmt, k, g, kind, ax)
            ys = _np_patterns(fmt, k, g, kind, ay)
            d = _apparent_distance(fn, dtype, xs, ys)
            evaluated += k
            hist += numpy.bincount(numpy.digitize(d, [1, 2, 3, 4, 17]), minlength=6)
            ii = numpy.nonzero(d >= 3)[0]
            if len(ii) > keep:
                ii = ii[numpy.argsort(-d[ii], kind="stable")[:keep]]
            cand += [(int(d[i]), int(xs[i]), int(ys[i]), kind) for i in ii]
            done += k
    cand.sort(key=lambda c: -c[0])
    return idx, fn, dtype, evaluated, [int(v) for v in hist], cand[:keep]


def run_screen(tier, seed, sh):
    """{(fn, dtype): dict(evaluated, hist, cand=[(apparent distance, x, y, kind)])}"""
    import multiprocessing
    for fn in FNS:
        for dt in DTYPES:
            evalalgo.get_function(fn, dt)              # build before forking
    rng = random.Random(seed + 2)
    n = 20000 if tier == "quick" else 1500000
    keep = 30 if tier == "quick" else 700
    nsplit = 1 if tier == "quick" else 4
    tasks = []
    for fn in FNS:
        for dt in DTYPES:
            fmt = COMP[dt]
            ax = sorted({sh["comp"][(a, 0)][fmt] for a, _ in sh["pairs"][fn]})
            ay = sorted({sh["comp"][(a, 0)][fmt] for _, a in sh["pairs"][fn]})
            for j in range(nsplit):
                tasks.append((len(tasks), fn, dt, n // nsplit, rng.getrandbits(32), keep, ax, ay))
    res = {}
    with multiprocessing.get_context("fork").Pool(min(tlc.NCPU, len(tasks))) as pool:
        for idx, fn, dt, evaluated, hist, cand in pool.imap_unordered(_screen_work, tasks):
            e = res.setdefault((fn, dt), dict(evaluated=0, hist=[0] * 6, cand=[]))
            e["evaluated"] += evaluated
            e["hist"] = [a + b for a, b in zip(e["hist"], hist)]
            e["cand"] += cand
    for e in res.values():
        e["cand"] = sorted(set(e["cand"]), key=lambda c: (-c[0], c[1], c[2]))[:keep]
    return res


# ------------------------------------------------------------------------------------------------ the check
MC_GROUPS = 9 * 13          # (8 point laws + toy) x 13 functions


def run_u1(chk, tier):
    cfg = "MC_AccuracyC.cfg" if tier == "quick" else "MC_AccuracyC_deep.cfg"
    r = tlc.run("MC_AccuracyC", cfg, timeout=5400)
    chk.add_mc(cfg, r)
    if r.invariant_violated:
        # the complex enclosures break one of their own laws: nothing built on them can be trusted
        raise tlc.MachineryError("AccuracyC.tla violates a law of its enclosures (%s):\n%s" % (cfg, r.error_trace()[:1500]))
    work = list(tlaval.printed_values(r.out, "WORK"))
    total = sum(w[3] for w in work)
    if not r.ok or len(work) != MC_GROUPS or r.distinct != 1 + MC_GROUPS + total:
        raise tlc.MachineryError("MC_AccuracyC did not complete / explored %d states, expected 1 + %d + %d:\n%s"
                                 % (r.distinct, MC_GROUPS, total, r.out[-1500:]))
    chk.cov["u1_law_instances"] = sum(w[3] for w in work if w[1] != "toy")
    chk.cov["u1_toy_format_inputs"] = sum(w[3] for w in work if w[1] == "toy")


def sizes(tier):
    if tier == "quick":
        return dict(uniform=200, logu=200, region=100)
    return dict(uniform=8000, logu=8000, region=4000)


def build_batch(tier, seed, sh, screened):
    rng = random.Random(seed)
    sz = sizes(tier)
    b = Batch()
    for dt in DTYPES:
        fmt = COMP[dt]
        for fn in FNS:
            b.add(fn, dt, uniform_patterns(fmt, sz["uniform"], rng), uniform_patterns(fmt, sz["uniform"], rng), "uniform")
            b.add(fn, dt, logu_patterns(fmt, sz["logu"], rng), logu_patterns(fmt, sz["logu"], rng), "logu")
            xs, ys, tags = shape_inputs(sh, fn, fmt, tier, rng)
            b.add(fn, dt, xs, ys, "shape", tags)
            xs, ys, tags = region_inputs(sh, fn, fmt, sz["region"], rng)
            b.add(fn, dt, xs, ys, "region", tags)
            cands = screened.get((fn, dt), dict(cand=[]))["cand"]
            b.add(fn, dt, [c[1] for c in cands], [c[2] for c in cands], "screen", [["screen", c[3], min(c[0], 1 << 40)] for c in cands])
    return b


def parse_notes(s):
    return set(tlaval.parse(s)["__set__"]) if s.startswith("{") else tlaval.parse(s)


def exact_binomial_threshold(n, p=1e-3, alpha=0.01):
    """Smallest k with P[Bin(n, p) >= k + 1] <= alpha (mpmath, informational cross-check of the spec's threshold,
    which is derived from a proved tail bound and can only be equal or larger)."""
    import mpmath
    with mpmath.workdps(60):
        q = mpmath.mpf(1) - mpmath.mpf(p)
        term = q ** n
        cdf = mpmath.mpf(0)
        k = 0
        while True:
            cdf += term
            if 1 - cdf <= alpha:
                return k
            term = term * (n - k) * mpmath.mpf(p) / ((k + 1) * q)
            k += 1


RATE_SOURCES = ("uniform", "logu")


def run(tier, seed):
    import_repo()
    chk = Check(PID, tier, seed)
    run_u1(chk, tier)
    sh = export_shapes(tier, chk)
    for fn in FNS:
        for dt in DTYPES:
            try:
                evalalgo.get_function(fn, dt)
            except evalalgo.NotAvailable as ex:
                raise tlc.MachineryError("the package has no complex algorithm %s(%s): %s" % (fn, dt, ex))
    t0 = time.time()
    screened = run_screen(tier, seed, sh)
    t_screen = time.time() - t0
    t0 = time.time()
    b = build_batch(tier, seed, sh, screened)
    t_eval = time.time() - t0
    order = list(b.events)
    random.Random(seed + 1).shuffle(order)        # the cost of an event depends on the function: balance the processes
    res = tlc.validate_events("Trace_AccuracyC", "Trace.cfg", order, name="accc", chunk=None if tier == "quick" else 12000)
    chk.add_trace("Trace_AccuracyC", res, len(b.events))
    stats = collections.defaultdict(collections.Counter)
    for m in b.meta:
        stats[(m[0], m[1])]["events"] += 1
        stats[(m[0], m[1])]["events_" + m[6]] += 1
    for eid, s in res["notes"]:
        m = b.meta[eid]
        notes = parse_notes(s)
        st = stats[(m[0], m[1])]
        for note in notes:
            st[note] += 1
        if any(n.startswith("beyond3") for n in notes):
            st["beyondT"] += 1
            st["beyondT_" + m[6]] += 1
            if len(chk.samples) < 3:
                chk.sample(dict(beyond_target=describe(m)))
        if any(n.startswith("undecided") for n in notes):
            st["undecided_events"] += 1
        if "nan_input" in notes:
            raise tlc.MachineryError("the driver generated a NaN input: %s" % describe(m))
    for eid, clauses in res["fails"]:
        m = b.meta[eid]
        stats[(m[0], m[1])]["failing"] += 1
        for key, cl in fail_keys(m, clauses):
            chk.fail(key, "%s violates %s" % (describe(m), cl),
                     dict(fn=m[0], dtype=m[1], x=m[2], y=m[3], wre_observed=m[4], wim_observed=m[5], clauses=clauses,
                          source=m[6], shape=m[7]))
    # the target rate on the two stated distributions, judged by the spec
    rate_events, rate_meta = [], []
    for fn in FNS:
        for dt in DTYPES:
            for src in RATE_SOURCES:
                st = stats[(fn, dt)]
                n, k = st["events_" + src], st["beyondT_" + src]
                rate_events.append(dict(id=len(rate_events), fn="rate", n=bits.nat(n), k=bits.nat(k)))
                rate_meta.append((fn, dt, src, n, k))
    rres = tlc.validate_events("Trace_AccuracyC", "Trace.cfg", rate_events, nproc=4, name="ratec")
    chk.add_trace("Trace_AccuracyC(rate)", rres, len(rate_events))
    thr = {}
    for eid, s in rres["notes"]:
        v = parse_notes(s)
        if isinstance(v, list) and v and v[0] == "threshold":
            thr[eid] = v[1]
    if len(thr) != len(rate_events):
        raise tlc.MachineryError("rate events without a threshold note: %s" % rres["notes"][:3])
    for eid, clauses in rres["fails"]:
        fn, dt, src, n, k = rate_meta[eid]
        chk.fail("%s:%s:%s:rateT" % (fn, dt, src),
                 "%s[%s]: %d of %d inputs of the distribution '%s' exceed the %d-ULP target in some component; more than the %d "
                 "that a rate <= 1e-3 allows at the 99%% level" % (fn, dt, k, n, src, 4 if fn in ("sqrt", "log1p") else 3, thr[eid]),
                 dict(fn=fn, dtype=dt, source=src, n=n, k=k, threshold=thr[eid], tier=tier, seed=seed))
    exact = {}
    per = {}
    for i, (fn, dt, src, n, k) in enumerate(rate_meta):
        if n not in exact:
            exact[n] = exact_binomial_threshold(n)
        if exact[n] > thr[i]:
            raise tlc.MachineryError("spec threshold %d below the exact binomial threshold %d (n=%d)" % (thr[i], exact[n], n))
        st = stats[(fn, dt)]
        e = per.setdefault("%s:%s" % (fn, dt), dict(
            events=st["events"], shapes=st["events_shape"], region=st["events_region"], screened=st["events_screen"],
            beyond_target_all=st["beyondT"], undecided_events=st["undecided_events"],
            cut_other_side=st["cut_other_side"], failing=st["failing"],
            not_judged_components=st["not_judged_re"] + st["not_judged_im"]))
        e[src] = dict(n=n, beyond_target=k, rate=(k / n if n else None), threshold_spec=thr[i], threshold_exact_binomial=exact[n])
    chk.cov["per_function"] = per
    chk.cov["undecided_events_total"] = sum(v["undecided_events"] for v in per.values())
    chk.cov["not_judged_components_total"] = sum(v["not_judged_components"] for v in per.values())
    chk.cov["shape_classes_enumerated_by_TLC"] = dict(component_patterns=len(sh["comp"]), pair_classes=sum(len(v) for v in sh["pairs"].values()),
                                                      relation_shapes=sum(len(v2) for v in sh["rel"].values() for v2 in v.values()))
    chk.cov["eval_wall_s"] = round(t_eval, 2)
    chk.cov["screen"] = dict(
        note="HEURISTIC error-maximising pre-screen (reference one precision higher: the package's complex128 expansion for "
             "complex64, NumPy x87 long double for complex128); it only chooses inputs for TLC. hist = inputs with apparent "
             "lattice distance 0, 1, 2, 3, 4..16, > 16; judged = candidates handed to Trace_AccuracyC",
        wall_s=round(t_screen, 2),
        per_function={"%s:%s" % k: dict(evaluated=e["evaluated"], hist=e["hist"], judged=len(e["cand"])) for k, e in sorted(screened.items())})
    chk.cov["quantifier_note"] = ("the statement quantifies over 2^64 / 2^128 inputs per function: out of reach; achieved: the two stated "
                                  "distributions sampled, boundary classes enumerated by TLC, random neighbourhoods, screened worst cases - counts above")
    chk.cov["throughput_events_per_s"] = round(len(b.events) / max(res["wall"], 1e-9))
    some = [m for m in b.meta if m[6] == "shape"][:: max(1, len(b.meta) // 40)][:3]
    for m in some:
        chk.sample(dict(event=describe(m)))
    chk.assumptions += [
        "the implementation evaluated is the package's own expansion of each complex algorithm (evalalgo.get_function: every "
        "operation on complex operands expanded by the package's definitions, printed by its NumPy printer), with NumPy's native "
        "real sqrt/log/log1p/exp/sin/cos/arctan2/hypot as primitives, on this machine's NumPy build",
        "ties of the rounding cells are accepted in both directions (closed cells); infinities are lattice points one step beyond "
        "+-largest, so a correctly rounded overflow is accepted",
        "branch cuts (finite or infinite component on the axis of a cut, the other component a zero): the value of either side accepted",
        "the sign of an exactly zero component is demanded only where it is fixed by oddness / conjugate symmetry in the zero input "
        "component (table ExpZero in AccuracyC.tla); elsewhere either zero is accepted",
        "infinite inputs / poles: components whose C99 Annex G value is not a path-independent limit are not judged (counted)",
        "a comparison undecided after one widening of the working width (48->96 / 80->160 bits) never alarms; counted",
        "rate clause: alarm only if the count over a stated distribution exceeds the 99% one-sided binomial threshold for rate 1e-3 "
        "(threshold derived in AccuracyC.tla from a proved tail bound); 'log-uniform magnitudes' is read as uniform over bit patterns "
        "in [2^-12, 2^12); an input exceeds the target if either component certainly does",
    ]
    nontrivial = sum(1 for m in b.meta if "inf" not in region(m[0], m[1], m[2], m[3]))
    import resource
    ru, rc = resource.getrusage(resource.RUSAGE_SELF), resource.getrusage(resource.RUSAGE_CHILDREN)
    chk.cov["cpu_s"] = round(ru.ru_utime + ru.ru_stime + rc.ru_utime + rc.ru_stime, 1)      # wall time depends on the machine's load
    return chk.finish(rule="one event per evaluation of the package's expansion; non-trivial = events with finite input, whose "
                           "verdict needs enclosures of both components (or exact dyadic comparisons) in TLC",
                      distinct_nontrivial=nontrivial)


def replay(path):
    import_repo()
    with open(path) as f:
        rp = json.load(f)["replay"]
    if "n" in rp and "k" in rp:
        print("rate finding: re-run `./check C01 --tier %s --seed %s`" % (rp.get("tier", "quick"), rp.get("seed", 0)))
        return 1
    b = Batch()
    b.add(rp["fn"], rp["dtype"], [rp["x"]], [rp["y"]], "replay")
    res = tlc.validate_events("Trace_AccuracyC", "Trace.cfg", b.events, nproc=1)
    print(describe(b.meta[0]))
    for eid, s in res["notes"]:
        print("notes: %s" % s)
    for eid, clauses in res["fails"]:
        print("VIOLATION property=%s replay=%s  # %s violates %s" % (PID, path, describe(b.meta[eid]), clauses))
    return 1 if res["fails"] else 0


def selftest(quick=True, nproc=None, verbose=True, n=None, overrides_diff=True):
    """Soundness self-test of the complex enclosure layer (MACHINERY; never a verdict).  True iff everything passed.
    1. every function of AccuracyC!TrueVal on n random dyadic points per width (W = 96 and 160; n = 1000, quick 150):
       the mpmath value (>= 400 bits; sides of cuts / signs from the recorded sign bits) of BOTH components lies
       inside the enclosure, the enclosure is narrower than 2^(12-W) relative, exact zeros are the point 0;
    2. TLC with and without the Java BigInt overrides prints identical enclosures;
    3. the U1 laws hold (MC_AccuracyC.cfg) and the sabotaged variant (MC_AccuracyC_neg.cfg) is caught;
    4. negative control of the comparison itself: displaced references are reported as misses;
    5. binding: one corrupted bit of one recorded result component -> exactly that event is rejected."""
    ok = True
    say = print if verbose else (lambda *a, **k: None)
    n = n or (150 if quick else 1000)
    nproc = nproc or (6 if quick else tlc.NCPU)
    tlc.ensure_overrides()
    t0 = time.time()
    for W in (96, 160):
        evs = selftest_events(ENCL_FNS, n, W, 2000 + W)
        r = tlc.validate_events("Trace_AccuracyC", "Trace.cfg", evs, nproc=nproc, name="enclc")
        say("selftest C01: AccuracyC!TrueVal vs mpmath, W=%d: %d points x 2 components, %d failing, %.1fs" % (W, len(evs), len(r["fails"]), r["wall"]))
        if r["fails"]:
            ok = False
            byid = {e["id"]: e for e in evs}
            for eid, cl in r["fails"][:8]:
                e = byid[eid]
                say("   %s %s x=%s*2^%d y=%s*2^%d sx=%d sy=%d" % (cl, e["g"], bits.unzint(e["x"][0]), e["x"][1], bits.unzint(e["y"][0]), e["y"][1], e["sx"], e["sy"]))
    if tlc.overrides_available() and overrides_diff:
        evs = selftest_events(ENCL_FNS, 2 if quick else 8, 96, 77, show=True)
        evs = [e for e in evs if max(abs(e["x"][1]), abs(e["y"][1])) < 200]       # pure TLA+ shifts of 1000 bits cost seconds
        outs = []
        for ov in (True, False):
            r = tlc.validate_events("Trace_AccuracyC", "Trace.cfg", evs, nproc=nproc, overrides=ov, name="enclc_ov")
            outs.append((sorted(r["notes"]), sorted(r["fails"])))
        same = outs[0] == outs[1] and len(outs[0][0]) == len(evs)
        say("selftest C01: enclosures with/without Java overrides identical on %d points: %s" % (len(evs), same))
        ok = ok and same and not outs[0][1]
    r = tlc.run("MC_AccuracyC", "MC_AccuracyC.cfg", workers=nproc, timeout=3000)
    say("selftest C01: MC_AccuracyC laws: ok=%s, %d states, %.1fs" % (r.ok, r.distinct, r.wall))
    ok = ok and r.ok
    r = tlc.run("MC_AccuracyC", "MC_AccuracyC_neg.cfg", workers=4, timeout=1200)
    caught = "LawsOK" in r.invariant_violated
    say("selftest C01: sabotaged enclosures caught by the laws: %s" % caught)
    ok = ok and caught
    evs = selftest_events(["asin", "log", "exp", "atanh"], 8, 96, 5)
    victims = [e["id"] for e in evs if abs(bits.unzint(e["rre"][0])).bit_length() > 300][2::9][:3]
    for v in victims:
        m = bits.unzint(evs[v]["rre"][0])
        m += (1 if v % 2 else -1) << (abs(m).bit_length() - 80)
        evs[v]["rre"] = _dy(m, evs[v]["rre"][1])
    r = tlc.validate_events("Trace_AccuracyC", "Trace.cfg", evs, nproc=1)
    got = sorted(f[0] for f in r["fails"])
    say("selftest C01: displaced references reported as misses: %s" % (got == victims and len(victims) == 3))
    ok = ok and got == victims and len(victims) == 3
    import_repo()
    b = Batch()
    rng = random.Random(11)
    for fn, dt in (("asin", "complex64"), ("log1p", "complex128"), ("sqrt", "complex64"), ("atanh", "complex128")):
        fmt = COMP[dt]
        b.add(fn, dt, logu_patterns(fmt, 30, rng), logu_patterns(fmt, 30, rng), "logu")
    victim = 71
    b.events[victim]["wim"] = bits.nat(bits.unnat(b.events[victim]["wim"]) ^ (1 << 6))
    r = tlc.validate_events("Trace_AccuracyC", "Trace.cfg", b.events, nproc=1)
    got = [f[0] for f in r["fails"]]
    say("selftest C01: corrupted result bit singled out: %s (%s)" % (got == [victim], r["fails"]))
    ok = ok and got == [victim]
    say("selftest C01: %s (%.1fs)" % ("PASS" if ok else "FAIL", time.time() - t0))
    return ok


if __name__ == "__main__":
    if "--selftest" in sys.argv:
        try:
            good = selftest(quick="--full" not in sys.argv)
        except tlc.MachineryError as ex:
            print("MACHINERY-FAILURE selftest C01: %s" % ex)
            good = False
        sys.exit(0 if good else 2)
    print("usage: python -m harness.props.c01 --selftest [--full]")
