"""C18 - FPU control context always restores the control register.

U1: TLC checks Mxcsr.tla exhaustively (3 context objects, nesting, exceptions, re-entry).
U2: every behaviour TLC enumerates from MxcsrHist (plus simulated ones over the full request
    set) is replayed on the real fpu.MXCSRRegister with real `with` blocks, decorators and
    exceptions; the register is read by the harness's own stub before/after each step.
U3: the recorded steps are validated by Trace_Mxcsr.tla (every clause at every step).
"""
import ctypes
import json
import os
import random

import numpy

from .. import tlc, tlaval, bits
from ..common import Check, import_repo

PID = "C18"
DEFAULT_WORD = 0x1F80


class Unwind(Exception):
    def __init__(self, levels):
        self.levels = levels


class Probe:
    def __init__(self):
        self.lib = ctypes.CDLL(os.path.join(tlc.BUILD, "libfaverif.so"))
        self.lib.fa_getcsr.restype = ctypes.c_uint
        self.lib.fa_setcsr.argtypes = [ctypes.c_uint]
        f32 = numpy.float32
        fi = numpy.finfo(f32)
        self.s = f32(fi.smallest_normal)
        self.sub = f32(fi.smallest_subnormal)
        self.half = f32(0.5)
        self.big = f32(2.0 ** 30)
        self.one = f32(1)
        self.mone = f32(-1)
        self.three = f32(3)

    def get(self):
        return int(self.lib.fa_getcsr())

    def set(self, w):
        self.lib.fa_setcsr(w)

    def effects(self):
        # arithmetic observed through bit patterns only (comparisons would be affected by DAZ)
        a = numpy.array([self.s * self.half, self.sub * self.big, self.one / self.three, self.mone / self.three],
                        dtype=numpy.float32).view(numpy.uint32)
        return dict(ftz=int(a[0] == 0), daz=int(a[1] == 0), third_pos=bits.nat(int(a[2])), third_neg=bits.nat(int(a[3])))


def req_kwargs(q):
    kw = {}
    # a flag phrased as the caller may: Python bool, numpy.bool_, int (chosen from the request itself: replays repeat it)
    form = (q["fz"] + 2 * q["daz"] + 3 * q["rn"]) % 3

    def flag(v):
        return bool(v) if form == 0 else numpy.bool_(bool(v)) if form == 1 else int(bool(v))
    if q["fz"] != -1:
        kw["FZ"] = flag(q["fz"])
    if q["daz"] != -1:
        kw["DAZ"] = flag(q["daz"])
    if q["rn"] != -1:
        kw["RN"] = ["nearest", "down", "up", "towardszero"][q["rn"]]
    return kw


def replay_behaviour(fpu, probe, init_word, steps, events, beh_id, style):
    """Drive one TLC behaviour through the real code, appending events.

    style: 'with' (with-statement), 'decorator' (ContextDecorator on a nested function) or
    'protocol' (explicit __enter__/__exit__ calls), chosen per behaviour.
    """
    reg = fpu.MXCSRRegister()
    objs = {}
    steps = list(steps)
    nid = [len(events)]

    def emit(op, pre, **kw):
        post = probe.get()
        ev = dict(id=nid[0], beh=beh_id, op=op, pre=pre, post=post, c=kw.get("c", 0),
                  req=kw.get("req", dict(fz=-1, daz=-1, rn=-1)), exc=kw.get("exc", False),
                  propagated=kw.get("propagated", False), raised=kw.get("raised", ""),
                  probe=probe.effects(), style=style)
        nid[0] += 1
        events.append(ev)

    probe.set(init_word)
    with numpy.errstate(all="ignore"):
        pre = probe.get()
        emit("Begin", pre)

        def consume():
            while steps:
                s = steps.pop(0)
                op = s[0]
                if op == "Create":
                    c, q = s[1], s[2]
                    pre = probe.get()
                    raised = ""
                    try:
                        objs[c] = reg(**req_kwargs(q))
                    except Exception as ex:  # noqa
                        raised = type(ex).__name__
                    emit("Create", pre, c=c, req=q, raised=raised)
                elif op == "EnterTwice":
                    c = s[1]
                    pre = probe.get()
                    raised = ""
                    try:
                        objs[c].__enter__()
                    except BaseException as ex:  # noqa
                        raised = type(ex).__name__
                    if raised:
                        emit("EnterTwice", pre, c=c, raised=raised)
                    else:
                        # a re-entrant implementation: treat as a nested enter/exit pair
                        emit("Enter", pre, c=c)
                        pre2 = probe.get()
                        objs[c].__exit__(None, None, None)
                        emit("Exit", pre2, c=c)
                elif op == "Enter":
                    c = s[1]
                    state = dict(entered=False, pre_exit=None)
                    pre = probe.get()

                    def body():
                        state["entered"] = True
                        emit("Enter", pre, c=c)
                        try:
                            consume()
                        finally:
                            state["pre_exit"] = probe.get()

                    try:
                        if style == "decorator":
                            objs[c](body)()
                        elif style == "protocol":
                            objs[c].__enter__()
                            try:
                                body()
                            except BaseException as ex:
                                if not objs[c].__exit__(type(ex), ex, ex.__traceback__):
                                    raise
                            else:
                                objs[c].__exit__(None, None, None)
                        else:
                            with objs[c]:
                                body()
                    except Unwind as u:
                        if not state["entered"]:
                            raise
                        emit("Exit", state["pre_exit"], c=c, exc=True, propagated=True)
                        u.levels -= 1
                        if u.levels > 0:
                            raise
                    except BaseException as ex:  # __enter__ raised
                        if state["entered"]:
                            raise
                        emit("Enter", pre, c=c, raised=type(ex).__name__)
                    else:
                        if state["entered"]:
                            # normal exit, or an exception swallowed by __exit__
                            emit("Exit", state["pre_exit"], c=c, exc=state.get("exc", False), propagated=False)
                elif op == "BodyWrite":
                    # the body writes the register itself, through the harness's own stub (not through the package)
                    pre = probe.get()
                    k = s[1]
                    w = pre
                    if k == "fz":
                        w ^= 1 << 15
                    elif k == "daz":
                        w ^= 1 << 6
                    elif k == "rc":
                        w = (w & ~(3 << 13)) | ((((w >> 13) & 3) + 1) % 4) << 13
                    elif k == "flag":
                        w |= 32
                    probe.set(w)
                    emit("BodyWrite", pre, what=k)
                elif op == "Exit":
                    exc = s[1]
                    if exc:
                        # count how many consecutive exceptional exits follow: one exception
                        # propagating through that many levels
                        k = 1
                        while steps and steps[0][0] == "Exit" and steps[0][1]:
                            steps.pop(0)
                            k += 1
                        raise Unwind(k)
                    return
                else:
                    raise AssertionError(op)

        try:
            consume()
        except Unwind:
            pass
    probe.set(DEFAULT_WORD)


def canonical_steps(steps):
    """A behaviour whose Exit steps exceed its open levels etc. cannot occur (TLC only emits
    enabled steps); a behaviour may end with contexts still open: close them normally."""
    depth = 0
    out = []
    for s in steps:
        out.append(s)
        if s[0] == "Enter":
            depth += 1
        elif s[0] == "Exit":
            depth -= 1
    out += [["Exit", False]] * depth
    return out


def export_behaviours(level, chk, cfg="MxcsrHist.cfg", module="MxcsrHist", maxdepth=2):
    wd = tlc.workdir()
    cfgp = os.path.join(wd, "hist_%d.cfg" % level)
    with open(os.path.join(tlc.SPEC, cfg)) as f:
        txt = f.read().replace("MaxLevel = 5", "MaxLevel = %d" % level).replace("MaxDepth = 2", "MaxDepth = %d" % maxdepth)
    with open(cfgp, "w") as f:
        f.write(txt)
    r = tlc.run(module, cfgp, workers=1, timeout=1800)
    if not r.ok:
        raise tlc.MachineryError("behaviour export failed:\n" + r.out[-2000:])
    chk.add_mc("MxcsrHist(level=%d,depth=%d)" % (level, maxdepth), r)
    return [(h[1], h[2]) for h in tlaval.printed_values(r.out, "H")]


def simulated_behaviours(n, length, seed, chk):
    """Random walks of Mxcsr over the full request set and 3 objects, via tlc -simulate."""
    wd = tlc.workdir()
    sim = os.path.join(wd, "sim")
    os.makedirs(sim, exist_ok=True)
    r = tlc.run("MC_Mxcsr", "SIM_Mxcsr.cfg", workers=1,
                extra=["-simulate", "file=%s/tr,num=%d" % (sim, n), "-depth", str(length), "-seed", str(seed)],
                timeout=1800)
    behs = []
    for fn in sorted(os.listdir(sim)):
        with open(os.path.join(sim, fn)) as f:
            states = tlaval.parse_sim_file(f.read())
        os.unlink(os.path.join(sim, fn))
        if not states:
            continue
        init = states[0][1]["init"]
        word = init["fz"] * 32768 + init["rc"] * 8192 + init["masks"] * 128 + init["daz"] * 64 + init["flags"]
        steps = [st["last"] for _, st in states[1:] if st["last"][0] != "HwSetFlag"]
        behs.append((word, steps))
    chk.cov.setdefault("model_runs", []).append(dict(config="SIM_Mxcsr.cfg -simulate", behaviours=len(behs), wall_s=round(r.wall, 2)))
    return behs


def key_of(ev, clauses):
    return "%s:%s" % (ev["op"], "+".join(clauses))


def run(tier, seed):
    fa = import_repo()
    from functional_algorithms import fpu
    chk = Check(PID, tier, seed)
    if not fpu.MXCSRRegister.is_available():
        raise tlc.MachineryError("MXCSR not available on this platform")
    # U1
    r = tlc.run("MC_Mxcsr", "MC_Mxcsr_quick.cfg" if tier == "quick" else "MC_Mxcsr.cfg", extra=["-coverage", "1"])
    chk.add_mc("MC_Mxcsr", r)
    if not r.ok:
        # the design itself admits a bad state: report with TLC's counterexample
        chk.fail("model:" + "+".join(r.invariant_violated + r.action_property_violated), "Mxcsr.tla violates its property", r.error_trace())
    cov = r.coverage()
    never = [a for a in ("Create", "Enter", "EnterTwice", "Exit", "HwSetFlag") if cov.get(a, (0, 0))[0] == 0]
    if never and r.ok:
        raise tlc.MachineryError("vacuous model run: actions never taken: %s" % never)
    chk.cov["action_coverage"] = {k: v[0] for k, v in cov.items()}
    # U2
    behs = export_behaviours(5 if tier == "quick" else 6, chk)
    behs += export_behaviours(6 if tier == "quick" else 7, chk, cfg="MxcsrHist3.cfg", maxdepth=3)
    behs += simulated_behaviours(300 if tier == "quick" else 5000, 14, seed + 1, chk)
    # behaviours in which the BODY writes the register itself (toggles FZ/DAZ, changes RC, raises a flag)
    rb = tlc.run("MC_Mxcsr", "MC_Mxcsr_body.cfg")
    chk.add_mc("MC_Mxcsr_body.cfg", rb)
    if not rb.ok:
        chk.fail("model:" + "+".join(rb.invariant_violated + rb.action_property_violated), "Mxcsr.tla (with body writes) violates its property", rb.error_trace())
    behs += export_behaviours(5 if tier == "quick" else 6, chk, cfg="MxcsrHistBody.cfg")
    probe = Probe()
    rng = random.Random(seed)
    events = []
    styles = ["with", "decorator", "protocol"]
    for i, (word, steps) in enumerate(behs):
        replay_behaviour(fpu, probe, word, canonical_steps(steps), events, i, styles[(i + rng.randrange(3)) % 3])
    if probe.get() & 0xFFC0 != DEFAULT_WORD & 0xFFC0:
        raise tlc.MachineryError("harness did not restore the default MXCSR")
    chk.sample(dict(behaviour=behs[len(behs) // 2], events=[e for e in events if e["beh"] == len(behs) // 2]))
    # U3
    res = tlc.validate_events("Trace_Mxcsr", "Trace_Mxcsr.cfg", events, starts=lambda e: e["op"] == "Begin", name="mxcsr")
    chk.add_trace("Trace_Mxcsr", res, len(events), ntraces=len(behs))
    byid = {e["id"]: e for e in events}
    for eid, clauses in res["fails"]:
        ev = byid[eid]
        beh = behs[ev["beh"]]
        chk.fail(key_of(ev, clauses), "behaviour %s step %s: clauses %s" % (beh, ev["op"], clauses),
                 dict(init_word=beh[0], steps=beh[1], style=ev["style"], failing_event=ev, clauses=clauses))
    chk.assumptions += ["MXCSR read by a harness-owned _mm_getcsr stub (csrc/faverif.c)",
                        "status flags (bits 0-5) are environment noise except within a single step",
                        "re-entering an active context object is outside the property (must not change the register)"]
    nontrivial = len({json.dumps(b[1]) for b in behs if sum(1 for s in b[1] if s[0] == "Enter") >= 2})
    return chk.finish(rule="behaviours enumerated by TLC from MxcsrHist (all of the stated length) plus -simulate walks; "
                           "non-trivial = distinct step sequences with at least two Enter steps",
                      distinct_nontrivial=nontrivial, extra_cov=dict(behaviours=len(behs)))


def replay(path):
    import_repo()
    from functional_algorithms import fpu
    with open(path) as f:
        rp = json.load(f)["replay"]
    chk = Check(PID, "quick", 0)
    probe = Probe()
    events = []
    replay_behaviour(fpu, probe, rp["init_word"], canonical_steps(rp["steps"]), events, 0, rp.get("style", "with"))
    res = tlc.validate_events("Trace_Mxcsr", "Trace_Mxcsr.cfg", events, stateful=True)
    for e in events:
        print(json.dumps(e))
    for eid, clauses in res["fails"]:
        print("VIOLATION property=%s replay=%s  # event %d clauses %s" % (PID, path, eid, clauses))
    return 1 if res["fails"] else 0
