"""C12 - floating-point expansion arithmetic preserves value and normal form.

U1: TLC checks MC_Expansion exhaustively on a toy format: the TLA+ transcriptions of VecSum /
    VecSumErrBranch (eager and select-based) / nztopk over ALL lists of <= 3 patterns satisfy the clause
    set of Expansion.tla, the code's 2Sum is the ideal error-free sum, the functional variant is the
    eager one cut and zero-padded, fast == safe inside FastOK.  Evidence about the design, not the code.
U2: TLC enumerates the list SHAPES (ExpansionShapes.tla: length 1..6, relation of every adjacent pair
    {equal, overlapping, adjacent, gap}, zero positions, sign pattern, order, cancellation); this driver
    concretises every shape in float16/32/64 and calls the real apmath.renormalize (two passes) / add /
    subtract / multiply / square in three variants:
      eager       functional=False through utils.NumpyContext on numpy scalars
      functional  functional=True  through utils.NumpyContext on numpy scalars
      traced      functional=True traced with fa.Context, rewritten (fa.rewrite) and printed for the numpy
                  target, executed on arrays: the graph that is emitted for JAX
U3: every call is one event judged by Trace_Expansion.tla (Expansion.tla over IEEE.tla).

The driver never decides a clause: it logs raw bit patterns of inputs and outputs.  Notes printed by the
spec (ood_*, truncated, second_pass, drift, ...) are statistics; shape_mismatch / zsum_mismatch are
harness defects and become machinery failures.
"""
import json
import math
import random
import time
import types
import warnings
from fractions import Fraction

import numpy

from .. import tlc, tlaval, bits
from ..common import Check, import_repo

PID = "C12"
TRACE = "Trace_Expansion"
CFG = "Trace.cfg"
FMTS = ["float16", "float32", "float64"]
VARIANTS = ["eager", "functional", "traced"]
# 25 calls: 14 renormalize, 3 add, 3 subtract, 3 multiply, 2 square
OPS = ["renorm", "add", "renorm", "mul", "renorm", "sub", "renorm", "sq", "renorm", "renorm", "add", "renorm", "mul",
       "renorm", "sub", "renorm", "renorm", "add", "renorm", "mul", "renorm", "sub", "renorm", "sq", "renorm"]
U1_EXPECT = {"MC_Expansion.cfg": 89432, "MC_Expansion_full.cfg": 178864, "MC_Expansion_t4.cfg": None}


# --------------------------------------------------------------------------- concretising shapes
def mantissa(rng, p):
    u = rng.random()
    top = 1 << (p - 1)
    if u < 0.2:
        return top
    if u < 0.35:
        return (1 << p) - 1
    if u < 0.5:
        return top | (1 << rng.randrange(p - 1))
    if u < 0.6:
        return ((1 << p) - 1) ^ (1 << rng.randrange(p - 1))
    return top | rng.getrandbits(p - 1)


def concretise(shape, fmt, rng, lead_hi=None, q_floor=None):
    """shape = (n, rel, zmask, signs, order, cancel) -> dict(lst, skel, rel, zsum) of numpy scalars, or None
    when the shape does not fit the exponent range of the format (float16: long chains of gaps)."""
    n, rel, zmask, signs, order, cancel = shape
    p, emax = bits.PREC[fmt], bits.EMAX[fmt]
    dt = bits.FLOAT[fmt]
    emin = 1 - emax
    qmin = emin - (p - 1)
    d = []
    for r in rel:
        if r == "eq":
            d.append(0)
        elif r == "ovl":
            u = rng.random()
            d.append(0 if u < 0.25 else 1 if u < 0.45 else rng.randint(2, p - 1))
        elif r == "adj":
            d.append(p)
        elif r == "gap":
            d.append(p + (1 if rng.random() < 0.3 else rng.randint(2, p + 3)))
        else:
            raise tlc.MachineryError("unknown relation %r" % (r,))
    D = sum(d)
    if lead_hi is None:
        # sum |x| < 2^(emax-1) needs the leading exponent <= emax - 5; a few lists deliberately near overflow
        hi = emax if rng.random() < 0.03 else emax - 5
    else:
        hi = lead_hi
    if q_floor is None:
        lo = qmin + D
        if n >= 2:
            lo = max(lo, emin + 1 + sum(d[:-1]))      # every item but the last stays normal
    else:
        lo = q_floor + (p - 1) + D
    lo += 1 if rel.count("ovl") else 0                 # room for an "ovl" descent 0 -> 1 (see below)
    if lo > hi:
        return None
    u = rng.random()
    lead = lo if u < 0.2 else hi if u < 0.3 else rng.randint(lo, hi)
    mags = []                                         # (m, e): value m * 2^e
    m = mantissa(rng, p)
    prev_m = m
    for i in range(n):
        if i > 0:
            r, di = rel[i - 1], d[i - 1]
            if r == "eq":
                m = prev_m
            elif r == "ovl" and di == 0:
                if prev_m == 1 << (p - 1):
                    di = 1
                    m = mantissa(rng, p)
                else:
                    m = prev_m - 1 if rng.random() < 0.3 else rng.randint(1 << (p - 1), prev_m - 1)
            else:
                m = mantissa(rng, p)
            lead -= di
        e = lead - (p - 1)
        mm = m
        if e < qmin:
            mm = m >> (qmin - e)
            e = qmin
            if mm == 0:
                return None
        mags.append((mm, e))
        prev_m = m
    # the driver's own check of the relations it is about to claim (construction only; the spec re-checks them)
    def lead_q(mm, e):
        ld = e + mm.bit_length() - 1
        return ld, max(ld - (p - 1), qmin)
    for i, r in enumerate(rel):
        (ma, ea), (mb, eb) = mags[i], mags[i + 1]
        la, qa = lead_q(ma, ea)
        lb, _ = lead_q(mb, eb)
        smaller = Fraction(mb) * Fraction(2) ** eb < Fraction(ma) * Fraction(2) ** ea
        good = {"eq": (ma, ea) == (mb, eb), "ovl": smaller and lb >= qa, "adj": lb == qa - 1, "gap": lb < qa - 1}[r]
        if not good:
            return None
    with numpy.errstate(all="ignore"):
        vals = [numpy.ldexp(dt(mm), e) for mm, e in mags]
    if signs == "pos":
        sg = [0] * n
    elif signs == "alt":
        sg = [i % 2 for i in range(n)]
    elif signs == "neg1":
        sg = [1] + [0] * (n - 1)
    else:
        sg = [rng.getrandbits(1) for _ in range(n)]
    skel = [(-v if s else v) for v, s in zip(vals, sg)]
    lst = list(skel)
    claim = list(rel)
    zsum = False
    if cancel == "pairs":
        zsum = True
    elif cancel == "tail":
        try:
            with numpy.errstate(all="ignore"):
                lst[-1] = dt(-math.fsum(float(x) for x in lst[:-1]))
        except OverflowError:
            return None
        if not numpy.isfinite(lst[-1]):
            return None
        claim = []
    if order == "reversed":
        lst.reverse()
    elif order == "shuffled":
        rng.shuffle(lst)
    for i in range(n):
        if (zmask >> i) & 1:
            lst[i] = dt(-0.0) if rng.getrandbits(1) else dt(0.0)
    return dict(lst=lst, skel=skel if claim or n == 1 else [], rel=claim, zsum=zsum)


def subshape(shape, start, stop):
    """the shape of items start..stop-1 of a shape (for the operands of multiply)"""
    n, rel, zmask, signs, order, cancel = shape
    m = stop - start
    return (m, list(rel[start:stop - 1]), (zmask >> start) & ((1 << m) - 1), signs, order, "none")


# --------------------------------------------------------------------------- the code under test
class Code:
    def __init__(self, tier):
        self.fa = import_repo()
        from functional_algorithms import apmath, utils
        self.ap = apmath
        self.ctx = {f: utils.NumpyContext(bits.FLOAT[f]) for f in FMTS}
        self.tier = tier
        self.graphs = {}

    # --- scalar variants
    def call_scalar(self, case):
        op, fmt = case["op"], case["fmt"]
        functional = case["variant"] != "eager"
        size = None if case["size"] == -1 else case["size"]
        ctx = self.ctx[fmt]
        a, b = list(case["a"]), list(case["b"])
        ap = self.ap
        out, out2, out3, pass2, raised = [], [], [], False, ""
        try:
            with warnings.catch_warnings(), numpy.errstate(all="ignore"):
                warnings.simplefilter("ignore")
                if op == "renorm":
                    out = ap.renormalize(ctx, a, functional=functional, fast=case["fast"], size=size)
                    if len(out):
                        pass2 = True
                        out2 = ap.renormalize(ctx, list(out), functional=functional, fast=case["fast"], size=size)
                        # further passes (as many as the list is long): only to CLASSIFY a failure of the two-pass
                        # normal form (Trace_Expansion): does iterating reach the normal form at all?
                        out3 = list(out2)
                        same = len(out) == len(out2) and all(numpy.asarray(u).tobytes() == numpy.asarray(v).tobytes() for u, v in zip(out, out2))
                        for _ in range(0 if same else len(a) + 1):      # a fixed point stays one (the function is deterministic)
                            if not len(out3):
                                break
                            out3 = ap.renormalize(ctx, list(out3), functional=functional, fast=case["fast"], size=size)
                elif op == "add":
                    out = ap.add(ctx, a, b, functional=functional, fast=case["fast"], size=size)
                elif op == "sub":
                    out = ap.subtract(ctx, a, b, functional=functional, fast=case["fast"], size=size)
                elif op == "mul":
                    out = ap.multiply(ctx, a, b, functional=functional, size=size)
                elif op == "sq":
                    out = ap.square(ctx, a, functional=functional, size=size)
                else:
                    raise tlc.MachineryError("unknown op %r" % op)
        except tlc.MachineryError:
            raise
        except Exception as ex:  # noqa: any exception of the code is a recorded outcome
            raised = type(ex).__name__
        return list(out), list(out2), pass2, raised, list(out3)

    def two_prods(self, case):
        """apmath.two_prod (public) on the pairs of non-zero items of a product: [x, y, h, l] as numpy scalars"""
        fmt = case["fmt"]
        ctx = self.ctx[fmt]
        a = [x for x in case["a"] if x != 0]
        b = a if case["op"] == "sq" else [x for x in case["b"] if x != 0]
        res, seen = [], set()
        for x in a:
            for y in b:
                k = (float(x), float(y))
                if k in seen or (case["op"] == "sq" and (k[1], k[0]) in seen):
                    continue
                seen.add(k)
                try:
                    with warnings.catch_warnings(), numpy.errstate(all="ignore"):
                        warnings.simplefilter("ignore")
                        h, l = self.ap.two_prod(ctx, x, y)
                    if check_dtype([h, l], fmt):
                        continue
                    res.append([x, y, h, l])
                except Exception:  # noqa: the building block is not this property's subject
                    pass
        return res

    # --- traced variant
    def traced_size(self, op, size):
        """sizes for which graphs are built (keeps the number of traced graphs bounded)"""
        if size == -1:
            return -1
        if self.tier == "quick":
            return 2
        return size if size in (1, 2, 3) else 2

    def traced_allowed(self, op, n1, n2, fast):
        q = self.tier == "quick"
        if op == "renorm":
            return True
        if op in ("add", "sub"):
            return (n1 + n2 <= 4 and not fast) if q else n1 + n2 <= 6
        if op == "mul":
            return (n1 * n2 <= 4) if q else (n1 <= 3 and n2 <= 3)
        if op == "sq":
            return n1 <= (2 if q else 4)
        return False

    def graph(self, op, n1, n2, fast, size, fmt):
        key = (op, n1, n2, fast, size, fmt)
        if key in self.graphs:
            return self.graphs[key]
        fa, ap = self.fa, self.ap
        dtype = bits.FLOAT[fmt]
        sz = None if size == -1 else size
        if op == "renorm":
            def fn(ctx, x):
                return ap.renormalize(ctx, list(x), functional=True, fast=fast, size=sz)
        elif op == "add":
            def fn(ctx, x, y):
                return ap.add(ctx, list(x), list(y), functional=True, fast=fast, size=sz)
        elif op == "sub":
            def fn(ctx, x, y):
                return ap.subtract(ctx, list(x), list(y), functional=True, fast=fast, size=sz)
        elif op == "mul":
            def fn(ctx, x, y):
                return ap.multiply(ctx, list(x), list(y), functional=True, size=sz)
        else:
            def fn(ctx, x):
                return ap.square(ctx, list(x), functional=True, size=sz)
        try:
            with warnings.catch_warnings():
                warnings.simplefilter("ignore")
                ctx = fa.Context(paths=[])
                args = [types.GenericAlias(list, (dtype,) * n1)]
                if op in ("add", "sub", "mul"):
                    args.append(types.GenericAlias(list, (dtype,) * n2))
                g = ctx.trace(fn, *args)
                g = g.rewrite(fa.targets.numpy, fa.rewrite, fa.rewrite)
                func = fa.targets.numpy.as_function(g, debug=0, force_cast_arguments=False)
            res = (func, "")
        except Exception as ex:  # noqa: a graph that cannot be built is an outcome of the code under test
            res = (None, "Trace_" + type(ex).__name__)
        self.graphs[key] = res
        return res

    def call_traced_batch(self, key, cases):
        """cases share (op, n1, n2, fast, size, fmt): evaluate the traced graph on arrays; returns per-case results"""
        op, n1, n2, fast, size, fmt = key
        dt = bits.FLOAT[fmt]
        func, err = self.graph(*key)
        N = len(cases)
        if func is None:
            return [([], [], False, err)] * N
        ca = [numpy.array([c["a"][i] for c in cases], dtype=dt) for i in range(n1)]
        cb = [numpy.array([c["b"][i] for c in cases], dtype=dt) for i in range(n2)]

        def run(f, *cols):
            with warnings.catch_warnings(), numpy.errstate(all="ignore"):
                warnings.simplefilter("ignore")
                o = f(*cols)
            if not isinstance(o, (list, tuple)):
                o = [o]
            cols_out = []
            for x in o:
                x = numpy.asarray(x)
                if x.dtype != numpy.dtype(dt):
                    raise TypeError("ResultDtype_%s" % x.dtype)
                cols_out.append(numpy.broadcast_to(x, (N,)))
            return cols_out
        try:
            o1 = run(func, ca, cb) if op in ("add", "sub", "mul") else run(func, ca)
        except Exception as ex:  # noqa
            return [([], [], False, type(ex).__name__ if not str(ex).startswith("ResultDtype") else str(ex), [])] * N
        o2, o3, pass2, err2 = [], [], False, ""
        if op == "renorm" and len(o1):
            pass2 = True
            func2, err2 = self.graph(op, len(o1), 0, fast, size, fmt)
            if func2 is not None:
                try:
                    o2 = run(func2, list(o1))
                except Exception as ex:  # noqa
                    err2 = type(ex).__name__
                if len(o2) and not err2:
                    func3, err3 = self.graph(op, len(o2), 0, fast, size, fmt)
                    if func3 is not None:
                        try:
                            o3 = list(o2)
                            same = len(o1) == len(o2) and all(numpy.asarray(u).tobytes() == numpy.asarray(v).tobytes() for u, v in zip(o1, o2))
                            for _ in range(0 if same else len(ca) + 1):        # further passes only classify (see call())
                                o3 = run(func3, list(o3))
                        except Exception:  # noqa
                            o3 = []
        res = []
        for k in range(N):
            res.append(([c[k] for c in o1], [c[k] for c in o2], pass2, err2, [c[k] for c in o3]))
        return res


def check_dtype(vals, fmt):
    dt = numpy.dtype(bits.FLOAT[fmt])
    for v in vals:
        if numpy.asarray(v).dtype != dt or numpy.asarray(v).shape != ():
            return "ResultDtype_%s" % (numpy.asarray(v).dtype,)
    return ""


def make_event(eid, case, res):
    out, out2, pass2, raised, out3 = res
    fmt = case["fmt"]
    if not raised:
        raised = check_dtype(list(out) + list(out2), fmt)
    if check_dtype(list(out3), fmt):
        out3 = []
    enc = lambda lst: [bits.fbits(x, fmt) for x in lst]  # noqa: E731
    ev = dict(id=eid, op=case["op"], fmt=fmt, variant=case["variant"], fast=bool(case["fast"]), size=case["size"],
              a=enc(case["a"]), b=enc(case["b"]), raised=raised,
              out=[] if raised else enc(out), out2=[] if raised else enc(out2), pass2=bool(pass2) and not raised,
              out3=[] if raised else enc(out3),
              dr=bool(case.get("dr", False)), skel=enc(case.get("skel", [])), rel=list(case.get("rel", [])),
              zsum=bool(case.get("zsum", False)), tp=[enc(t) for t in case.get("tp", [])])
    return ev


# --------------------------------------------------------------------------- building the cases of a tier
def renorm_sizes(n):
    return [-1, -1, -1, 1, 2, 3, max(1, n - 1), n, n + 1]


def plan(shapes, rng, reps):
    """The configuration of every call: (shape, dtype, variant, fast, op, selector), cycling through the product
    while the shapes are visited in a seed-dependent order (so that no shape field aliases with a config field)."""
    specs = []
    k = 0
    for rep in range(reps):
        order = list(range(len(shapes)))
        rng.shuffle(order)
        for idx in order:
            shape = shapes[idx]
            fast = (k // 9) % 2 == 1
            if fast and shape[4] != "sorted" and rng.random() < 0.8:
                fast = False                       # fast=True on unsorted input is outside the domain: keep a few
            specs.append(dict(shape=shape, fmt=FMTS[k % 3], variant=VARIANTS[(k // 3) % 3], fast=fast,
                              op=OPS[(k // 18) % len(OPS)], sel=k // (18 * len(OPS)), dr=(k % 4 == 0)))
            k += 1
    return specs


def build_case(code, spec, rng, counters):
    """A shape that does not fit the exponent range of its dtype (float16: chains of gaps) is realised in the next wider one."""
    i0 = FMTS.index(spec["fmt"])
    for fmt in FMTS[i0:]:
        c = build_case_fmt(code, spec, fmt, rng)
        if c is not None:
            if fmt != spec["fmt"]:
                counters["widened"] = counters.get("widened", 0) + 1
            return c
    counters["infeasible"] = counters.get("infeasible", 0) + 1
    return None


def build_case_fmt(code, spec, fmt, rng):
    shape, variant, fast, op, sel = spec["shape"], spec["variant"], spec["fast"], spec["op"], spec["sel"]
    n = shape[0]
    if op in ("add", "sub", "mul") and n < 2:
        op = "renorm"
    case = dict(op=op, fmt=fmt, variant=variant, fast=fast, shape=list(shape), b=[])
    if op in ("renorm", "add", "sub"):
        c = concretise(shape, fmt, rng)
        if c is None:
            return None
        lst = c["lst"]
        if op == "renorm":
            sizes = renorm_sizes(n)
            case.update(a=lst, size=sizes[sel % len(sizes)], skel=c["skel"], rel=c["rel"] if c["skel"] else [],
                        zsum=c["zsum"], dr=spec["dr"])
        else:
            n1 = 1 + (sel % (n - 1))
            a, b = lst[:n1], lst[n1:]
            if op == "sub":
                b = [-x for x in b]
            sizes = [-1, -1, 1, 2, 3, 4, n]
            case.update(a=a, b=b, size=sizes[(sel // 5) % len(sizes)])
    else:
        case["fast"] = False
        p, emax = bits.PREC[fmt], bits.EMAX[fmt]
        lead_hi = (emax - 10) // 2                 # sum|a| * sum|b| < 2^(emax-2)
        q_floor = -((emax - 1 + p - 1) // 2)       # quantum(a_i) + quantum(b_j) >= QMin
        if op == "mul":
            n1 = min(1 + (sel % (n - 1)), 4)
            n2 = min(n - n1, 3)
            sa, sb = subshape(shape, 0, n1), subshape(shape, n1, n1 + n2)
        else:
            n1 = min(n, 4)
            sa, sb = subshape(shape, 0, n1), None
        inside = rng.random() < 0.9                # most operands inside the product domain, some anywhere
        ca = cb = None
        for _ in range(4):
            ca = concretise(sa, fmt, rng, lead_hi if inside else None, q_floor if inside else None)
            if ca is not None:
                break
        if sb is not None:
            for _ in range(4):
                cb = concretise(sb, fmt, rng, lead_hi if inside else None, q_floor if inside else None)
                if cb is not None:
                    break
        if ca is None or (sb is not None and cb is None):
            return None
        sizes = [-1, 1, 2, 3, 4]
        case.update(a=ca["lst"], b=cb["lst"] if cb else [], size=sizes[(sel // 3) % len(sizes)])
    if variant == "traced":
        if code.traced_allowed(case["op"], len(case["a"]), len(case["b"]), case["fast"]):
            case["size"] = code.traced_size(case["op"], case["size"])
        else:
            case["variant"] = "functional"
    return case


_CODE = {}


def realise(args):
    """Worker process: concretise the shapes of the given specs and run the real code; returns events without ids."""
    tier, seed, specs = args
    code = _CODE.get(tier)
    if code is None:
        code = _CODE[tier] = Code(tier)
    rng = random.Random(seed)
    counters = {}
    cases = []
    for spec in specs:
        c = build_case(code, spec, rng, counters)
        if c is not None:
            cases.append(c)
    events = execute(code, cases)
    shapes = [c["shape"] for c in cases]
    return events, shapes, counters, len(code.graphs)


def execute(code, cases):
    """-> events (ids = positions in cases)"""
    results = [None] * len(cases)
    batches = {}
    for i, c in enumerate(cases):
        if c["op"] in ("mul", "sq"):
            c["tp"] = code.two_prods(c)
        if c["variant"] == "traced":
            key = (c["op"], len(c["a"]), len(c["b"]), c["fast"], c["size"], c["fmt"])
            batches.setdefault(key, []).append(i)
        else:
            results[i] = code.call_scalar(c)
    for key in sorted(batches, key=str):
        idxs = batches[key]
        for j, r in zip(idxs, code.call_traced_batch(key, [cases[i] for i in idxs])):
            results[j] = r
    return [make_event(i, c, results[i]) for i, c in enumerate(cases)]


# --------------------------------------------------------------------------- verdict plumbing
def key_of(ev, clauses):
    if any(c.endswith("_two_prod_inexact") for c in clauses) and all(c.startswith("ulp_bound") for c in clauses):
        return "product:ulp_bound:two_prod_inexact"
    return "%s:%s:%s:%s" % (ev["op"], ev["variant"], "fast" if ev["fast"] else "safe", "+".join(clauses))


def fl(fmt, limbs):
    return float(bits.from_bits(limbs, fmt))


def describe(ev, clauses):
    fmt = ev["fmt"]
    show = lambda lst: "[" + ", ".join(repr(fl(fmt, x)) for x in lst) + "]"  # noqa: E731
    s = "%s[%s,%s%s%s](%s" % (ev["op"], fmt, ev["variant"], ",fast" if ev["fast"] else "",
                              ",size=%d" % ev["size"] if ev["size"] != -1 else "", show(ev["a"]))
    if ev["op"] in ("add", "sub", "mul"):
        s += ", " + show(ev["b"])
    s += ") -> %s" % show(ev["out"])
    if ev["op"] == "renorm" and ev["pass2"]:
        s += " -> %s" % show(ev["out2"])
    if ev["raised"]:
        s += " raised " + ev["raised"]
    return s + ": clauses %s" % clauses


def replay_of(ev, clauses):
    return dict(event={k: ev[k] for k in ("op", "fmt", "variant", "fast", "size", "a", "b", "dr", "skel", "rel", "zsum")},
                inputs=dict(a=[fl(ev["fmt"], x) for x in ev["a"]], b=[fl(ev["fmt"], x) for x in ev["b"]]), clauses=clauses,
                observed=dict(out=ev["out"], out2=ev["out2"], raised=ev["raised"]))


def digest(chk, events, shapes, res, stats):
    """Account for one validated batch: notes, verdicts, statistics, canary candidates."""
    chk.add_trace(TRACE, res, len(events))
    byid = {e["id"]: e for e in events}
    skip = set()                                   # events that are outside a domain or truncated: no canary
    for eid, text in res["notes"]:
        ev = byid[eid]
        grp = "renorm" if ev["op"] == "renorm" else "addsub" if ev["op"] in ("add", "sub") else "product"
        for kind in tlaval.parse(text)["__set__"]:
            k = "%s:%s" % (grp, kind)
            stats["notes"][k] = stats["notes"].get(k, 0) + 1
            stats["examples"].setdefault(k, ev)
            if kind in ("shape_mismatch", "zsum_mismatch"):
                raise tlc.MachineryError("driver/spec disagree on a generated shape (%s): %s" % (kind, json.dumps(ev)))
            if kind.startswith("ood_"):
                stats["ood"].add(eid)
            if kind.startswith("ood_") or kind == "truncated":
                skip.add(eid)
    for eid, clauses in res["fails"]:
        ev = byid[eid]
        skip.add(eid)
        chk.fail(key_of(ev, clauses), describe(ev, clauses), replay_of(ev, clauses))
    for ev, shape in zip(events, shapes):
        w = bits.WIDTH[ev["fmt"]]
        kk = "%s/%s/%s/%s" % (ev["op"], ev["variant"], ev["fmt"], "fast" if ev["fast"] else "safe")
        stats["by"][kk] = stats["by"].get(kk, 0) + 1
        if sum(1 for x in ev["a"] + ev["b"] if bits.unnat(x) not in (0, 1 << (w - 1))) >= 2:
            stats["nontrivial"].add(hash(json.dumps([ev["op"], ev["fmt"], ev["a"], ev["b"]])))
        if ev["raised"]:
            stats["raised"] += 1
        kc = (ev["op"], ev["variant"])
        if (ev["id"] not in skip and not ev["raised"] and ev["out"] and ev["out"][0]
                and stats["canary_seen"].get(kc, 0) < 2):
            stats["canary_seen"][kc] = stats["canary_seen"].get(kc, 0) + 1
            stats["canary"].append(ev)
        if ev["id"] % 9973 == 0:
            chk.sample(dict(shape=shape, event={k: ev[k] for k in ("op", "fmt", "variant", "fast", "size", "a", "b", "out", "out2")}))


def corrupt(ev):
    """A copy of a passing, in-domain, untruncated event with one recorded result item changed (binding canary)."""
    ev = json.loads(json.dumps(ev))
    w = bits.WIDTH[ev["fmt"]]
    x = bits.unnat(ev["out"][0])
    if ev["op"] in ("mul", "sq"):
        p = bits.PREC[ev["fmt"]]
        mag = x & ((1 << (w - 1)) - 1)
        infmag = ((1 << (w - p)) - 1) << (p - 1)
        x = x + 4 if mag + 8 < infmag else x - 4
    else:
        x ^= 1
    ev["out"][0] = bits.nat(x)
    return ev


def run_u1(tier):
    cfgs = ["MC_Expansion.cfg"] if tier == "quick" else ["MC_Expansion_full.cfg", "MC_Expansion_t4.cfg"]
    out = []
    for cfg in cfgs:
        out.append((cfg, tlc.run("MC_Expansion", cfg, workers=6, timeout=3000)))
    return out


def join_u1(chk, fut):
    for cfg, r in fut.result():
        chk.add_mc(cfg, r)
        if r.invariant_violated:
            # the design / the transcription contradicts its own clause set: nothing below can be trusted
            raise tlc.MachineryError("MC_Expansion (%s) violates %s:\n%s" % (cfg, r.invariant_violated, r.error_trace()[:2500]))
        if not r.ok:
            raise tlc.MachineryError("MC_Expansion (%s) did not complete:\n%s" % (cfg, r.out[-2000:]))
        wit = {}
        for v in tlaval.fast_tuples(r.out, "W"):
            wit["%s%s" % (v[1], "" if v[2] else "_unsorted")] = wit.get("%s%s" % (v[1], "" if v[2] else "_unsorted"), 0) + 1
        for need in ("second_pass_unsorted", "fast_sorted_sum_changed", "cancel_to_zero"):
            if not wit.get(need):
                raise tlc.MachineryError("vacuous model run (%s): no witness for %s" % (cfg, need))
        if U1_EXPECT.get(cfg) is not None and r.distinct != U1_EXPECT[cfg]:
            raise tlc.MachineryError("MC_Expansion (%s) explored %d states, expected %d" % (cfg, r.distinct, U1_EXPECT[cfg]))
        chk.cov.setdefault("u1_witnesses", {})[cfg] = wit


def export_shapes(chk, tier):
    cfg = "ExpansionShapes_quick.cfg" if tier == "quick" else "ExpansionShapes.cfg"
    r = tlc.run("ExpansionShapes", cfg, workers=1, timeout=1800, heap="6g")
    if not r.ok:
        raise tlc.MachineryError("shape export failed:\n" + r.out[-2000:])
    chk.add_mc(cfg, r)
    shapes = [tuple(v[1:]) for v in tlaval.fast_tuples(r.out, "S")]
    if len(shapes) != r.distinct or len(shapes) < 20000:
        raise tlc.MachineryError("shape export: %d shapes printed for %d states" % (len(shapes), r.distinct))
    shapes.sort(key=lambda s: json.dumps(s))
    return shapes


def run(tier, seed):
    import concurrent.futures as cf
    import multiprocessing
    chk = Check(PID, tier, seed)
    quick = tier == "quick"
    nwork = 3 if quick else 6
    procs = cf.ProcessPoolExecutor(max_workers=nwork, mp_context=multiprocessing.get_context("spawn"))
    threads = cf.ThreadPoolExecutor(max_workers=2)
    u1 = threads.submit(run_u1, tier)                    # TLC subprocesses, concurrent with the driver
    u1_joined = False
    try:
        rng = random.Random(seed)
        t0 = time.time()
        timing = {}
        shapes = export_shapes(chk, tier)
        timing["shapes_s"] = round(time.time() - t0, 1)
        reps = 2
        specs = plan(shapes, rng, reps)
        stats = dict(notes={}, examples={}, ood=set(), by={}, nontrivial=set(), raised=0, canary=[], canary_seen={})
        counters = {}
        ngraphs = 0
        batch = 120000
        pending = None
        eid = 0
        for bi, start in enumerate(range(0, len(specs), batch)):
            bspecs = specs[start:start + batch]
            parts = 1 if quick else 2
            jobs = []
            for fi, fmt in enumerate(FMTS):
                mine = [sp for sp in bspecs if sp["fmt"] == fmt]
                for pi in range(parts):
                    jobs.append((tier, (seed * 1000 + bi) * 100 + fi * 10 + pi, mine[pi::parts]))
            events, eshapes = [], []
            t1 = time.time()
            for evs, shp, cnt, ng in procs.map(realise, jobs):
                events += evs
                eshapes += shp
                ngraphs = max(ngraphs, ng)
                for k, v in cnt.items():
                    counters[k] = counters.get(k, 0) + v
            for ev in events:
                ev["id"] = eid
                eid += 1
            timing["driver_s"] = round(timing.get("driver_s", 0) + time.time() - t1, 1)
            if quick and not u1_joined:
                join_u1(chk, u1)
                u1_joined = True
            if pending is not None:
                digest(chk, pending[1], pending[2], pending[0].result(), stats)
            pending = (threads.submit(tlc.validate_events, TRACE, CFG, events, name="expansion%d" % bi), events, eshapes)
        if pending is not None:
            digest(chk, pending[1], pending[2], pending[0].result(), stats)
        if not u1_joined:
            join_u1(chk, u1)
            u1_joined = True
    finally:
        procs.shutdown(wait=False, cancel_futures=True)
        threads.shutdown(wait=False, cancel_futures=True)
    # binding canary: corrupted copies of passing in-domain events must each be rejected, the originals accepted
    picked = stats["canary"]
    if len(picked) < 10:
        raise tlc.MachineryError("binding canary: only %d passing in-domain events to corrupt" % len(picked))
    canary = []
    for i, ev in enumerate(picked):
        canary += [dict(ev, id=2 * i), dict(corrupt(ev), id=2 * i + 1)]
    cres = tlc.validate_events(TRACE, CFG, canary, name="expcanary", nproc=2)
    got = sorted(i for i, _ in cres["fails"])
    want = [2 * i + 1 for i in range(len(picked))]
    if got != want:
        raise tlc.MachineryError("binding canary: corrupted events %s, rejected %s" % (want, got))
    chk.cov["binding_canary"] = dict(corrupted=len(want), rejected=len(got))
    # ---- notes
    n = stats["notes"]
    if n.get("renorm:drift"):
        chk.drift_note("renormalize differs from the transcription on %d events, e.g. %s"
                       % (n["renorm:drift"], describe(stats["examples"]["renorm:drift"], [])))
    if n.get("renorm:fast_sorted_sum_changed"):
        chk.note("renormalize(fast=True) changes the exact sum of %d lists that satisfy the docstring's precondition (decreasing "
                 "magnitudes) but not Fast2Sum's (outside FastOK: not judged), e.g. %s"
                 % (n["renorm:fast_sorted_sum_changed"], describe(stats["examples"]["renorm:fast_sorted_sum_changed"], [])))
    chk.assumptions += [
        "non-overlap as documented by utils.overlapping: a = 0 or b = 0 or |b| < ulp(a) or |a| < ulp(b); ulp = quantum of the float",
        "'absent overflow' = all items finite and sum |x_i| < 2^(emax-1) (order independent; two binades of margin)",
        "fast=True is judged only on inputs of non-increasing magnitude (docstring) for which every Fast2Sum application of the "
        "documented algorithm has exponent(x) >= exponent(y) or a zero operand (FastOK, computed by the spec); the docstring's "
        "'decreasing magnitudes' alone is not sufficient (noted, not failed)",
        "'after at most two passes': pass 1 or pass 2 is in normal form; judged when both passes are in domain and kept the sum",
        "a size limit truncates unless the inputs fit the limit or the result has fewer non-zero items than the limit; add/subtract/"
        "multiply/square also apply the dtype's maximal expansion length (4/12/40)",
        "multiply/square: fast=False only; no partial product may overflow (sum|a|*sum|b| < 2^(emax-2)) or underflow "
        "(quantum(a_i)+quantum(b_j) >= smallest subnormal exponent); ulp of the leading term = quantum of the first result item",
        "functional variants: fixed length min(limit, number of inputs) for renormalize/add/subtract, zeros to the right",
        "the traced variant is fa.Context.trace + fa.rewrite + targets.numpy.as_function (the public pipeline that emits JAX code)",
    ]
    return chk.finish(
        rule="every TLC shape (ExpansionShapes, tier %s) concretised %d times, cycling dtype x variant x fast x op x size; "
             "non-trivial = distinct (op, dtype, operands) with at least two non-zero input items" % (tier, reps),
        distinct_nontrivial=len(stats["nontrivial"]),
        extra_cov=dict(shapes=len(shapes), events_by_config=stats["by"], spec_notes=n,
                       infeasible_draws=counters.get("infeasible", 0), draws_moved_to_a_wider_dtype=counters.get("widened", 0),
                       events_outside_a_domain=len(stats["ood"]),
                       raised_events=stats["raised"], traced_graphs_per_worker=ngraphs, timing=timing))


def replay(path):
    with open(path) as f:
        rp = json.load(f)["replay"]
    e = rp["event"]
    code = Code("thorough")
    fmt = e["fmt"]
    case = dict(op=e["op"], fmt=fmt, variant=e["variant"], fast=e["fast"], size=e["size"],
                a=[bits.from_bits(x, fmt) for x in e["a"]], b=[bits.from_bits(x, fmt) for x in e["b"]],
                dr=e.get("dr", False), skel=[bits.from_bits(x, fmt) for x in e.get("skel", [])], rel=e.get("rel", []),
                zsum=e.get("zsum", False))
    ev = execute(code, [case])[0]
    print(json.dumps(ev))
    print(describe(ev, []))
    r = tlc.validate_events(TRACE, CFG, [ev], nproc=1)
    for eid, clauses in r["fails"]:
        print("VIOLATION property=%s replay=%s  # %s: %s" % (PID, path, key_of(ev, clauses), describe(ev, clauses)))
    for eid, text in r["notes"]:
        print("note: %s" % text)
    return 1 if r["fails"] else 0
