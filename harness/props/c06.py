"""C06 - StableHLO and XLA-client output is a faithful rendering of the graph (nothing is executed).

U1: MC_TargetTablesHLO (kind_to_target / constant_to_target of targets/stablehlo.py and targets/xla_client.py,
    extracted from the working tree into a generated TLA+ module, against the spec's own tables ImplH of
    FAPrinterHLO.tla - exhaustive over kinds and named constants) and MC_PrinterHLO (the StableHLO printing policy
    - inline `:$ref` binding at the first occurrence - transcribed and run through the machine on all small DAGs).
U2: programs = every shipped (function, signature) of trace_arguments each target accepts (XLA with the alternative
    constant context and the default_constant_type values used by results/update.py and the tests, and without it)
    plus graphs from TLC's term generators (PrinterTerms, FATerms, TypedTerms, HLOTerms) built in the real package.
U3: each emitted text is parsed by parsers that are independent of the package (StableHLO: the recursive-descent
    parser below; XLA client: the C++-subset parser of harness/fa_printer.py), the real graph (including the graphs
    of the alternative constant context) is projected into a node table and Trace_PrinterHLO.tla judges every
    clause with the machine of FAPrinter.tla.
Nothing in this file judges anything.
"""
import contextlib
import hashlib
import json
import os
import random
import re
import sys
import time
import warnings

from .. import tlc, tlaval
from .. import fa_printer as P
from ..common import Check, import_repo
from . import c05 as C5

PID = "C06"
TARGETS = ("stablehlo", "xla_client")
NWORK = max(2, min(12, (os.cpu_count() or 4) - 2))
IR_TYPES = {"float", "float16", "float32", "float64", "complex", "complex64", "complex128", "integer", "integer8", "integer16",
            "integer32", "integer64", "boolean"}

# kinds the spec wild-cards (FAPrinterHLO!WildH): matched against the package's own template
SPEC_WILD = dict(stablehlo=set(), xla_client={"round", "log2", "log10"})
CPP_WILD = {"sign", "round", "remainder"}     # FAPrinter!WildKinds("cpp"): kinds of the alternative (C++) context


# ------------------------------------------------------------------------------------------
# StableHLO TableGen pattern text -> program
# ------------------------------------------------------------------------------------------
_SH_TOK = re.compile(r"""
    \s+ | //[^\n]*
  | (?P<str>"(?:[^"\\]|\\.)*")
  | (?P<ref>\$[A-Za-z_]\w*)
  | (?P<id>[A-Za-z_]\w*)
  | (?P<op>[()<>,:;])
""", re.X)


def sh_tokens(text):
    out, pos = [], 0
    while pos < len(text):
        m = _SH_TOK.match(text, pos)
        if not m:
            raise P.ParseError("StableHLO lexer: unexpected text %r" % text[pos:pos + 30])
        pos = m.end()
        if m.lastgroup:
            out.append((m.lastgroup, m.group(m.lastgroup)))
    out.append(("eof", ""))
    return out


class StableHLOParser:
    """def [name] : Pat<(Source Type:$arg, ...), result>;   result := $ref | (Op[<"s">][:$ref] arg, ...) | Attr<"s">

    Lowering to the statements / term rows of FAPrinter.tla:
      $ref                        row "var"
      (Op:$ref args)              rows of the term, then statement `assign ref = term` (the binding, at its place in
                                  print order) and a "var" row standing for the operand
      (StableHLO_CompareOp a, b, StableHLO_ComparisonDirectionValue<"D">, (STABLEHLO_DEFAULT_COMPARISON_TYPE))
                                  row "sx:StableHLO_CompareOp<D>" with children a, b
      (StableHLO_ConstantLike<"text"> like)    row "constlike", child = the C++ constant expression `text` parsed by the
                                  C++-subset parser (row "opaque" if it is not one), attachment v = [row of like]
      (StableHLO_ConstantLikeXxx like)         row "constlike:Xxx", no child, attachment v = [row of like]
      (Op args)                   row "sx:Op"
    """

    def __init__(self, text):
        self.toks = sh_tokens(text)
        self.i = 0
        self.rows = P.Rows()
        self.stmts = []

    def peek(self, k=0):
        return self.toks[min(self.i + k, len(self.toks) - 1)]

    def next(self):
        t = self.toks[self.i]
        self.i += 1
        return t

    def accept(self, kind, val=None):
        t = self.peek()
        if t[0] == kind and (val is None or t[1] == val):
            self.i += 1
            return t
        return None

    def expect(self, kind, val=None):
        t = self.accept(kind, val)
        if t is None:
            raise P.ParseError("StableHLO parser: expected %s %r, found %r (token %d)" % (kind, val, self.peek()[1], self.i))
        return t

    # ---- syntax tree ----------------------------------------------------------------------
    def opname(self):
        name = self.expect("id")[1]
        tmpl = None
        if self.accept("op", "<"):
            tmpl = self.expect("str")[1][1:-1]
            self.expect("op", ">")
        return name, tmpl

    def dag(self):
        t = self.peek()
        if t[0] == "ref":
            self.next()
            return dict(kind="ref", name=t[1][1:])
        if t == ("op", "("):
            self.next()
            name, tmpl = self.opname()
            bind = None
            if self.accept("op", ":"):
                bind = self.expect("ref")[1][1:]
            args = []
            if not self.accept("op", ")"):
                args.append(self.dag())
                while self.accept("op", ","):
                    args.append(self.dag())
                self.expect("op", ")")
            return dict(kind="dag", op=name, tmpl=tmpl, bind=bind, args=args)
        if t[0] == "id":
            name, tmpl = self.opname()
            return dict(kind="attr", op=name, tmpl=tmpl)
        raise P.ParseError("StableHLO parser: operand expected at %r" % (t[1],))

    def pattern(self):
        self.expect("id", "def")
        if self.peek()[0] == "id":
            self.next()
        self.expect("op", ":")
        self.expect("id", "Pat")
        self.expect("op", "<")
        self.expect("op", "(")
        src = self.expect("id")[1]
        params = []
        if not self.accept("op", ")"):
            while True:
                ty = self.expect("id")[1]
                self.expect("op", ":")
                params.append(dict(name=self.expect("ref")[1][1:], ty=ty))
                if self.accept("op", ")"):
                    break
                self.expect("op", ",")
        self.expect("op", ",")
        body = self.dag()
        self.expect("op", ">")
        self.expect("op", ";")
        if self.peek()[0] != "eof":
            raise P.ParseError("StableHLO parser: text after the pattern")
        return src, params, body

    # ---- lowering -------------------------------------------------------------------------
    def value_row(self, text):
        """the C++ expression inside ConstantLike<"...">"""
        n0 = len(self.rows.rows)
        try:
            p = P.CppParser(text)
            p.rows = self.rows
            e = p.expr()
            if p.peek()[0] != "eof":
                raise P.ParseError("trailing text")
            return e
        except P.ParseError:
            del self.rows.rows[n0:]
            return self.rows.add("opaque", s=text)

    def lower(self, n):
        R = self.rows
        if n["kind"] == "ref":
            return R.add("var", s=n["name"])
        if n["kind"] == "attr":
            raise P.ParseError("StableHLO parser: attribute %s at an operand position" % n["op"])
        op, tmpl, args = n["op"], n["tmpl"], n["args"]
        if op.startswith("StableHLO_ConstantLike"):
            variant = op[len("StableHLO_ConstantLike"):]
            if (variant != "") == (tmpl is not None):
                raise P.ParseError("StableHLO parser: constant form %s<%r>" % (op, tmpl))
            if any(a["kind"] == "attr" for a in args):
                raise P.ParseError("StableHLO parser: attribute inside a constant")
            likes = [self.lower(a) for a in args]
            child = [self.value_row(tmpl)] if tmpl is not None else []
            t = R.add("constlike" + (":" + variant if variant else ""), child, v=likes)
        elif op == "StableHLO_CompareOp":
            if tmpl is not None:
                raise P.ParseError("StableHLO parser: templated CompareOp")
            operands, direction = [], None
            for a in args:
                core = a
                if a["kind"] == "dag" and not a["args"] and a["bind"] is None and a["op"] in ("StableHLO_ComparisonDirectionValue",
                                                                                             "STABLEHLO_DEFAULT_COMPARISON_TYPE"):
                    core = dict(kind="attr", op=a["op"], tmpl=a["tmpl"])
                if core["kind"] == "attr":
                    if core["op"] == "StableHLO_ComparisonDirectionValue" and core["tmpl"] is not None and direction is None:
                        direction = core["tmpl"]
                    elif core["op"] == "STABLEHLO_DEFAULT_COMPARISON_TYPE" and core["tmpl"] is None:
                        pass
                    else:
                        raise P.ParseError("StableHLO parser: comparison attribute %s<%r>" % (core["op"], core["tmpl"]))
                else:
                    if direction is not None:
                        raise P.ParseError("StableHLO parser: operand after the comparison direction")
                    operands.append(self.lower(a))
            if direction is None:
                raise P.ParseError("StableHLO parser: CompareOp without a direction")
            t = R.add("sx:StableHLO_CompareOp<%s>" % direction, operands)
        else:
            if tmpl is not None:
                raise P.ParseError("StableHLO parser: templated operator %s<%r>" % (op, tmpl))
            t = R.add("sx:" + op, [self.lower(a) for a in args])
        if n["bind"] is not None:
            self.stmts.append(dict(op="assign", var=n["bind"], ty="", t=t))
            return R.add("var", s=n["bind"])
        return t


def parse_stablehlo(text):
    p = StableHLOParser(text)
    src, params, body = p.pattern()
    t = p.lower(body)
    p.stmts.append(dict(op="return", var="", ty="", t=t))
    return dict(loads=True, error="", fname=src, params=params, ret="", stmts=p.stmts, rows=p.rows.rows)


def stablehlo_constant_rows(entry):
    """rows of `(<entry> $x)` for one constant_to_target entry (table check)"""
    p = StableHLOParser("(%s $x)" % entry)
    t = p.lower(p.dag())
    if p.peek()[0] != "eof" or t != len(p.rows.rows):
        raise P.ParseError("constant table entry %r" % entry)
    return p.rows.rows


# ------------------------------------------------------------------------------------------
# XLA client C++ text -> program (the C++-subset parser of fa_printer with the builder's types)
# ------------------------------------------------------------------------------------------
class XlaParser(P.CppParser):
    def __init__(self, text, holes=False):
        super().__init__(text, holes)
        self.extra_types = {"XlaOp", "xla::XlaOp"}
        self.tparams = []

    def looks_like_type(self, k=0):
        t = self.peek(k)
        return super().looks_like_type(k) or (t[0] == "id" and t[1] in self.extra_types)

    def function(self):
        if self.accept("template"):
            self.expect("<")
            while True:
                if not (self.accept("typename") or self.accept("class")):
                    raise P.ParseError("C++ parser: template parameter form at %r" % (self.peek()[1],))
                nm = self.next()
                if nm[0] != "id":
                    raise P.ParseError("C++ parser: template parameter name expected")
                self.extra_types.add(nm[1])
                self.tparams.append(nm[1])
                if self.accept(">"):
                    break
                self.expect(",")
        return super().function()


SCALAR_LIKE = ("call:ScalarLike", "call:xla::ScalarLike")


def parse_xla(text):
    p = XlaParser(text)
    prog = p.function()
    # ScalarLike(like, value): a constant attached to an operand - normal form: child = value, attachment v = [row of like]
    for r in prog["rows"]:
        if r["o"] in SCALAR_LIKE and len(r["a"]) == 2:
            r["v"] = [r["a"][0]]
            r["a"] = [r["a"][1]]
    prog["tparams"] = p.tparams
    return prog


# ------------------------------------------------------------------------------------------
# graph -> node table, including the graphs of the alternative constant context
# ------------------------------------------------------------------------------------------
def project(graph):
    """like fa_printer.project, plus: a constant whose value is an expression of the alternative context is the
    node `constant_alt` with that expression's root as its operand; nodes of the alternative context carry the
    type "alt:<type>".  -> (dict(fname, params, nodes, root), exprs)"""
    from functional_algorithms.expr import Expr
    assert graph.kind == "apply", graph.kind
    fname = graph.operands[0]
    fname = fname.operands[0] if isinstance(fname, Expr) else str(fname)
    args = graph.operands[1:-1]
    body = graph.operands[-1]
    nodes, ids, exprs = [], {}, []

    def typ(e, alt):
        try:
            t = str(e.get_type())
        except NotImplementedError:
            t = "unknown"
        return "alt:" + t if alt else t

    def visit(e, alt):
        if id(e) in ids:
            return ids[id(e)]
        k = e.kind
        if k == "symbol":
            rec = dict(k="symbol", a=[], t=("alt:" if alt else "") + str(e.operands[1]), n=str(e.operands[0]), v=dict(P.NOV))
        elif k == "constant":
            val = e.operands[0]
            t = typ(e, alt)
            if isinstance(val, Expr):
                rec = dict(k="constant_alt", a=[visit(val, True)], t=t, n="", v=dict(P.NOV))
            else:
                rec = dict(k="constant", a=[], t=t, n="", v=P.value_encoding(val))
        else:
            ops = [visit(o, alt) for o in e.operands]
            rec = dict(k=k, a=ops, t=typ(e, alt), n="", v=dict(P.NOV))
        nodes.append(rec)
        exprs.append(e)
        ids[id(e)] = len(nodes)
        return len(nodes)

    old = sys.getrecursionlimit()
    sys.setrecursionlimit(max(old, 20000))
    try:
        root = visit(body, False)
        params = []
        for a in args:
            if a.kind != "symbol":
                params.append(dict(name=str(a.ref), t="list", node=0))
                continue
            params.append(dict(name=str(a.operands[0]), t=str(a.operands[1]), node=ids.get(id(a), 0)))
    finally:
        sys.setrecursionlimit(old)
    return dict(fname=fname, params=params, nodes=nodes, root=root), exprs


# ------------------------------------------------------------------------------------------
# package tables
# ------------------------------------------------------------------------------------------
_TABS = {}


def tables(fa):
    """per target: the live kind_to_target / constant_to_target tables (as patterns / rows) and the templates"""
    if not _TABS:
        sh = fa.targets.stablehlo
        kinds = {}
        for k, v in sorted(sh.kind_to_target.items()):
            kinds[k] = "" if (v is NotImplemented or v is None) else (v if isinstance(v, str) else "?" + repr(v))
        consts = {}
        for k, v in sorted(sh.constant_to_target.items()):
            try:
                consts[k] = stablehlo_constant_rows(v) if isinstance(v, str) else []
            except P.ParseError:
                consts[k] = []
        _TABS["stablehlo"] = dict(kinds=kinds, constants=consts, patterns={}, templates=dict(sh.kind_to_target))
        xc = fa.targets.xla_client
        t = P.extract_tables(xc, "cpp")
        _TABS["xla_client"] = dict(kinds=t["kinds"], constants=t["constants"], templates=dict(xc.kind_to_target),
                                   patterns={k: v for k, v in t["kinds"].items() if k in SPEC_WILD["xla_client"]})
        tc = P.extract_tables(fa.targets.cpp, "cpp")
        _TABS["cpp"] = dict(patterns={k: v for k, v in tc["kinds"].items() if k in CPP_WILD})
    return _TABS


def wild_of(fa, tname):
    tabs = tables(fa)
    ok = lambda v: v["o"] not in ("none", "callable", "unparsable")   # noqa
    w = {k: v for k, v in tabs[tname]["patterns"].items() if ok(v)}
    if tname == "xla_client":
        w.update({"alt:" + k: v for k, v in tabs["cpp"]["patterns"].items() if ok(v)})
    return w


# ------------------------------------------------------------------------------------------
# graphs
# ------------------------------------------------------------------------------------------
XLA_CONTEXTS = {
    "alt:FloatType": dict(enable_alt=True, default_constant_type="FloatType"),   # results/update.py
    "alt:DType2": dict(enable_alt=True, default_constant_type="DType2"),         # tests/test_algorithms.py::test_target
    "plain": dict(),                                                             # tests/test_functional_algorithms.py::test_myhypot_xla_client
}


def context_of(fa, req):
    kw = XLA_CONTEXTS[req.get("ctx", "plain")] if req["target"] == "xla_client" else {}
    return fa.Context(paths=[fa.algorithms], **kw)


def shipped_requests(fa):
    out = []
    for tname in TARGETS:
        target = getattr(fa.targets, tname)
        for func, sigs in target.trace_arguments.items():
            for sig in sigs:
                for ctx in (XLA_CONTEXTS if tname == "xla_client" else ("plain",)):
                    for simplify in (True, False):
                        out.append(dict(src="shipped", target=tname, func=func, sig=list(sig), ctx=ctx, simplify=simplify))
    return out


def build_term_graph(fa, req):
    term, tname, variant = req["term"], req["target"], req.get("variant", 0)
    syms_t = {}
    C5.collect_symbols(term, tname, variant, syms_t)
    names = sorted(syms_t)
    if not names:
        raise C5.BuildSkip("closed term")

    def _build(ctx, d):
        return C5.build_expr(ctx, term, d, tname)

    src = "def fn(ctx, %s):\n    return _build(ctx, dict(%s))\n" % (", ".join(names), ", ".join("%s=%s" % (n, n) for n in names))
    ns = dict(_build=_build)
    exec(src, ns)
    ctx = context_of(fa, req)
    return ctx.trace(ns["fn"], *["%s:%s" % (n, syms_t[n]) for n in names])


def make_graph(fa, req):
    target = getattr(fa.targets, req["target"])
    if req["src"] == "shipped":
        ctx = context_of(fa, req)
        g = ctx.trace(getattr(fa.algorithms, req["func"]), *req["sig"])
    else:
        g = build_term_graph(fa, req)
    if req.get("simplify", True):
        return g.rewrite(target, fa.rewrite)
    return g.rewrite(target)


def produce(fa, req):
    """build, print, parse, project one request -> dict(status, ...)"""
    tname = req["target"]
    target = getattr(fa.targets, tname)
    try:
        with warnings.catch_warnings(), open(os.devnull, "w") as devnull, contextlib.redirect_stdout(devnull):
            warnings.simplefilter("ignore")
            g = make_graph(fa, req)
    except C5.BuildSkip as ex:
        return dict(req=req, status="build_skip", why=str(ex)[:100])
    except Exception as ex:  # building / expanding the graph is not this property
        return dict(req=req, status="build_skip", why="%s: %s" % (type(ex).__name__, str(ex)[:100]))
    try:
        with warnings.catch_warnings(record=True) as wlist, open(os.devnull, "w") as devnull, contextlib.redirect_stdout(devnull):
            warnings.simplefilter("always")
            text = g.tostring(target)
    except Exception as ex:
        return dict(req=req, status="declined", why="%s: %s" % (type(ex).__name__, str(ex)[:120]))
    msgs = [str(w.message) for w in wlist]
    res = dict(req=req, status="accepted", text=text,
               warned=dict(undefined_reference=sum(1 for m in msgs if m.startswith("undefined reference")),
                           constant_not_implemented=sum(1 for m in msgs if "not implemented in" in m or "does not implement" in m)))
    proj, exprs = project(g)
    res["proj"] = proj
    if any(p["t"] == "list" for p in proj["params"]) or any(n["k"] in ("list", "item", "len") or n["t"].startswith("list") for n in proj["nodes"]):
        return dict(req=req, status="build_skip", why="list-valued program")
    renamed = [str(a.operands[0]) for a in g.operands[1:-1] if a.kind == "symbol" and a.ref != str(a.operands[0])]
    res["wild"] = wild_of(fa, tname)
    prog = parse_stablehlo(text) if tname == "stablehlo" else parse_xla(text)
    res["prog"] = dict(params=prog["params"], stmts=prog["stmts"], rows=prog["rows"], ret=prog["ret"])
    res["fname"] = prog["fname"]
    if renamed or [p["name"] for p in prog["params"]] != [p["name"] for p in proj["params"]]:
        res["status"] = "param_mismatch"
    return res


_FA = None


def _worker(reqs):
    out = []
    for r in reqs:
        try:
            out.append(produce(_FA, r))
        except P.ParseError as ex:
            out.append(dict(req=r, status="parse_error", why=str(ex)[:300]))
    return out


def produce_all(fa, reqs):
    global _FA
    _FA = fa
    tables(fa)
    if len(reqs) <= 4:
        return _worker(reqs)
    import multiprocessing as mp
    chunks = [reqs[i::NWORK * 4] for i in range(NWORK * 4)]
    chunks = [c for c in chunks if c]
    with mp.get_context("fork").Pool(NWORK) as pool:
        parts = pool.map(_worker, chunks)
    res = [r for p in parts for r in p]
    order = {json.dumps(r, sort_keys=True, default=str): i for i, r in enumerate(reqs)}
    res.sort(key=lambda r: order[json.dumps(r["req"], sort_keys=True, default=str)])
    return res


# ------------------------------------------------------------------------------------------
# verdicts
# ------------------------------------------------------------------------------------------
def event_of(r, eid):
    return dict(id=eid, target=r["req"]["target"], nodes=r["proj"]["nodes"], root=r["proj"]["root"], prog=r["prog"], wild=r["wild"],
                warned=r["warned"])


def judge(results, nproc=None):
    """validate all accepted programs -> (programs in event order, tlc result)"""
    acc = [r for r in results if r["status"] == "accepted"]
    uniq = {}
    for r in acc:
        h = hashlib.sha256(json.dumps([r["req"]["target"], r["text"], r["proj"]["nodes"], r["proj"]["root"]], sort_keys=True).encode()).hexdigest()
        r["dup_of"] = uniq.setdefault(h, r) is not r
    todo = [r for r in acc if not r["dup_of"]]
    todo.sort(key=lambda r: -len(r["prog"]["rows"]))
    nproc = nproc or min(tlc.NCPU, 12)
    nchunks = max(1, min(nproc * 2, len(todo)))
    order = [r for c in range(nchunks) for r in todo[c::nchunks]]
    events = []
    for r in order:
        r["eid"] = len(events)
        events.append(event_of(r, r["eid"]))
    chunk = (len(events) + nchunks - 1) // nchunks if events else 1
    res = tlc.validate_events("Trace_PrinterHLO", "Trace.cfg", events, name="hlo", nproc=nproc, chunk=chunk, timeout=7200)
    return order, res


NAMED_WORDS = {"inf", "nan", "eps", "smallest_subnormal", "largest", "smallest", "posinf", "neginf", "pi", "True", "False"}


def static_keys(r, triples):
    """one key per (clause, what it is about): narrow classes of failing behaviour"""
    tname = r["req"]["target"]
    rows = r["prog"]["rows"]
    likes = {j for row in rows if (row["o"] in SCALAR_LIKE or row["o"].startswith("constlike")) for j in row["v"]}
    ctypes_ = "+".join(sorted({n["t"] for n in r["proj"]["nodes"] if n["k"] in ("constant", "constant_alt") and not n["t"].startswith("alt:")}))
    out = {}
    for clause, row, what in triples:
        o = rows[row - 1] if row else None
        if clause in ("constant_value", "constant_type", "constant_like"):
            detail = o["o"] if o else str(what)
            if o and o["a"]:
                c = rows[o["a"][0] - 1]
                detail += "(%s)" % ("literal" if c["o"] in ("lit", "un:-", "un:+") else c["o"] if c["o"] != "var" else "name " + c["s"])
            detail += "@" + ctypes_
        elif clause == "distinct_share":
            detail = "variable " + ("constant_<value>" if str(what).startswith("constant_") else "other")
        elif clause == "def_before_use":
            detail = what if what in NAMED_WORDS else ("operand a constant is attached to" if row in likes else "var")
        elif clause in ("single_assignment", "declared_type"):
            detail = "param" if what in [p["name"] for p in r["prog"]["params"]] else ("return" if what == "return" else "var")
        else:
            detail = str(what)
        out.setdefault("%s:%s:%s" % (tname, clause, detail), []).append([clause, row, what])
    return out


def describe(req):
    ctx = (" [%s]" % req["ctx"]) if req["target"] == "xla_client" else ""
    simp = "" if req.get("simplify", True) else " (no simplification)"
    if req["src"] == "shipped":
        return "%s(%s)%s%s" % (req["func"], ",".join(req["sig"]), ctx, simp)
    return "%s v%s %s%s%s" % (req["src"], req.get("variant", 0), json.dumps(req["term"], separators=(",", ":")), ctx, simp)


def collect(chk, order, res):
    byid = {r["eid"]: r for r in order}
    notes = {}
    for eid, n in res["notes"]:
        v = tlaval.parse(n)
        notes.setdefault(eid, {})[v[0]] = v
    warned_unbound = 0
    for eid, d in notes.items():
        if "lit_conv" in d:
            raise tlc.MachineryError("host decimal->binary conversion of a literal disagrees with the spec in %s (rows %s)"
                                     % (describe(byid[eid]["req"]), d["lit_conv"][1]))
        if "warned_and_unbound" in d:
            warned_unbound += 1
    for eid, clauses in res["fails"]:
        r = byid[eid]
        d = notes.get(eid, {})
        if "static" not in d:
            raise tlc.MachineryError("failing event without its failure set: %s" % describe(r["req"]))
        triples = C5.set_items(d["static"][1])
        for key, trs in static_keys(r, triples).items():
            chk.fail(key, "%s: %s" % (describe(r["req"]), json.dumps(trs[:3])),
                     dict(request=r["req"], text=r["text"], clauses=clauses, failures=trs))
    return warned_unbound
