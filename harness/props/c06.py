"""C06 - StableHLO and XLA-client output is a faithful rendering of the graph (nothing is executed).

U1: MC_TargetTablesHLO (kind_to_target / constant_to_target of targets/stablehlo.py and targets/xla_client.py,
    extracted from the working tree into a generated TLA+ module, against the spec's own tables ImplH of
    FAPrinterHLO.tla - exhaustive over kinds and named constants) and MC_PrinterHLO (the StableHLO printing policy
    - inline `:$ref` binding at the first occurrence - transcribed and run through the machine on all small DAGs).
U2: programs = every shipped (function, signature) of trace_arguments each target accepts (XLA with the alternative
    constant context and the default_constant_type values used by results/update.py and the tests, and without it)
    plus graphs from TLC's term generators (PrinterTerms, FATerms, TypedTerms, HLOTerms) built in the real package.
U3: each emitted text is parsed by parsers that are independent of the package (StableHLO: the recursive-descent
    parser below; XLA client: the C++-subset parser of harness/fa_printer.py), the real graph (including the graphs
    of the alternative constant context) is projected into a node table and Trace_PrinterHLO.tla judges every
    clause with the machine of FAPrinter.tla.
Nothing in this file judges anything.
"""
import contextlib
import hashlib
import json
import os
import random
import re
import sys
import time
import warnings

from .. import tlc, tlaval
from .. import fa_printer as P
from ..common import Check, import_repo
from . import c05 as C5

PID = "C06"
TARGETS = ("stablehlo", "xla_client")
NWORK = max(2, min(12, (os.cpu_count() or 4) - 2))
IR_TYPES = {"float", "float16", "float32", "float64", "complex", "complex64", "complex128", "integer", "integer8", "integer16",
            "integer32", "integer64", "boolean"}

# kinds the spec wild-cards (FAPrinterHLO!WildH): matched against the package's own template
SPEC_WILD = dict(stablehlo=set(), xla_client={"round", "log2", "log10"})
CPP_WILD = {"sign", "round", "remainder"}     # FAPrinter!WildKinds("cpp"): kinds of the alternative (C++) context


# ------------------------------------------------------------------------------------------
# StableHLO TableGen pattern text -> program
# ------------------------------------------------------------------------------------------
_SH_TOK = re.compile(r"""
    \s+ | //[^\n]*
  | (?P<str>"(?:[^"\\]|\\.)*")
  | (?P<ref>\$[A-Za-z_]\w*)
  | (?P<id>[A-Za-z_]\w*)
  | (?P<op>[()<>,:;])
""", re.X)


def sh_tokens(text):
    out, pos = [], 0
    while pos < len(text):
        m = _SH_TOK.match(text, pos)
        if not m:
            raise P.ParseError("StableHLO lexer: unexpected text %r" % text[pos:pos + 30])
        pos = m.end()
        if m.lastgroup:
            out.append((m.lastgroup, m.group(m.lastgroup)))
    out.append(("eof", ""))
    return out


class StableHLOParser:
    """def [name] : Pat<(Source Type:$arg, ...), result>;   result := $ref | (Op[<"s">][:$ref] arg, ...) | Attr<"s">

    Lowering to the statements / term rows of FAPrinter.tla:
      $ref                        row "var"
      (Op:$ref args)              rows of the term, then statement `assign ref = term` (the binding, at its place in
                                  print order) and a "var" row standing for the operand
      (StableHLO_CompareOp a, b, StableHLO_ComparisonDirectionValue<"D">, (STABLEHLO_DEFAULT_COMPARISON_TYPE))
                                  row "sx:StableHLO_CompareOp<D>" with children a, b
      (StableHLO_ConstantLike<"text"> like)    row "constlike", child = the C++ constant expression `text` parsed by the
                                  C++-subset parser (row "opaque" if it is not one), attachment v = [row of like]
      (StableHLO_ConstantLikeXxx like)         row "constlike:Xxx", no child, attachment v = [row of like]
      (Op args)                   row "sx:Op"
    """

    def __init__(self, text):
        self.toks = sh_tokens(text)
        self.i = 0
        self.rows = P.Rows()
        self.stmts = []

    def peek(self, k=0):
        return self.toks[min(self.i + k, len(self.toks) - 1)]

    def next(self):
        t = self.toks[self.i]
        self.i += 1
        return t

    def accept(self, kind, val=None):
        t = self.peek()
        if t[0] == kind and (val is None or t[1] == val):
            self.i += 1
            return t
        return None

    def expect(self, kind, val=None):
        t = self.accept(kind, val)
        if t is None:
            raise P.ParseError("StableHLO parser: expected %s %r, found %r (token %d)" % (kind, val, self.peek()[1], self.i))
        return t

    # ---- syntax tree ----------------------------------------------------------------------
    def opname(self):
        name = self.expect("id")[1]
        tmpl = None
        if self.accept("op", "<"):
            tmpl = self.expect("str")[1][1:-1]
            self.expect("op", ">")
        return name, tmpl

    def dag(self):
        t = self.peek()
        if t[0] == "ref":
            self.next()
            return dict(kind="ref", name=t[1][1:])
        if t == ("op", "("):
            self.next()
            name, tmpl = self.opname()
            bind = None
            if self.accept("op", ":"):
                bind = self.expect("ref")[1][1:]
            args = []
            if not self.accept("op", ")"):
                args.append(self.dag())
                while self.accept("op", ","):
                    args.append(self.dag())
                self.expect("op", ")")
            return dict(kind="dag", op=name, tmpl=tmpl, bind=bind, args=args)
        if t[0] == "id":
            name, tmpl = self.opname()
            return dict(kind="attr", op=name, tmpl=tmpl)
        raise P.ParseError("StableHLO parser: operand expected at %r" % (t[1],))

    def pattern(self):
        self.expect("id", "def")
        if self.peek()[0] == "id":
            self.next()
        self.expect("op", ":")
        self.expect("id", "Pat")
        self.expect("op", "<")
        self.expect("op", "(")
        src = self.expect("id")[1]
        params = []
        if not self.accept("op", ")"):
            while True:
                ty = self.expect("id")[1]
                self.expect("op", ":")
                params.append(dict(name=self.expect("ref")[1][1:], ty=ty))
                if self.accept("op", ")"):
                    break
                self.expect("op", ",")
        self.expect("op", ",")
        body = self.dag()
        self.expect("op", ">")
        self.expect("op", ";")
        if self.peek()[0] != "eof":
            raise P.ParseError("StableHLO parser: text after the pattern")
        return src, params, body

    # ---- lowering -------------------------------------------------------------------------
    def value_row(self, text):
        """the C++ expression inside ConstantLike<"...">"""
        n0 = len(self.rows.rows)
        try:
            p = P.CppParser(text)
            p.rows = self.rows
            e = p.expr()
            if p.peek()[0] != "eof":
                raise P.ParseError("trailing text")
            return e
        except P.ParseError:
            del self.rows.rows[n0:]
            return self.rows.add("opaque", s=text)

    def lower(self, n):
        R = self.rows
        if n["kind"] == "ref":
            return R.add("var", s=n["name"])
        if n["kind"] == "attr":
            raise P.ParseError("StableHLO parser: attribute %s at an operand position" % n["op"])
        op, tmpl, args = n["op"], n["tmpl"], n["args"]
        if op.startswith("StableHLO_ConstantLike"):
            variant = op[len("StableHLO_ConstantLike"):]
            if (variant != "") == (tmpl is not None):
                raise P.ParseError("StableHLO parser: constant form %s<%r>" % (op, tmpl))
            if any(a["kind"] == "attr" for a in args):
                raise P.ParseError("StableHLO parser: attribute inside a constant")
            likes = [self.lower(a) for a in args]
            child = [self.value_row(tmpl)] if tmpl is not None else []
            t = R.add("constlike" + (":" + variant if variant else ""), child, v=likes)
        elif op == "StableHLO_CompareOp":
            if tmpl is not None:
                raise P.ParseError("StableHLO parser: templated CompareOp")
            operands, direction = [], None
            for a in args:
                core = a
                if a["kind"] == "dag" and not a["args"] and a["bind"] is None and a["op"] in ("StableHLO_ComparisonDirectionValue",
                                                                                             "STABLEHLO_DEFAULT_COMPARISON_TYPE"):
                    core = dict(kind="attr", op=a["op"], tmpl=a["tmpl"])
                if core["kind"] == "attr":
                    if core["op"] == "StableHLO_ComparisonDirectionValue" and core["tmpl"] is not None and direction is None:
                        direction = core["tmpl"]
                    elif core["op"] == "STABLEHLO_DEFAULT_COMPARISON_TYPE" and core["tmpl"] is None:
                        pass
                    else:
                        raise P.ParseError("StableHLO parser: comparison attribute %s<%r>" % (core["op"], core["tmpl"]))
                else:
                    if direction is not None:
                        raise P.ParseError("StableHLO parser: operand after the comparison direction")
                    operands.append(self.lower(a))
            if direction is None:
                raise P.ParseError("StableHLO parser: CompareOp without a direction")
            t = R.add("sx:StableHLO_CompareOp<%s>" % direction, operands)
        else:
            if tmpl is not None:
                raise P.ParseError("StableHLO parser: templated operator %s<%r>" % (op, tmpl))
            t = R.add("sx:" + op, [self.lower(a) for a in args])
        if n["bind"] is not None:
            self.stmts.append(dict(op="assign", var=n["bind"], ty="", t=t))
            return R.add("var", s=n["bind"])
        return t


def parse_stablehlo(text):
    p = StableHLOParser(text)
    src, params, body = p.pattern()
    t = p.lower(body)
    p.stmts.append(dict(op="return", var="", ty="", t=t))
    return dict(loads=True, error="", fname=src, params=params, ret="", stmts=p.stmts, rows=p.rows.rows)


def stablehlo_constant_rows(entry):
    """rows of `(<entry> $x)` for one constant_to_target entry (table check)"""
    p = StableHLOParser("(%s $x)" % entry)
    t = p.lower(p.dag())
    if p.peek()[0] != "eof" or t != len(p.rows.rows):
        raise P.ParseError("constant table entry %r" % entry)
    return p.rows.rows


# ------------------------------------------------------------------------------------------
# XLA client C++ text -> program (the C++-subset parser of fa_printer with the builder's types)
# ------------------------------------------------------------------------------------------
def xla_tokens(text):
    """tokens of the C++ subset; a number immediately followed by `j` (a Python imaginary literal, which is not C++) is one
    token of kind `imag` so that the rest of the text can still be read"""
    out, pos, last_end = [], 0, -1
    while pos < len(text):
        m = P._CPP_TOK.match(text, pos)
        if not m:
            raise P.ParseError("C++ lexer: unexpected text %r" % text[pos:pos + 30])
        if m.lastgroup:
            tok = (m.lastgroup, m.group(m.lastgroup))
            if tok[0] == "id" and tok[1] in ("j", "J") and out and out[-1][0] == "num" and last_end == m.start():
                out[-1] = ("imag", out[-1][1] + tok[1])
            else:
                out.append(tok)
            last_end = m.end()
        pos = m.end()
    out.append(("eof", ""))
    return out


class XlaParser(P.CppParser):
    def __init__(self, text, holes=False):
        super().__init__("", holes)
        self.toks = xla_tokens(text)
        self.extra_types = {"XlaOp", "xla::XlaOp"}
        self.tparams = []

    def primary(self):
        if self.peek()[0] == "imag":
            return self.rows.add("opaque", s=self.next()[1])
        return super().primary()

    def looks_like_type(self, k=0):
        t = self.peek(k)
        return super().looks_like_type(k) or (t[0] == "id" and t[1] in self.extra_types)

    def function(self):
        if self.accept("template"):
            self.expect("<")
            while True:
                if not (self.accept("typename") or self.accept("class")):
                    raise P.ParseError("C++ parser: template parameter form at %r" % (self.peek()[1],))
                nm = self.next()
                if nm[0] != "id":
                    raise P.ParseError("C++ parser: template parameter name expected")
                self.extra_types.add(nm[1])
                self.tparams.append(nm[1])
                if self.accept(">"):
                    break
                self.expect(",")
        return super().function()


SCALAR_LIKE = ("call:ScalarLike", "call:xla::ScalarLike")


def parse_xla(text):
    p = XlaParser(text)
    prog = p.function()
    # ScalarLike(like, value): a constant attached to an operand - normal form: child = value, attachment v = [row of like]
    for r in prog["rows"]:
        if r["o"] in SCALAR_LIKE and len(r["a"]) == 2:
            r["v"] = [r["a"][0]]
            r["a"] = [r["a"][1]]
    prog["tparams"] = p.tparams
    return prog


# ------------------------------------------------------------------------------------------
# graph -> node table, including the graphs of the alternative constant context
# ------------------------------------------------------------------------------------------
def ElemT(t):
    return t[4:] if t.startswith("alt:") else t


def project(graph):
    """like fa_printer.project, plus: a constant whose value is an expression of the alternative context is the
    node `constant_alt` with that expression's root as its operand; nodes of the alternative context carry the
    type "alt:<type>"; the `like` expression of a constant is projected too (it is not an operand of the constant).  -> (dict(fname, params, nodes, root), exprs)"""
    from functional_algorithms.expr import Expr
    assert graph.kind == "apply", graph.kind
    fname = graph.operands[0]
    fname = fname.operands[0] if isinstance(fname, Expr) else str(fname)
    args = graph.operands[1:-1]
    body = graph.operands[-1]
    nodes, ids, exprs = [], {}, []

    def typ(e, alt):
        try:
            t = str(e.get_type())
        except NotImplementedError:
            t = "unknown"
        return "alt:" + t if alt else t

    def visit(e, alt):
        if id(e) in ids:
            return ids[id(e)]
        k = e.kind
        if k == "symbol":
            rec = dict(k="symbol", a=[], t=("alt:" if alt else "") + str(e.operands[1]), n=str(e.operands[0]), v=dict(P.NOV))
        elif k == "constant":
            val = e.operands[0]
            t = typ(e, alt)
            if isinstance(val, Expr):
                rec = dict(k="constant_alt", a=[visit(val, True)], t=t, n="", v=dict(P.NOV))
            else:
                v = P.value_encoding(val)
                if ElemT(t).startswith("integer") and v["c"] in ("float", "complex"):
                    # ill-typed by construction (a float value with an integer like, produced by constant folding): not judged (as in C05)
                    v = dict(P.NOV, c="unsupported", name="float value in an integer-typed constant")
                rec = dict(k="constant", a=[], t=t, n="", v=v)
            if not alt and isinstance(e.operands[1], Expr):
                # the operand the constant is attached to (`like`) is a term of the graph even when nothing else uses it
                visit(e.operands[1], False)
        else:
            ops = [visit(o, alt) for o in e.operands]
            rec = dict(k=k, a=ops, t=typ(e, alt), n="", v=dict(P.NOV))
        nodes.append(rec)
        exprs.append(e)
        ids[id(e)] = len(nodes)
        return len(nodes)

    old = sys.getrecursionlimit()
    sys.setrecursionlimit(max(old, 20000))
    try:
        root = visit(body, False)
        params = []
        for a in args:
            if a.kind != "symbol":
                params.append(dict(name=str(a.ref), t="list", node=0))
                continue
            params.append(dict(name=str(a.operands[0]), t=str(a.operands[1]), node=ids.get(id(a), 0)))
    finally:
        sys.setrecursionlimit(old)
    refs = dict(main=set(), alt=set())
    for n, e in zip(nodes, exprs):
        try:
            ref = e.ref      # (after printing: the name the printer used)
        except Exception:  # noqa
            ref = None
        if isinstance(ref, str) and n["k"] != "symbol":
            refs["alt" if n["t"].startswith("alt:") else "main"].add(ref)
    return dict(fname=fname, params=params, nodes=nodes, root=root, shared_refs=sorted(refs["main"] & refs["alt"])), exprs


# ------------------------------------------------------------------------------------------
# package tables
# ------------------------------------------------------------------------------------------
_TABS = {}


def tables(fa):
    """per target: the live kind_to_target / constant_to_target tables (as patterns / rows) and the templates"""
    if not _TABS:
        sh = fa.targets.stablehlo
        kinds = {}
        for k, v in sorted(sh.kind_to_target.items()):
            kinds[k] = "" if (v is NotImplemented or v is None) else (v if isinstance(v, str) else "?" + repr(v))
        consts = {}
        for k, v in sorted(sh.constant_to_target.items()):
            try:
                consts[k] = stablehlo_constant_rows(v) if isinstance(v, str) else []
            except P.ParseError:
                consts[k] = []
        _TABS["stablehlo"] = dict(kinds=kinds, constants=consts, patterns={}, templates=dict(sh.kind_to_target))
        xc = fa.targets.xla_client
        t = P.extract_tables(xc, "cpp")
        _TABS["xla_client"] = dict(kinds=t["kinds"], constants=t["constants"], templates=dict(xc.kind_to_target),
                                   patterns={k: v for k, v in t["kinds"].items() if k in SPEC_WILD["xla_client"]})
        tc = P.extract_tables(fa.targets.cpp, "cpp")
        _TABS["cpp"] = dict(patterns={k: v for k, v in tc["kinds"].items() if k in CPP_WILD})
    return _TABS


def wild_of(fa, tname):
    tabs = tables(fa)
    ok = lambda v: v["o"] not in ("none", "callable", "unparsable")   # noqa
    w = {k: v for k, v in tabs[tname]["patterns"].items() if ok(v)}
    if tname == "xla_client":
        w.update({"alt:" + k: v for k, v in tabs["cpp"]["patterns"].items() if ok(v)})
    return w


# ------------------------------------------------------------------------------------------
# graphs
# ------------------------------------------------------------------------------------------
XLA_CONTEXTS = {
    "alt:FloatType": dict(enable_alt=True, default_constant_type="FloatType"),   # results/update.py
    "alt:DType2": dict(enable_alt=True, default_constant_type="DType2"),         # tests/test_algorithms.py::test_target
    "plain": dict(),                                                             # tests/test_functional_algorithms.py::test_myhypot_xla_client
}


def context_of(fa, req):
    kw = XLA_CONTEXTS[req.get("ctx", "plain")] if req["target"] == "xla_client" else {}
    return fa.Context(paths=[fa.algorithms], **kw)


def shipped_requests(fa):
    out = []
    for tname in TARGETS:
        target = getattr(fa.targets, tname)
        for func, sigs in target.trace_arguments.items():
            for sig in sigs:
                for ctx in (XLA_CONTEXTS if tname == "xla_client" else ("plain",)):
                    for simplify in (True, False):
                        out.append(dict(src="shipped", target=tname, func=func, sig=list(sig), ctx=ctx, simplify=simplify))
    return out


def build_term_graph(fa, req):
    term, variant = req["term"], req.get("variant", 0)
    # dtype naming: variant 0 = the unsized types the shipped signatures use (float, complex, int, bool: C05's "python" naming; the only
    # ones the XLA client printer knows), variant v >= 1 = C05's sized variant v - 1 (float64/complex128, float32/complex64, ...)
    tname = "python" if (variant == 0 or req["target"] == "xla_client") else "numpy"
    variant = max(0, variant - 1)
    syms_t = {}
    C5.collect_symbols(term, tname, variant, syms_t)
    names = sorted(syms_t)
    if not names:
        raise C5.BuildSkip("closed term")

    def _build(ctx, d):
        return C5.build_expr(ctx, term, d, tname)

    src = "def fn(ctx, %s):\n    return _build(ctx, dict(%s))\n" % (", ".join(names), ", ".join("%s=%s" % (n, n) for n in names))
    ns = dict(_build=_build)
    exec(src, ns)
    ctx = context_of(fa, req)
    return ctx.trace(ns["fn"], *["%s:%s" % (n, syms_t[n]) for n in names])


def make_graph(fa, req):
    target = getattr(fa.targets, req["target"])
    if req["src"] == "shipped":
        ctx = context_of(fa, req)
        g = ctx.trace(getattr(fa.algorithms, req["func"]), *req["sig"])
    else:
        g = build_term_graph(fa, req)
    if req.get("simplify", True):
        return g.rewrite(target, fa.rewrite)
    return g.rewrite(target)


def produce(fa, req):
    """build, print, parse, project one request -> dict(status, ...)"""
    tname = req["target"]
    target = getattr(fa.targets, tname)
    try:
        with warnings.catch_warnings(), open(os.devnull, "w") as devnull, contextlib.redirect_stdout(devnull):
            warnings.simplefilter("ignore")
            g = make_graph(fa, req)
    except C5.BuildSkip as ex:
        return dict(req=req, status="build_skip", why=str(ex)[:100])
    except Exception as ex:  # building / expanding the graph is not this property
        return dict(req=req, status="build_skip", why="%s: %s" % (type(ex).__name__, str(ex)[:100]))
    try:
        with warnings.catch_warnings(record=True) as wlist, open(os.devnull, "w") as devnull, contextlib.redirect_stdout(devnull):
            warnings.simplefilter("always")
            text = g.tostring(target)
    except Exception as ex:
        return dict(req=req, status="declined", why="%s: %s" % (type(ex).__name__, str(ex)[:120]))
    msgs = [str(w.message) for w in wlist]
    res = dict(req=req, status="accepted", text=text,
               warned=dict(undefined_reference=sum(1 for m in msgs if m.startswith("undefined reference")), constant_not_implemented=0))
    proj, exprs = project(g)
    res["proj"] = proj
    # "the printer itself says it cannot render a named constant of this graph" is decided from the live table and the FACT
    # that a warning was issued, never from the wording of the warning (wording is not constrained by the property)
    table = getattr(target, "constant_to_target", {})
    missing = sorted({n["v"].get("name") for n in proj["nodes"] if n["k"] == "constant" and n["v"].get("c") == "named"
                      and table.get(n["v"].get("name"), NotImplemented) is NotImplemented})
    if missing and msgs:
        res["warned"]["constant_not_implemented"] = len(missing)
    if any(p["t"] == "list" for p in proj["params"]) or any(n["k"] in ("list", "item", "len") or n["t"].startswith("list") for n in proj["nodes"]):
        return dict(req=req, status="build_skip", why="list-valued program")
    # (classification aid) arguments whose reference name differs from their own name: an expression named by .reference()
    # that the rewriter reduced to the argument
    res["renamed_args"] = sorted({str(a.ref) for a in g.operands[1:-1] if a.kind == "symbol" and a.ref != str(a.operands[0])})
    res["wild"] = wild_of(fa, tname)
    prog = parse_stablehlo(text) if tname == "stablehlo" else parse_xla(text)
    res["prog"] = dict(params=prog["params"], stmts=prog["stmts"], rows=prog["rows"], ret=prog["ret"])
    res["fname"] = prog["fname"]
    if not align_parameters(res["prog"], [p["name"] for p in proj["params"]]):
        res["status"] = "param_mismatch"
    return res


def align_parameters(prog, graph_names):
    """Parameters correspond by POSITION: a text whose parameters are named differently from the graph's arguments is
    alpha-renamed (parameter list and every occurrence) so that the machine, which identifies a parameter with the
    symbol node of the same name, sees the correspondence.  False when there is no consistent renaming (different
    number of parameters, or a graph name already used for something else in the text)."""
    text_names = [p["name"] for p in prog["params"]]
    if text_names == graph_names:
        return True
    if len(text_names) != len(graph_names) or len(set(text_names)) != len(text_names):
        return False
    ren = {t: g for t, g in zip(text_names, graph_names) if t != g}
    used = {r["s"] for r in prog["rows"] if r["o"] == "var"} | {s["var"] for s in prog["stmts"] if s.get("var")}
    if any(g in used and g not in ren for g in ren.values()):
        return False
    for p in prog["params"]:
        p["name"] = ren.get(p["name"], p["name"])
    for r in prog["rows"]:
        if r["o"] == "var":
            r["s"] = ren.get(r["s"], r["s"])
    for s in prog["stmts"]:
        if s.get("var") in ren:
            s["var"] = ren[s["var"]]
    return True


_FA = None


def _worker(reqs):
    out = []
    for r in reqs:
        try:
            out.append(produce(_FA, r))
        except P.ParseError as ex:
            out.append(dict(req=r, status="parse_error", why=str(ex)[:300]))
    return out


def produce_all(fa, reqs):
    global _FA
    _FA = fa
    tables(fa)
    if len(reqs) <= 4:
        return _worker(reqs)
    import multiprocessing as mp
    chunks = [reqs[i::NWORK * 4] for i in range(NWORK * 4)]
    chunks = [c for c in chunks if c]
    with mp.get_context("fork").Pool(NWORK) as pool:
        parts = pool.map(_worker, chunks)
    res = [r for p in parts for r in p]
    order = {json.dumps(r, sort_keys=True, default=str): i for i, r in enumerate(reqs)}
    res.sort(key=lambda r: order[json.dumps(r["req"], sort_keys=True, default=str)])
    return res


# ------------------------------------------------------------------------------------------
# verdicts
# ------------------------------------------------------------------------------------------
def event_of(r, eid):
    return dict(id=eid, target=r["req"]["target"], nodes=r["proj"]["nodes"], root=r["proj"]["root"], prog=r["prog"], wild=r["wild"],
                warned=r["warned"])


def judge(results, nproc=None):
    """validate all accepted programs -> (programs in event order, tlc result)"""
    acc = [r for r in results if r["status"] == "accepted"]
    uniq = {}
    for r in acc:
        h = hashlib.sha256(json.dumps([r["req"]["target"], r["text"], r["proj"]["nodes"], r["proj"]["root"]], sort_keys=True).encode()).hexdigest()
        r["dup_of"] = uniq.setdefault(h, r) is not r
    todo = [r for r in acc if not r["dup_of"]]
    todo.sort(key=lambda r: -len(r["prog"]["rows"]))
    nproc = nproc or min(tlc.NCPU, 12)
    nchunks = max(1, min(nproc * 2, len(todo)))
    order = [r for c in range(nchunks) for r in todo[c::nchunks]]
    events = []
    for r in order:
        r["eid"] = len(events)
        events.append(event_of(r, r["eid"]))
    chunk = (len(events) + nchunks - 1) // nchunks if events else 1
    res = tlc.validate_events("Trace_PrinterHLO", "Trace.cfg", events, name="hlo", nproc=nproc, chunk=chunk, timeout=7200)
    return order, res


_DUMPED = set()
NAMED_WORDS = {"inf", "nan", "eps", "smallest_subnormal", "largest", "smallest", "posinf", "neginf", "pi", "True", "False"}


def static_keys(r, triples):
    """one key per (clause, what it is about): narrow classes of failing behaviour"""
    tname = r["req"]["target"]
    rows = r["prog"]["rows"]
    likes = {j for row in rows if (row["o"] in SCALAR_LIKE or row["o"].startswith("constlike")) for j in row["v"]}
    ctypes_ = "+".join(sorted({n["t"] for n in r["proj"]["nodes"] if n["k"] in ("constant", "constant_alt") and not n["t"].startswith("alt:")}))
    pycomplex = any(row["o"] == "opaque" and re.search(r"\dj\)?$", row["s"]) for row in rows)

    def subtree(i, acc):
        acc.add(i)
        for c in rows[i - 1]["a"]:
            subtree(c, acc)
        return acc
    pnames = {p["name"] for p in r["proj"]["params"]}
    free = {pre + n["n"] for n in r["proj"]["nodes"] if n["k"] == "symbol" and n["n"] not in pnames for pre in ("", "symbol_")}
    # names the two constant contexts (main / alternative) both gave to an expression, and whether the text uses one
    shared_refs = set(r["proj"].get("shared_refs", ()))
    shared_used = any(q["o"] == "var" and q["s"] in shared_refs for q in rows)

    def alt_generated(w):
        # a name generated by expanding a definition (_<name>_<call count>_) in a request that uses the alternative constant
        # context: both contexts count their calls from 0, so the same generated name exists in both (same known defect;
        # in a request without the alternative context such a clash is NOT attributed to it)
        return str(r["req"].get("ctx", "")).startswith("alt:") and re.match(r"^_+[A-Za-z]\w*?_\d+_$", w) is not None

    def alt_var(w):      # a variable of the alternative context: declared with the constant type, not as an XlaOp
        return any(st["op"] == "assign" and st["var"] == w and st["ty"] not in ("", "XlaOp", "xla::XlaOp") for st in r["prog"]["stmts"])
    out = {}
    failing = {t[1] for t in triples}
    tainted = {t[1] for t in triples if t[0] == "distinct_share"}
    if tainted:
        defs = {}
        for st in r["prog"]["stmts"]:
            if st["op"] == "assign":
                defs.setdefault(st["var"], []).append(st["t"])
        for k, q in enumerate(rows, 1):       # children come before parents, definitions before uses
            if any(c in tainted for c in q["a"]) or (q["o"] == "var" and any(t in tainted for t in defs.get(q["s"], ()))):
                tainted.add(k)
    for clause, row, what in triples:
        o = rows[row - 1] if row else None
        if clause in ("constant_value", "constant_type", "operator") and o and pycomplex and (
                any(rows[k - 1]["o"] == "opaque" for k in subtree(row, set())) or o["o"] in ("lit", "un:-", "un:+")):
            # a Python complex value printed by repr, e.g. (0.25+0j): not an expression of the target language
            clause, detail = "constant_value", "python complex repr"
        elif clause in ("constant_value", "constant_type", "constant_like"):
            detail = o["o"] if o else str(what)
            if o and o["a"]:
                c = rows[o["a"][0] - 1]
                detail += "(%s)" % ("literal" if c["o"] in ("lit", "un:-", "un:+") else c["o"] if c["o"] != "var" else "name " + c["s"])
            detail += "@" + ctypes_
        elif clause == "distinct_share":
            w = str(what)
            detail = "variable " + ("constant_<value>" if w.startswith("constant_") else
                                    "named in both constant contexts" if (w in shared_refs or (shared_used and alt_var(w)) or alt_generated(w)) else "other")
        elif clause == "def_before_use":
            # (a Python spelling of a constant is keyed with the constant context of the request: the alternative context
            # prints constants through the cpp target, the plain one through the xla printer itself)
            detail = (what + ("@alt" if str(r["req"].get("ctx", "")).startswith("alt:") else "")) if what in NAMED_WORDS else ("argument renamed in the body only" if what in r.get("renamed_args", ()) else
                                                       "constant without an operand (free symbol)" if (what in free or (free and row in likes)) else
                                                       "var" if row not in likes else "operand a constant is attached to")
        elif clause in ("single_assignment", "declared_type"):
            detail = "param" if what in [p["name"] for p in r["prog"]["params"]] else ("return" if what == "return" else "var")
        elif clause == "operator" and o and row in tainted and any(q["o"] == o["o"] and k + 1 not in failing for k, q in enumerate(rows)):
            # the operator is spelt as elsewhere in the same text where it is accepted, and the term contains (directly or through
            # assigned variables) a term reported as distinct_share: it sits above a variable that two nodes share
            detail = "above a shared variable"
        else:
            detail = str(what)
        out.setdefault("%s:%s:%s" % (tname, clause, detail), []).append([clause, row, what])
    return out


def describe(req):
    ctx = (" [%s]" % req["ctx"]) if req["target"] == "xla_client" else ""
    simp = "" if req.get("simplify", True) else " (no simplification)"
    if req["src"] == "shipped":
        return "%s(%s)%s%s" % (req["func"], ",".join(req["sig"]), ctx, simp)
    return "%s v%s %s%s%s" % (req["src"], req.get("variant", 0), json.dumps(req["term"], separators=(",", ":")), ctx, simp)


def collect(chk, order, res):
    byid = {r["eid"]: r for r in order}
    notes = {}
    for eid, n in res["notes"]:
        v = tlaval.parse(n)
        notes.setdefault(eid, {})[v[0]] = v
    warned_unbound = 0
    for eid, d in notes.items():
        if "lit_conv" in d:
            raise tlc.MachineryError("host decimal->binary conversion of a literal disagrees with the spec in %s (rows %s)"
                                     % (describe(byid[eid]["req"]), d["lit_conv"][1]))
        if "warned_and_unbound" in d:
            warned_unbound += 1
        if "oversize" in d:
            # only the text-level discipline was judged: never silently
            r = byid[eid]
            if not any(e == eid for e, _ in res["fails"]):
                raise tlc.MachineryError("%s: the emitted text has %s term rows for a graph of %d nodes and is too large to validate"
                                         % (describe(r["req"]), d["oversize"][1], len(r["proj"]["nodes"])))
            chk.note("%s: text of %s term rows for a graph of %d nodes: only single assignment was judged"
                     % (describe(r["req"]), d["oversize"][1], len(r["proj"]["nodes"])))
    for eid, clauses in res["fails"]:
        r = byid[eid]
        d = notes.get(eid, {})
        if "static" not in d:
            raise tlc.MachineryError("failing event without its failure set: %s" % describe(r["req"]))
        triples = C5.set_items(d["static"][1])
        for key, trs in static_keys(r, triples).items():
            chk.fail(key, "%s: %s" % (describe(r["req"]), json.dumps(trs[:3])),
                     dict(request=r["req"], text=r["text"], clauses=clauses, failures=trs))
            want = os.environ.get("C06_DUMP_KEY")
            if want and re.search(want, key) and key not in _DUMPED:   # debugging aid: one failing program per matching class
                _DUMPED.add(key)
                print("DUMP %s\n%s\n%s\n%s" % (key, json.dumps(r["req"]), r["text"], json.dumps(trs[:6])))
    return warned_unbound


# ------------------------------------------------------------------------------------------
# U1: model checks
# ------------------------------------------------------------------------------------------
def tables_module(fa):
    """TargetTablesHLO.tla: the live tables of the two targets as TLA+ data"""
    tabs = tables(fa)
    sh, xc = tabs["stablehlo"], tabs["xla_client"]
    seq = lambda items: "<<%s>>" % ",\n    ".join(items)   # noqa
    skinds = seq("<<%s, %s>>" % (P.tla_value(k), P.tla_value(v)) for k, v in sh["kinds"].items())
    sconsts = seq("<<%s, %s>>" % (P.tla_value(k), P.tla_value(v)) for k, v in sh["constants"].items())
    xkinds = seq("<<%s, %s>>" % (P.tla_value(k), P.tla_value(v)) for k, v in xc["kinds"].items())
    xconsts = seq("<<%s, %s>>" % (P.tla_value(k), P.tla_value(v)) for k, v in xc["constants"].items())
    return ("---- MODULE TargetTablesHLO ----\n(* generated from functional_algorithms/targets/{stablehlo,xla_client}.py at check time *)\n"
            "TablesH == [stablehlo |-> [kinds |-> %s,\n  constants |-> %s],\n xla_client |-> [kinds |-> %s,\n  constants |-> %s]]\n====\n"
            % (skinds, sconsts, xkinds, xconsts))


def check_tables(fa, chk):
    wd = tlc.workdir()
    with open(os.path.join(wd, "TargetTablesHLO.tla"), "w") as f:
        f.write(tables_module(fa))
    for fn in ("MC_TargetTablesHLO.tla", "MC_TargetTablesHLO.cfg"):
        with open(os.path.join(tlc.SPEC, fn)) as f, open(os.path.join(wd, fn), "w") as g:
            g.write(f.read())
    r = tlc.run("MC_TargetTablesHLO", "MC_TargetTablesHLO.cfg", workers=1, cwd=wd, library=tlc.SPEC)
    chk.add_mc("MC_TargetTablesHLO(live tables)", r)
    if not r.finished:
        raise tlc.MachineryError("MC_TargetTablesHLO failed:\n" + r.out[-2500:])
    bad = tlaval.fast_tuples(r.out, "BAD")
    rows = tlaval.fast_tuples(r.out, "ROWS")
    info = tlaval.fast_tuples(r.out, "INFO")
    if len(rows) != 2:
        raise tlc.MachineryError("MC_TargetTablesHLO did not report both targets:\n" + r.out[-1500:])
    chk.cov["table_entries_judged"] = {x[1]: dict(kinds=x[2], constants=x[3]) for x in rows}
    chk.cov["table_entries_not_judged"] = sorted({"%s:%s:%s" % (x[1], x[2], x[3]) for x in info})
    for b in bad:
        _, tname, table, name = b[:4]
        detail = " ".join(str(x) for x in b[4:])
        chk.fail("table:%s:%s:%s" % (tname, table, name),
                 "%s target, %s table entry %s is not what the dialect / client API defines: %s" % (tname, table, name, detail),
                 dict(table=True, target=tname, entry=name, detail=detail))
    return len(bad)


def check_algorithm(chk, tier):
    cfg = "MC_PrinterHLO.cfg" if tier == "quick" else "MC_PrinterHLO_5.cfg"
    r = tlc.run("MC_PrinterHLO", cfg, workers=min(NWORK, 8))
    chk.add_mc(cfg, r)
    if not r.finished and not r.invariant_violated:
        raise tlc.MachineryError("MC_PrinterHLO failed:\n" + r.out[-2500:])
    if r.invariant_violated:
        chk.drift_note("the transcribed StableHLO printing policy violates the machine on a small DAG:\n" + r.error_trace()[:1500])
    r2 = tlc.run("MC_PrinterHLO", "MC_PrinterHLO_alias.cfg", workers=2)
    chk.add_mc("MC_PrinterHLO_alias.cfg (must be violated)", r2)
    if "SoundS" not in r2.invariant_violated:
        raise tlc.MachineryError("vacuous model: two nodes sharing a reference name are not rejected by the machine")


# ------------------------------------------------------------------------------------------
# U2: TLC's generators
# ------------------------------------------------------------------------------------------
def generated_requests(chk, tier, seed):
    quick = tier == "quick"
    rng = random.Random(seed)
    reqs = []

    def add(src, terms, variants=(0, 1), frac=1.0, both_ctx=False):
        for i, t in enumerate(terms):
            if frac < 1.0 and rng.random() > frac:
                continue
            for tname in TARGETS:
                for v in (variants if tname == "stablehlo" else (0,)):
                    if tname == "xla_client":
                        ctxs = ("alt:FloatType", "plain") if (both_ctx or not quick) else (("alt:FloatType",) if (i + v) % 2 == 0 else ("plain",))
                    else:
                        ctxs = ("plain",)
                    for c in ctxs:
                        reqs.append(dict(src=src, target=tname, term=t, variant=v, ctx=c, simplify=(i % 3 != 0)))

    for gen in ("attach", "compare", "native", "share"):
        add("HLOTerms." + gen, C5.gen_terms("HLOTerms", "HLOTerms.cfg", gen, chk), variants=(0,) if quick else (0, 1, 2), both_ctx=True)
    kinds = C5.gen_terms("PrinterTerms", "PrinterTerms.cfg", "kinds", chk)
    add("PrinterTerms.kinds", kinds, variants=(0,) if quick else (0, 1, 2))
    consts = C5.gen_terms("PrinterTerms", "PrinterTerms.cfg", "consts", chk)
    add("PrinterTerms.consts", consts, variants=(0, 2) if quick else (0, 1, 2), frac=0.5 if quick else 1.0)
    dags = C5.gen_terms("PrinterTerms", "PrinterTerms.cfg", "dags", chk)
    add("PrinterTerms.dags", dags, variants=(0,), frac=0.15 if quick else 1.0)
    rnd = C5.gen_terms("PrinterTerms", "PrinterTerms.cfg", "random", chk,
                       subst=[(r"NumRandom = \d+", "NumRandom = %d" % (120 if quick else 4000)), (r"MaxDepth = \d+", "MaxDepth = %d" % (4 if quick else 5)),
                              (r"Seed = \d+", "Seed = %d" % (seed % 1000000))], seed=seed + 3)
    add("PrinterTerms.random", rnd, variants=(0,) if quick else (0, 2))
    small = C5.gen_terms("FATerms", "FATerms.cfg", "small", chk, subst=[(r"MaxOps = \d+", "MaxOps = %d" % (1 if quick else 2))])
    add("FATerms.small", small, variants=(0,), frac=0.5 if quick else 0.1)
    ops1 = C5.gen_terms("TypedTerms", "TypedTerms.cfg", "ops1", chk)
    add("TypedTerms.ops1", ops1, variants=(0,), frac=0.03 if quick else 1.0)
    if not quick:
        ops2 = C5.gen_terms("TypedTerms", "TypedTerms.cfg", "ops2", chk)
        add("TypedTerms.ops2", ops2, variants=(0,), frac=0.07)
    return reqs


# ------------------------------------------------------------------------------------------
# run / replay
# ------------------------------------------------------------------------------------------
ROUND = 12000


def run(tier, seed):
    fa = import_repo()
    chk = Check(PID, tier, seed, level="translation_validation")
    t0 = time.time()

    def phase(name):
        print("phase %-44s %6.1fs" % (name, time.time() - t0))
        sys.stdout.flush()
    check_algorithm(chk, tier)
    check_tables(fa, chk)
    phase("U1 model checks")
    reqs = shipped_requests(fa) + generated_requests(chk, tier, seed)
    phase("TLC generators (%d requests)" % len(reqs))
    stat, declined = {}, {}
    covk = {t: set() for t in TARGETS}
    covt = {t: set() for t in TARGETS}
    covc = {t: set() for t in TARGETS}
    tot = dict(programs=0, validated=0, warned_unbound=0, undefined_reference_warnings=0)
    texts = set()
    tr = dict(fails=[], notes=[], states=0, transitions=0, chunks=0, wall=0.0)
    sample_prog = {}
    rounds = [reqs[i:i + ROUND] for i in range(0, len(reqs), ROUND)]
    for ri, rreqs in enumerate(rounds):
        results = produce_all(fa, rreqs)
        for r in results:
            if r["status"] == "accepted" and r["warned"]["constant_not_implemented"]:
                # the printer itself says it cannot render a named constant of this graph: the target does not accept it
                r["status"] = "declined_with_warning"
            stat.setdefault(r["req"]["src"], {}).setdefault(r["req"]["target"], {}).setdefault(r["status"], 0)
            stat[r["req"]["src"]][r["req"]["target"]][r["status"]] += 1
            if r["status"] == "declined":
                k = "%s:%s" % (r["req"]["target"], r["why"].split(":")[0])
                declined[k] = declined.get(k, 0) + 1
        perr = [r for r in results if r["status"] == "parse_error"]
        if perr:
            raise tlc.MachineryError("the independent parser cannot parse an emitted text (%d programs), e.g. %s: %s"
                                     % (len(perr), describe(perr[0]["req"]), perr[0]["why"]))
        for r in results:
            if r["status"] == "param_mismatch":
                chk.fail("%s:parameters" % r["req"]["target"], "%s: parameter list of the text differs from the graph's arguments" % describe(r["req"]),
                         dict(request=r["req"], text=r["text"]))
        order, res = judge(results)
        acc = [r for r in results if r["status"] == "accepted"]
        for k in ("states", "transitions", "chunks", "wall"):
            tr[k] += res[k]
        tr["fails"] += res["fails"]
        tot["warned_unbound"] += collect(chk, order, res)
        tot["programs"] += len(acc)
        tot["validated"] += len(order)
        for r in acc:
            t = r["req"]["target"]
            tot["undefined_reference_warnings"] += r["warned"]["undefined_reference"]
            if sum(1 for s in r["prog"]["stmts"] if s["op"] == "assign") >= 1 or len(r["proj"]["nodes"]) >= 4:
                texts.add(hashlib.sha256((t + r["text"]).encode()).digest()[:12])
            for n in r["proj"]["nodes"]:
                covk[t].add(("alt:" if n["t"].startswith("alt:") else "") + n["k"])
                covt[t].add(n["t"])
                if n["v"]["c"] == "named":
                    covc[t].add(n["v"]["name"])
        for r in order:
            t = r["req"]["target"]
            if t not in sample_prog and 6 <= len(r["proj"]["nodes"]) <= 14 and any(s["op"] == "assign" for s in r["prog"]["stmts"]):
                sample_prog[t] = dict(request=r["req"], text=r["text"], nodes=len(r["proj"]["nodes"]), statements=r["prog"]["stmts"])
        phase("round %d/%d: %d requests, %d programs judged" % (ri + 1, len(rounds), len(rreqs), len(order)))
        del results, order, res, acc
    chk.add_trace("Trace_PrinterHLO", tr, tot["programs"], ntraces=tot["validated"])
    tabs = tables(fa)
    chk.cov["requests"] = stat
    chk.cov["declined_by_exception_class"] = declined
    chk.cov["kinds_printed"] = {t: sorted(covk[t]) for t in TARGETS}
    chk.cov["dtypes_printed"] = {t: sorted(covt[t]) for t in TARGETS}
    chk.cov["named_constants_printed"] = {t: sorted(covc[t]) for t in TARGETS}
    chk.cov["kinds_declared_not_printed"] = {
        "stablehlo": sorted(k for k, v in tabs["stablehlo"]["kinds"].items() if v and k not in covk["stablehlo"]),
        "xla_client": sorted(k for k, v in tabs["xla_client"]["kinds"].items() if v["o"] != "none" and k not in covk["xla_client"])}
    chk.cov["wild_carded_kinds"] = dict({t: sorted(SPEC_WILD[t]) for t in TARGETS}, **{"xla_client alternative (C++) context": sorted(CPP_WILD)})
    chk.cov["printer_warnings"] = dict(undefined_reference=tot["undefined_reference_warnings"], of_which_text_references_unbound_name=tot["warned_unbound"])
    classes = {}
    for key, what, rp in chk.violations:
        classes[key] = classes.get(key, 0) + 1
    for key, v in chk.known_hit.items():
        classes[key] = v[1]
    chk.cov["failure_classes"] = dict(sorted(classes.items()))
    for t in TARGETS:
        if t in sample_prog:
            chk.sample(sample_prog[t])
    chk.assumptions += [
        "nothing is executed: the verdict is about the emitted text against the graph (translation validation); the operation tables are the spec's own "
        "(FAPrinterHLO!ImplH: StableHLO / CHLO operation names in TableGen spelling, xla:: client API function names incl. the overloaded operators)",
        "a graph is 'accepted' by a target when rewrite(target) and tostring(target) return without raising AND the printer emitted no "
        "`constant ... not implemented` warning (such programs are counted as declined_with_warning, not judged); list-valued programs are not covered",
        "StableHLO `(Op:$ref ...)` is read as the binding of ref at the place where the term ends in print order, followed by a use; a `$ref` before that place is unbound",
        "leniencies: a constant may be attached to ANY defined term of the constant's element type (not necessarily the graph's `like` node); constants of equal value and "
        "element type are one sub-expression; numbers are compared after conversion to the node's element format (for a template type parameter: the number itself), "
        "named constants by name; the comparison-type attribute must be absent or STABLEHLO_DEFAULT_COMPARISON_TYPE; unary plus is the operand itself; wild-carded kinds "
        "(xla_client round/log2/log10; sign/round/remainder in the C++ constant context) are matched against the package's own template; a term above an undefined name is not judged again",
        "node static types are taken from Expr.get_type() (their correctness is C08's subject); the C++ typing clauses of C05 are not applied to expressions of the alternative constant context",
        "decimal literals are converted by Python's float() in the parser and re-verified by DecIsRN in the spec",
    ]
    return chk.finish(rule="programs = every shipped (function, signature) of trace_arguments accepted by the target (stablehlo; xla_client under enable_alt with "
                           "default_constant_type FloatType / DType2 and without the alternative context) x {with, without} the simplifying rewrite, plus TLC-generated terms "
                           "(HLOTerms attach/compare/native/share, PrinterTerms kinds/consts/dags/random, FATerms small, TypedTerms ops1/ops2) x target x dtype variant x context; "
                           "non-trivial = distinct emitted texts with at least one binding / assignment or >= 4 graph nodes",
                      distinct_nontrivial=len(texts),
                      extra_cov=dict(programs=tot["programs"], distinct_programs_validated=tot["validated"]))


def replay(path):
    fa = import_repo()
    with open(path) as f:
        rp = json.load(f)["replay"]
    chk = Check(PID, "quick", 0, level="translation_validation")
    if rp.get("table"):
        n = check_tables(fa, chk)
        for v in chk.violations:
            print("VIOLATION property=%s replay=%s  # %s" % (PID, path, v[1]))
        return 1 if n else 0
    req = rp["request"]
    results = produce_all(fa, [req])
    r = results[0]
    print("status:", r["status"], r.get("why", ""))
    if r["status"] == "param_mismatch":
        print(r["text"])
        print("VIOLATION property=%s replay=%s  # parameter list of the text differs from the graph's arguments" % (PID, path))
        return 1
    if r["status"] != "accepted":
        return 0
    print(r["text"])
    order, res = judge(results, nproc=1)
    for eid, n in res["notes"]:
        print("NOTE", n[:2000])
    for eid, clauses in res["fails"]:
        print("VIOLATION property=%s replay=%s  # clauses %s" % (PID, path, clauses))
    return 1 if res["fails"] else 0
