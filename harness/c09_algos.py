"""User-defined algorithms (outside the package) used as C09 generation requests: composites
that expand the same package definition more than once in one function."""


def two_hypots(ctx, x, y, z):
    return ctx.hypot(x, y) + ctx.hypot(y, z)


def nested_hypot(ctx, x, y, z):
    h = ctx.hypot(x, y)
    return ctx(ctx.hypot(h, z))


def sum_of_squares_roots(ctx, x, y):
    a = ctx.sqrt(ctx.square(x) + ctx.square(y))
    b = ctx.sqrt(ctx.square(y) + ctx.square(x))
    return ctx(a * b)


def asinh_twice(ctx, x, y):
    return ctx.asinh(x) - ctx.asinh(y)


def log1p_pair(ctx, z, w):
    return ctx.log1p(z) * ctx.log1p(w)


def select_mix(ctx, x, y):
    m = ctx.maximum(abs(x), abs(y))
    return ctx(ctx.select(x < y, ctx.hypot(x, y), m + ctx.constant(0.5, x)))
