"""Shared plumbing of the printer checks (C05: python/numpy/cpp; C06 can reuse for stablehlo/xla_client).

Nothing in this file judges anything.  It
  * projects a real functional_algorithms graph into an uninterpreted NODE TABLE
    (id, kind, operand ids in order, static type, symbol name, constant value encoding),
  * parses emitted source text with parsers that are independent of the package
    (Python `ast` for python/numpy text, a recursive-descent parser for the C++ subset)
    into a PROGRAM: parameters, statements and a flat post-order table of term rows,
  * parses the package's template strings (kind_to_target ...) into PATTERNS (nested terms
    with holes) for the table comparison MC_TargetTables and for wild-carded kinds.

Term row  {o, a, s, v}:
  o  operator spelling in the language:  "var" | "lit" | "hole" | "name:<dotted>" | "call:<callee>" |
     "mcall:<method>" | "attr:<name>" | "un:<op>" | "bin:<op>" | "cmp:<op>" | "bool:<op>" | "cond" |
     "index" | "list" | "cast:<type>"
  a  child rows (indices into the table, children before parents; `cond` children are always
     [condition, value-if-true, value-if-false] whatever the concrete syntax order)
  s  var: the identifier; lit: the literal's type in the language ("float", "int", "bool", "imag" for
     Python; "double", "float", "long double", "int", "long", "bool"... for C++)
  v  lit: [dig, e10, bits]: the decimal digits as a natural, the decimal exponent, and the binary
     pattern the host conversion (Python float() = correctly rounded strtod) gives in the literal's
     type - the spec re-verifies bits = RN(dig * 10^e10) itself.  (hole: the hole number is in s.)
"""
import ast
import math
import re

import numpy

from . import bits as B


class ParseError(Exception):
    """The independent parser met a form it does not know: machinery failure, never a violation."""


# ------------------------------------------------------------------------------------------
# term tables
# ------------------------------------------------------------------------------------------
class Rows:
    def __init__(self):
        self.rows = []

    def add(self, o, a=(), s="", v=None):
        self.rows.append(dict(o=o, a=list(a), s=s, v=v if v is not None else []))
        return len(self.rows)  # 1-based

    def nested(self, i):
        r = self.rows[i - 1]
        return dict(o=r["o"], a=[self.nested(j) for j in r["a"]], s=r["s"], v=r["v"])


_DEC = re.compile(r"^(\d*)(?:\.(\d*))?(?:[eE]([+-]?\d+))?$")


def decimal_parts(text):
    m = _DEC.match(text)
    if not m or (not m.group(1) and not m.group(2)):
        raise ParseError("not a decimal literal: %r" % text)
    ip, fp, ex = m.group(1) or "", m.group(2) or "", int(m.group(3) or 0)
    dig = int((ip + fp) or "0")
    e10 = ex - len(fp)
    # strip trailing zeros of the digit string (keeps numbers small)
    while dig and dig % 10 == 0:
        dig //= 10
        e10 += 1
    if dig == 0:
        e10 = 0
    if abs(e10) > 5000 or dig.bit_length() > 4000:
        raise ParseError("literal out of the supported range: %r" % text)
    return dig, e10


def float_literal(text, fmt):
    """v-record of a decimal floating literal of binary format fmt ('float64' / 'float32')."""
    dig, e10 = decimal_parts(text)
    if fmt == "float64":
        x = numpy.float64(float(text))
    elif fmt == "float32":
        # strtof: one correctly rounded conversion (not via double)
        from fractions import Fraction
        fr = Fraction(dig) * (Fraction(10) ** e10)
        x = _round_fraction(fr, "float32")
    else:
        raise ParseError("literal format " + fmt)
    return [B.nat(dig), e10, B.fbits(x, fmt)]


def _round_fraction(fr, fmt):
    """correctly rounded conversion of a non-negative Fraction (host helper for `f` suffixed literals;
    re-verified by the spec's DecIsRN)"""
    p, emax = B.PREC[fmt], B.EMAX[fmt]
    if fr == 0:
        return B.FLOAT[fmt](0)
    e = fr.numerator.bit_length() - fr.denominator.bit_length()
    q = max(e - p, 1 - emax - (p - 1) - 1)
    # scaled = fr / 2^q
    from fractions import Fraction
    sc = fr / (Fraction(2) ** q)
    m = sc.numerator // sc.denominator
    rem = sc - m
    if rem > Fraction(1, 2) or (rem == Fraction(1, 2) and m % 2 == 1):
        m += 1
    # value m * 2^q may need renormalisation; let numpy do exact ldexp of an exactly representable
    # number when m has <= p+1 bits (it may have p+1 bits before the final rounding: loop once more)
    while m.bit_length() > p:
        q2 = m.bit_length() - p
        lo = m & ((1 << q2) - 1)
        m >>= q2
        half = 1 << (q2 - 1)
        if lo > half or (lo == half and m % 2 == 1):
            m += 1
        q += q2
    with numpy.errstate(all="ignore"):
        return B.FLOAT[fmt](numpy.ldexp(numpy.float64(m), q))


def int_literal(n):
    return [B.nat(n), 0, []]


# ------------------------------------------------------------------------------------------
# Python / NumPy text
# ------------------------------------------------------------------------------------------
PY_MODULE_ROOTS = {"math", "numpy", "sys", "warnings"}
_BINOP = {ast.Add: "+", ast.Sub: "-", ast.Mult: "*", ast.Div: "/", ast.Mod: "%", ast.FloorDiv: "//", ast.Pow: "**",
          ast.BitAnd: "&", ast.BitOr: "|", ast.BitXor: "^", ast.LShift: "<<", ast.RShift: ">>", ast.MatMult: "@"}
_UNOP = {ast.USub: "-", ast.UAdd: "+", ast.Not: "not", ast.Invert: "~"}
_CMP = {ast.Lt: "<", ast.LtE: "<=", ast.Gt: ">", ast.GtE: ">=", ast.Eq: "==", ast.NotEq: "!=", ast.Is: "is", ast.IsNot: "is not"}


def _dotted(node):
    """a.b.c with a a Name -> ['a','b','c'] else None"""
    parts = []
    while isinstance(node, ast.Attribute):
        parts.append(node.attr)
        node = node.value
    if isinstance(node, ast.Name):
        parts.append(node.id)
        return parts[::-1]
    return None


class PyParser:
    def __init__(self, text, holes=False):
        self.text = text
        self.rows = Rows()
        self.holes = holes

    def expr(self, n):
        R = self.rows
        if isinstance(n, ast.Name):
            m = re.fullmatch(r"__H(\d+)__", n.id) if self.holes else None
            if m:
                return R.add("hole", s=str(int(m.group(1)) + 1))
            if self.holes and n.id == "__T0__":
                return R.add("name:__T0__")
            if n.id in ("True", "False"):
                return R.add("lit", s="bool", v=int_literal(int(n.id == "True")))
            return R.add("var", s=n.id)
        if isinstance(n, ast.Constant):
            v = n.value
            seg = ast.get_source_segment(self.text, n)
            if isinstance(v, bool):
                return R.add("lit", s="bool", v=int_literal(int(v)))
            if isinstance(v, int):
                return R.add("lit", s="int", v=int_literal(v))
            if isinstance(v, float):
                if seg is None:
                    raise ParseError("float literal without source text")
                return R.add("lit", s="float", v=float_literal(seg.replace("_", ""), "float64"))
            if isinstance(v, complex):
                if seg is None or seg[-1] not in "jJ":
                    raise ParseError("imaginary literal %r" % seg)
                return R.add("lit", s="imag", v=float_literal(seg[:-1].replace("_", ""), "float64"))
            raise ParseError("constant of type %s" % type(v).__name__)
        if isinstance(n, ast.Attribute):
            d = _dotted(n)
            if d is not None and d[0] in PY_MODULE_ROOTS:
                return R.add("name:" + ".".join(d))
            return R.add("attr:" + n.attr, [self.expr(n.value)])
        if isinstance(n, ast.Call):
            if n.keywords:
                raise ParseError("call with keyword arguments: " + ast.unparse(n))
            f = n.func
            d = _dotted(f)
            if d is not None and (len(d) == 1 or d[0] in PY_MODULE_ROOTS):
                args = [self.expr(a) for a in n.args]
                return R.add("call:" + ".".join(d), args)
            if isinstance(f, ast.Attribute):
                obj = self.expr(f.value)
                args = [self.expr(a) for a in n.args]
                return R.add("mcall:" + f.attr, [obj] + args)
            raise ParseError("call of " + ast.unparse(f))
        if isinstance(n, ast.BinOp):
            if type(n.op) not in _BINOP:
                raise ParseError("binary operator " + type(n.op).__name__)
            l, r = self.expr(n.left), self.expr(n.right)
            return R.add("bin:" + _BINOP[type(n.op)], [l, r])
        if isinstance(n, ast.UnaryOp):
            return R.add("un:" + _UNOP[type(n.op)], [self.expr(n.operand)])
        if isinstance(n, ast.BoolOp):
            op = "and" if isinstance(n.op, ast.And) else "or"
            cur = self.expr(n.values[0])
            for v in n.values[1:]:
                nxt = self.expr(v)
                cur = R.add("bool:" + op, [cur, nxt])
            return cur
        if isinstance(n, ast.Compare):
            if len(n.ops) != 1 or type(n.ops[0]) not in _CMP:
                raise ParseError("comparison form " + ast.unparse(n))
            l, r = self.expr(n.left), self.expr(n.comparators[0])
            return R.add("cmp:" + _CMP[type(n.ops[0])], [l, r])
        if isinstance(n, ast.IfExp):
            # evaluation/semantic order: condition, value if true, value if false
            c = self.expr(n.test)
            a = self.expr(n.body)
            b = self.expr(n.orelse)
            return R.add("cond", [c, a, b])
        if isinstance(n, ast.Subscript):
            return R.add("index", [self.expr(n.value), self.expr(n.slice)])
        if isinstance(n, ast.List):
            return R.add("list", [self.expr(e) for e in n.elts])
        raise ParseError("expression form %s: %s" % (type(n).__name__, ast.unparse(n)[:80]))

    def stmts(self, body, out, params):
        for st in body:
            if isinstance(st, ast.With):
                if len(st.items) != 1 or ast.unparse(st.items[0].context_expr) != "warnings.catch_warnings(action='ignore')":
                    raise ParseError("with-statement " + ast.unparse(st.items[0].context_expr))
                self.stmts(st.body, out, params)
            elif isinstance(st, ast.AnnAssign):
                if not isinstance(st.target, ast.Name) or st.value is None:
                    raise ParseError("annotated assignment form")
                out.append(dict(op="assign", var=st.target.id, ty=ast.unparse(st.annotation), t=self.expr(st.value)))
            elif isinstance(st, ast.Assign):
                if len(st.targets) != 1 or not isinstance(st.targets[0], ast.Name):
                    raise ParseError("assignment form " + ast.unparse(st)[:80])
                var = st.targets[0].id
                v = st.value
                # argument cast  p = T(p)
                if (var in params and isinstance(v, ast.Call) and len(v.args) == 1 and isinstance(v.args[0], ast.Name)
                        and v.args[0].id == var and not v.keywords and _dotted(v.func)):
                    out.append(dict(op="cast", var=var, ty=".".join(_dotted(v.func)), t=0))
                else:
                    out.append(dict(op="assign", var=var, ty="", t=self.expr(v)))
            elif isinstance(st, ast.Assert):
                t = st.test
                ok = (isinstance(t, ast.Compare) and len(t.ops) == 1 and isinstance(t.ops[0], ast.Eq)
                      and isinstance(t.left, ast.Attribute) and t.left.attr == "dtype" and isinstance(t.left.value, ast.Name)
                      and _dotted(t.comparators[0]))
                if ok:
                    out.append(dict(op="assert", var=t.left.value.id, ty=".".join(_dotted(t.comparators[0])), t=0))
                else:
                    out.append(dict(op="assert_other", var="", ty=ast.unparse(t)[:100], t=0))
            elif isinstance(st, ast.Return):
                if st.value is None:
                    raise ParseError("bare return")
                out.append(dict(op="return", var="", ty="", t=self.expr(st.value)))
            elif isinstance(st, ast.Expr) and isinstance(st.value, ast.Call) and ast.unparse(st.value.func) == "print":
                out.append(dict(op="print", var="", ty="", t=0))
            elif isinstance(st, ast.Expr) and isinstance(st.value, ast.Constant) and isinstance(st.value.value, str):
                pass  # doc string
            else:
                raise ParseError("statement form %s: %s" % (type(st).__name__, ast.unparse(st)[:80]))


def parse_python(text):
    """Parse one emitted Python/NumPy function definition into a program."""
    try:
        mod = ast.parse(text)
    except SyntaxError as ex:
        return dict(loads=False, error="SyntaxError: %s" % ex, fname="", params=[], ret="", stmts=[], rows=[])
    fdefs = [s for s in mod.body if isinstance(s, ast.FunctionDef)]
    if len(fdefs) != 1 or len(mod.body) != 1:
        raise ParseError("expected exactly one function definition")
    fd = fdefs[0]
    a = fd.args
    if a.vararg or a.kwarg or a.kwonlyargs or a.defaults or a.posonlyargs:
        raise ParseError("parameter list form")
    params = [dict(name=x.arg, ty=ast.unparse(x.annotation) if x.annotation is not None else "") for x in a.args]
    p = PyParser(text)
    out = []
    p.stmts(fd.body, out, {q["name"] for q in params})
    return dict(loads=True, error="", fname=fd.name, params=params, ret=ast.unparse(fd.returns) if fd.returns else "",
                stmts=out, rows=p.rows.rows)


def python_pattern(template_text):
    """nested pattern of a Python template string whose holes were spelt __H0__, __H1__ ..."""
    try:
        e = ast.parse(template_text, mode="eval").body
    except SyntaxError as ex:
        return dict(o="unparsable", a=[], s=template_text, v=[])
    p = PyParser(template_text, holes=True)
    return p.rows.nested(p.expr(e))


# ------------------------------------------------------------------------------------------
# C++ subset
# ------------------------------------------------------------------------------------------
_CPP_TOK = re.compile(r"""
    \s+ | //[^\n]* | /\*.*?\*/
  | (?P<num>(?:0[xX][0-9a-fA-F]+|(?:\d+\.?\d*|\.\d+)(?:[eE][+-]?\d+)?)[fFlLuU]*)
  | (?P<id>[A-Za-z_]\w*(?:::[A-Za-z_]\w*)*)
  | (?P<op><<=|>>=|<<|>>|<=|>=|==|!=|&&|\|\||\+\+|--|->|::|[-+*/%<>=!~&|^?:;,.(){}\[\]])
""", re.X | re.S)

CPP_TYPE_WORDS = {"float", "double", "long", "int", "bool", "unsigned", "signed", "short", "char", "int8_t", "int16_t",
                  "int32_t", "int64_t", "uint8_t", "uint16_t", "uint32_t", "uint64_t", "std::int8_t", "std::int16_t",
                  "std::int32_t", "std::int64_t", "std::complex", "size_t", "auto", "const"}
CPP_TEMPLATES = {"std::complex", "std::numeric_limits", "static_cast", "std::max", "std::min"}
_BINPREC = [("||",), ("&&",), ("|",), ("^",), ("&",), ("==", "!="), ("<", "<=", ">", ">="), ("<<", ">>"), ("+", "-"),
            ("*", "/", "%")]


def cpp_tokens(text):
    out, pos = [], 0
    while pos < len(text):
        m = _CPP_TOK.match(text, pos)
        if not m:
            raise ParseError("C++ lexer: unexpected text %r" % text[pos:pos + 30])
        pos = m.end()
        if m.lastgroup:
            out.append((m.lastgroup, m.group(m.lastgroup)))
    out.append(("eof", ""))
    return out


class CppParser:
    def __init__(self, text, holes=False):
        self.toks = cpp_tokens(text)
        self.i = 0
        self.rows = Rows()
        self.holes = holes

    def peek(self, k=0):
        return self.toks[min(self.i + k, len(self.toks) - 1)]

    def next(self):
        t = self.toks[self.i]
        self.i += 1
        return t

    def accept(self, val):
        if self.peek()[1] == val and self.peek()[0] in ("op", "id"):
            self.i += 1
            return True
        return False

    def expect(self, val):
        if not self.accept(val):
            raise ParseError("C++ parser: expected %r, found %r (token %d)" % (val, self.peek()[1], self.i))

    # ---- types --------------------------------------------------------------------------
    def looks_like_type(self, k=0):
        t = self.peek(k)
        return t[0] == "id" and (t[1] in CPP_TYPE_WORDS or (self.holes and re.fullmatch(r"__T\d+__", t[1])))

    def parse_type(self):
        words = []
        while self.looks_like_type():
            w = self.next()[1]
            if self.peek()[1] == "<":
                self.expect("<")
                inner = [self.parse_type()]
                while self.accept(","):
                    inner.append(self.parse_type())
                self.expect(">")
                w = "%s<%s>" % (w, ", ".join(inner))
            words.append(w)
        if not words:
            raise ParseError("C++ parser: type expected at %r" % (self.peek()[1],))
        return " ".join(words)

    # ---- expressions --------------------------------------------------------------------
    def expr(self):
        c = self.binary(0)
        if self.accept("?"):
            a = self.expr()
            self.expect(":")
            b = self.expr()
            return self.rows.add("cond", [c, a, b])
        return c

    def binary(self, level):
        if level == len(_BINPREC):
            return self.unary()
        l = self.binary(level + 1)
        while self.peek()[0] == "op" and self.peek()[1] in _BINPREC[level]:
            op = self.next()[1]
            r = self.binary(level + 1)
            l = self.rows.add("bin:" + op, [l, r])
        return l

    def unary(self):
        t = self.peek()
        if t[0] == "op" and t[1] in ("-", "+", "!", "~"):
            self.next()
            return self.rows.add("un:" + t[1], [self.unary()])
        # C-style cast  (type)(expr) / (type)expr
        if t[1] == "(" and t[0] == "op" and self.looks_like_type(1):
            save = self.i
            self.next()
            try:
                ty = self.parse_type()
                if self.accept(")"):
                    return self.rows.add("cast:" + ty, [self.unary()])
            except ParseError:
                pass
            self.i = save
        return self.postfix()

    def args(self):
        out = []
        self.expect("(")
        if self.accept(")"):
            return out
        out.append(self.expr())
        while self.accept(","):
            out.append(self.expr())
        self.expect(")")
        return out

    def postfix(self):
        e = self.primary()
        while True:
            if self.peek() == ("op", "."):
                self.next()
                name = self.next()
                if name[0] != "id":
                    raise ParseError("C++ parser: member name expected")
                if self.peek() == ("op", "("):
                    e = self.rows.add("mcall:" + name[1], [e] + self.args())
                else:
                    e = self.rows.add("attr:" + name[1], [e])
            elif self.peek() == ("op", "["):
                self.next()
                ix = self.expr()
                self.expect("]")
                e = self.rows.add("index", [e, ix])
            else:
                return e

    def number(self, text):
        m = re.fullmatch(r"(.*?)([fFlLuU]*)", text)
        body, suf = m.group(1), m.group(2).lower()
        if body.lower().startswith("0x"):
            if suf.strip("ul"):
                raise ParseError("hex literal suffix " + text)
            return self.rows.add("lit", s="int", v=int_literal(int(body, 16)))
        isfloat = any(c in body for c in ".eE")
        if not isfloat:
            if "f" in suf:
                raise ParseError("integer literal with f suffix " + text)
            ty = {"": "int", "l": "long", "ll": "long long", "u": "unsigned", "ul": "unsigned long", "ull": "unsigned long long",
                  "lu": "unsigned long", "llu": "unsigned long long"}.get(suf)
            if ty is None:
                raise ParseError("integer literal suffix " + text)
            return self.rows.add("lit", s=ty, v=int_literal(int(body)))
        if suf == "":
            return self.rows.add("lit", s="double", v=float_literal(body, "float64"))
        if suf == "f":
            return self.rows.add("lit", s="float", v=float_literal(body, "float32"))
        if suf == "l":
            # value logged at double precision only: the spec treats `long double` literals as unsupported
            return self.rows.add("lit", s="long double", v=float_literal(body, "float64"))
        raise ParseError("floating literal suffix " + text)

    def primary(self):
        t = self.next()
        if t[0] == "num":
            return self.number(t[1])
        if t == ("op", "("):
            e = self.expr()
            self.expect(")")
            return e
        if t[0] == "id":
            name = t[1]
            if self.holes:
                m = re.fullmatch(r"__H(\d+)__", name)
                if m:
                    return self.rows.add("hole", s=str(int(m.group(1)) + 1))
            if name in ("true", "false"):
                return self.rows.add("lit", s="bool", v=int_literal(int(name == "true")))
            # template arguments
            if self.peek() == ("op", "<") and (name in CPP_TEMPLATES or self.looks_like_type(1)) and self.template_ahead():
                self.next()
                inner = [self.parse_type()]
                while self.accept(","):
                    inner.append(self.parse_type())
                self.expect(">")
                name = "%s<%s>" % (name, ", ".join(inner))
                if self.peek() == ("op", "::"):
                    self.next()
                    nm = self.next()
                    if nm[0] != "id":
                        raise ParseError("C++ parser: name expected after ::")
                    name += "::" + nm[1]
                if name.startswith("static_cast<"):
                    a = self.args()
                    if len(a) != 1:
                        raise ParseError("static_cast arity")
                    return self.rows.add("cast:" + name[len("static_cast<"):-1], a)
            if self.peek() == ("op", "("):
                a = self.args()
                if name in CPP_TYPE_WORDS and len(a) == 1:
                    return self.rows.add("cast:" + name, a)
                return self.rows.add("call:" + name, a)
            if "::" in name or name.isupper():
                return self.rows.add("name:" + name)
            return self.rows.add("var", s=name)
        raise ParseError("C++ parser: unexpected token %r" % (t[1],))

    def template_ahead(self):
        """after `name`, at '<': is it  < type [, type]* >  ?"""
        save = self.i
        try:
            self.next()
            self.parse_type()
            while self.accept(","):
                self.parse_type()
            ok = self.peek() == ("op", ">")
        except ParseError:
            ok = False
        self.i = save
        return ok

    # ---- function -----------------------------------------------------------------------
    def function(self):
        ret = self.parse_type()
        nm = self.next()
        if nm[0] != "id":
            raise ParseError("C++ parser: function name expected")
        self.expect("(")
        params = []
        if not self.accept(")"):
            while True:
                ty = self.parse_type()
                p = self.next()
                if p[0] != "id":
                    raise ParseError("C++ parser: parameter name expected")
                params.append(dict(name=p[1], ty=ty))
                if self.accept(")"):
                    break
                self.expect(",")
        self.expect("{")
        stmts = []
        while not self.accept("}"):
            if self.accept("return"):
                e = self.expr()
                self.expect(";")
                stmts.append(dict(op="return", var="", ty="", t=e))
            elif self.looks_like_type():
                ty = self.parse_type()
                v = self.next()
                if v[0] != "id":
                    raise ParseError("C++ parser: variable name expected after type %s" % ty)
                self.expect("=")
                e = self.expr()
                self.expect(";")
                stmts.append(dict(op="assign", var=v[1], ty=ty, t=e))
            else:
                raise ParseError("C++ parser: statement form at %r" % (self.peek()[1],))
        if self.peek()[0] != "eof":
            raise ParseError("C++ parser: text after the function body")
        return dict(loads=True, error="", fname=nm[1], params=params, ret=ret, stmts=stmts, rows=self.rows.rows)


def parse_cpp(text):
    return CppParser(text).function()


def cpp_pattern(template_text):
    try:
        p = CppParser(template_text, holes=True)
        e = p.expr()
        if p.peek()[0] != "eof":
            raise ParseError("trailing text")
    except ParseError:
        return dict(o="unparsable", a=[], s=template_text, v=[])
    return p.rows.nested(e)


# ------------------------------------------------------------------------------------------
# package tables -> patterns
# ------------------------------------------------------------------------------------------
def template_pattern(lang, tmpl):
    """pattern of one entry of kind_to_target / constant_to_target (lang: 'python' or 'cpp' syntax)"""
    if tmpl is NotImplemented or tmpl is None:
        return dict(o="none", a=[], s="", v=[])
    if callable(tmpl):
        return dict(o="callable", a=[], s=getattr(tmpl, "__name__", ""), v=[])
    if not isinstance(tmpl, str):
        return dict(o="unparsable", a=[], s=repr(tmpl), v=[])
    try:
        txt = _format(tmpl)
    except Exception as ex:  # noqa
        return dict(o="unparsable", a=[], s=tmpl, v=[])
    return python_pattern(txt) if lang == "python" else cpp_pattern(txt)


def _format(tmpl):
    import string
    out = []
    for lit, field, spec, conv in string.Formatter().parse(tmpl):
        out.append(lit)
        if field is None:
            continue
        if spec or conv:
            raise ValueError("format spec")
        if field.isdigit():
            out.append("__H%s__" % field)
        elif field.startswith("typeof") or field == "type":
            out.append("__T0__")
        else:
            raise ValueError("unknown field " + field)
    return "".join(out)


def extract_tables(target_module, lang):
    """{'kinds': {kind: pattern}, 'constants': {name: pattern}, 'types': {type: str}} of a target module"""
    out = dict(kinds={}, constants={}, types={})
    for k, v in sorted(getattr(target_module, "kind_to_target", {}).items()):
        out["kinds"][k] = template_pattern(lang, v)
    for k, v in sorted(getattr(target_module, "constant_to_target", {}).items()):
        out["constants"][k] = template_pattern(lang, v)
    tt = getattr(target_module, "type_to_target", None) or getattr(getattr(target_module, "Printer", None), "type_to_target", {})
    for k, v in sorted(tt.items()):
        out["types"][k] = str(v)
    return out


def tla_value(x):
    """Python JSON-like value -> TLA+ text"""
    if isinstance(x, bool):
        return "TRUE" if x else "FALSE"
    if isinstance(x, int):
        return str(x)
    if isinstance(x, str):
        return '"%s"' % x.replace("\\", "\\\\").replace('"', '\\"')
    if isinstance(x, (list, tuple)):
        return "<<%s>>" % ", ".join(tla_value(y) for y in x)
    if isinstance(x, dict):
        if not x:
            return "<<>>"
        return "[%s]" % ", ".join("%s |-> %s" % (k, tla_value(v)) for k, v in x.items())
    raise TypeError(type(x))


# ------------------------------------------------------------------------------------------
# graph -> node table
# ------------------------------------------------------------------------------------------
NOV = dict(c="", neg=0, mag=[], fmt="", bits=[], name="", im=[])


def value_encoding(v):
    """uninterpreted encoding of the Python object stored in a constant node"""
    if isinstance(v, (bool, numpy.bool_)):
        return dict(NOV, c="bool", mag=B.nat(int(bool(v))))
    if isinstance(v, (int, numpy.integer)):
        v = int(v)
        return dict(NOV, c="int", neg=int(v < 0), mag=B.nat(abs(v)))
    if isinstance(v, float):
        return dict(NOV, c="float", fmt="float64", bits=B.fbits(numpy.float64(v), "float64"))
    if isinstance(v, numpy.floating):
        name = v.dtype.name
        if name not in B.WIDTH:
            return dict(NOV, c="unsupported", name=name)
        return dict(NOV, c="float", fmt=name, bits=B.fbits(v, name))
    if isinstance(v, (complex, numpy.complexfloating)):
        if isinstance(v, complex):
            fmt, re_, im_ = "float64", numpy.float64(v.real), numpy.float64(v.imag)
        else:
            fmt = {"complex64": "float32", "complex128": "float64"}.get(v.dtype.name)
            if fmt is None:
                return dict(NOV, c="unsupported", name=v.dtype.name)
            re_, im_ = v.real, v.imag
        return dict(NOV, c="complex", fmt=fmt, bits=B.fbits(re_, fmt), im=B.fbits(im_, fmt))
    if isinstance(v, str):
        return dict(NOV, c="named", name=v)
    return dict(NOV, c="unsupported", name=type(v).__name__)


_ALT_NP = dict(float16=numpy.float16, float32=numpy.float32, float64=numpy.float64, float=numpy.float64,
               complex64=numpy.complex64, complex128=numpy.complex128, complex=numpy.complex128,
               integer8=numpy.int8, integer16=numpy.int16, integer32=numpy.int32, integer64=numpy.int64, integer=numpy.int64)


def alt_value(val):
    """the number an alternative-context constant expression denotes, in its own type (a NumPy scalar), or None"""
    from functional_algorithms.expr import Expr
    if not (isinstance(val, Expr) and val.kind == "constant"):
        return None
    raw = val.operands[0]
    if isinstance(raw, (Expr, str, bool, numpy.bool_)) or not isinstance(raw, (int, float, complex, numpy.number)):
        return None
    try:
        t = _ALT_NP.get(str(val.get_type()))
        with numpy.errstate(all="ignore"):
            return None if t is None else t(raw)
    except Exception:  # noqa
        return None


def project(graph):
    """apply-expression -> dict(fname, params, nodes, root).  Node ids are 1-based positions in
    `nodes`, operands before users.  Identity is object identity of the real Expr objects."""
    from functional_algorithms.expr import Expr
    assert graph.kind == "apply", graph.kind
    fname = graph.operands[0]
    fname = fname.operands[0] if isinstance(fname, Expr) else str(fname)
    args = graph.operands[1:-1]
    body = graph.operands[-1]
    nodes, ids, exprs = [], {}, []

    def visit(e):
        if id(e) in ids:
            return ids[id(e)]
        k = e.kind
        if k == "symbol":
            rec = dict(k="symbol", a=[], t=str(e.operands[1]), n=str(e.operands[0]), v=dict(NOV))
        elif k == "constant":
            val = e.operands[0]
            if isinstance(val, Expr):
                # a constant of an enable_alt context: its value is an expression of the alternative context.  When that is a
                # plain numeric constant the node denotes "that number in the alternative type, converted to the node's type"
                av = alt_value(val)
                if av is not None and str(e.get_type()).startswith("complex") != isinstance(av, numpy.complexfloating):
                    av = None      # a real alternative constant in a complex node (or vice versa): the denotation of the mixed
                                   # operation (real scalar vs complex with a zero part) is not fixed by the graph - not judged
                if av is None:
                    rec = dict(k="constant", a=[], t=str(e.get_type()), n="", v=dict(NOV, c="unsupported", name="alt-context expression"))
                else:
                    t = str(e.get_type())
                    v = value_encoding(av)
                    if t.startswith("integer") and v["c"] in ("float", "complex"):
                        v = dict(NOV, c="unsupported", name="float value in an integer-typed constant")
                    rec = dict(k="constant", a=[], t=t, n="", v=v)
            else:
                t = str(e.get_type())
                v = value_encoding(val)
                if t.startswith("integer") and v["c"] in ("float", "complex"):
                    # ill-typed by construction (a float value with an integer like, produced by constant folding): not judged
                    v = dict(NOV, c="unsupported", name="float value in an integer-typed constant")
                rec = dict(k="constant", a=[], t=t, n="", v=v)
        else:
            ops = [visit(o) for o in e.operands]
            try:
                t = str(e.get_type())
            except NotImplementedError:
                t = "unknown"
            rec = dict(k=k, a=ops, t=t, n="", v=dict(NOV))
        nodes.append(rec)
        exprs.append(e)
        ids[id(e)] = len(nodes)
        return len(nodes)

    import sys
    old = sys.getrecursionlimit()
    sys.setrecursionlimit(max(old, 20000))
    try:
        root = visit(body)
        params = []
        for a in args:
            if a.kind != "symbol":
                params.append(dict(name=str(a.ref), t="list", node=0))
                continue
            params.append(dict(name=str(a.operands[0]), t=str(a.operands[1]), node=ids.get(id(a), 0)))
    finally:
        sys.setrecursionlimit(old)
    return dict(fname=fname, params=params, nodes=nodes, root=root), exprs
