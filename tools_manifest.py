#!/venv/bin/python
"""Regenerate MANIFEST.json from the table below (keeps it valid at all times)."""
import json, os
HERE = os.path.dirname(os.path.abspath(__file__))
props = [json.loads(l) for l in open(os.path.join(HERE, "properties.jsonl"))]
ids = [p["id"] for p in props]

CHECKS = {
 "C18": dict(
    category="model_checking",
    technique="TLA+ spec Mxcsr.tla model-checked by TLC; TLC-enumerated behaviours replayed on the real MXCSRRegister; recorded steps validated by Trace_Mxcsr.tla",
    text="TLC exhausts Mxcsr.tla (3 context objects, 18 requests, nesting 3, exceptions at any depth, re-entry, hardware flag noise) for OnlyRequestedBits/ExitRestores/BalancedIsIdentity/NestIsComposition; every behaviour TLC enumerates up to the stated length plus simulated walks over all 45 requests is driven through real with-statements, decorators and explicit protocol calls with real exception propagation, and every step (register word before/after read by an independent stub, arithmetic effects of FZ/DAZ/RC) is validated clause by clause by the trace spec. Histories are enumerated, not sampled, up to the bound.",
    note="Trusted: TLC, the harness's _mm_getcsr stub, NumPy float32 scalar arithmetic executing SSE instructions. Sticky status flags are treated as environment noise between steps. Bounds: nesting <= 3, behaviour length <= 7 (quick) / 9 (thorough).",
    design="6/C18"),

 "C07": dict(
    category="model_checking",
    technique="TLA+ spec FAContext.tla (hash-consing registry, key scheme vs structural identity) model-checked by TLC; TLC-enumerated construction histories replayed into a real Context; every construction validated by Trace_Context.tla",
    text="TLC exhausts FAContext.tla (all histories of <= 4 constructions over 3 symbols, 14 Python values incl. 0.0/-0.0, 1/1.0/True, numpy scalars, NaN objects, named constants; kinds negative/subtract/lt/select) for NoAlias and Canonical; every enumerated history, simulated 12-step histories over a larger alphabet, and TLC-enumerated shapes of confusable value pairs (neighbours, regrouped bytes, equal hash, equal int, cross-type...) are replayed into a fresh Context and each returned object is judged by the trace spec: structure equals the request and it is an earlier object iff the requests are structurally equal (requests are compared with requests, never with what the object claims).",
    note="Trusted: TLC, Python `is`, the driver's identity numbering. Leniencies: NaN constants unconstrained; like constrained by type only. Bounds: exhaustive to 4 steps (3 quick) on the stated alphabets, simulation to 12 steps; contexts with enable_alt are not replayed.",
    design="6/C07"),
 "C13": dict(
    category="model_checking",
    technique="TLA+ spec Convert.tla (values of fractions, binary strings parsed in TLA+, mpf tuples, expansions, multiwords over IEEE.tla) with TLC: exhaustive toy-format model check of the oracle and transcriptions; recorded conversions validated by Trace_Convert.tla",
    text="Every float16 pattern and shaped/sampled float32/float64 patterns are pushed through each conversion route; the intermediate object is logged uninterpreted and TLC decides exact value equality and bit-identical round trip. U1 checks IEEE.tla coherence, the TLA+ binary-string parser and transcriptions of float2fraction / the mpf2multiword loop on all values of toy formats.",
    note="Trusted: TLC, BigInt/IEEE modules (self-tested against NumPy), mpmath's _mpf_ tuples. -0 -> +0 accepted through fractions and mpf-based routes; inf/NaN through fractions unconstrained. Known findings: mpf2multiword on zero/specials, p < prec/2 and max_length=1 (not repaired).",
    design="6/C13"),
 "C15": dict(
    category="model_checking",
    technique="TLA+ spec Rounding.tla (mpf -> float rounding relation, backend clauses) with TLC: exhaustive toy-format model check; TLC-enumerated (mantissa, exponent) shapes and backend configurations driven through mpf2float / vectorize_with_mpmath; events validated by Trace_Rounding.tla",
    text="The correctly rounded image of an exact dyadic is computed in TLA+ (ties to even, overflow threshold, half-smallest-subnormal threshold); mpf2float and the mpmath backend (identity, negation, square, add, sub, mul; flush_subnormals in {unspecified, False, True}; extra precision settings; scalar/array/call protocols) are judged against it on TLC-enumerated tie/edge shapes at precisions p..10p and random mantissas.",
    note="Trusted: TLC, BigInt/IEEE, mpmath constructors. Nothing demanded where RN is subnormal (statement); sign of exact zero free. Known finding: double rounding when extra precision is used.",
    design="6/C15"),
 "C16": dict(
    category="model_checking",
    technique="TLA+ spec Poly.tla (exact polynomial algebra over BigInt rationals) with TLC: ring laws model-checked on all small polynomials; TLC-enumerated cases (function x scheme x degree x flags x zero pattern) driven through both copies of the polynomial code; results validated exactly by Trace_Poly.tla",
    text="PEval/PAdd/PMul/PDeriv/Taylor shift/ratio form/DivModOK are defined by recursion in TLA+ and compared exactly (cross-multiplied rationals) with the results of polynomial.py and the FractionContext copies in floating_point_algorithms.py, for every scheme, degree 0..40 and 499..501, forward/reverse, Laurent and ratio forms, zero patterns.",
    note="Trusted: TLC, BigInt. Sampled rational coefficients per enumerated case. Not covered: zeros_aberth, compensated_horner (floating point).",
    design="6/C16"),
}
NA_REASON = "not built yet in this round (see DESIGN.md section 10 build order); no check is registered, nothing is claimed"

m = dict(
  version=1,
  setup_cmd="./setup.sh",
  hooks=dict(guard="FA_VERIF", enable="checks export FA_VERIF=1; no source hook exists in /repo, every abstract state is observed through public API",
             baseline_off_cmd="cd /repo && /venv/bin/python -m pytest -ra -q -p no:cacheprovider --timeout=900 --continue-on-collection-errors",
             source_commits=[], add_only=True),
  engines=[dict(name="tlc", path="/usr/local/bin/tlc", serves_properties=sorted(CHECKS), kind_free_text="TLC 1.8.0 explicit-state model checker; specs in /verif/spec; optional BigInteger operator overrides in /verif/java")],
  checks=[], not_applicable=[],
  notes="Model-based verification with an explicit TLA+ specification (DESIGN.md). ./check <id> --tier quick|thorough; exit 2 = machinery failure.")
for i in ids:
    if i in CHECKS:
        c = CHECKS[i]
        m["checks"].append(dict(property_id=i, quick_cmd="./check %s --tier quick" % i, thorough_cmd="./check %s --tier thorough" % i,
            evidence_file="evidence/%s.json" % i, replay_cmd_template="./check %s --replay {path}" % i, engine="tlc",
            level_claimed=dict(category=c["category"], text=c["text"], design_ref=c["design"]), level_note=c["note"], technique=c["technique"]))
    else:
        m["not_applicable"].append(dict(property_id=i, reason=NA_REASON))
json.dump(m, open(os.path.join(HERE, "MANIFEST.json"), "w"), indent=1)
print("MANIFEST.json: %d checks, %d not_applicable" % (len(m["checks"]), len(m["not_applicable"])))
