#!/venv/bin/python
"""Regenerate MANIFEST.json from the table below (keeps it valid at all times)."""
import json, os
HERE = os.path.dirname(os.path.abspath(__file__))
props = [json.loads(l) for l in open(os.path.join(HERE, "properties.jsonl"))]
ids = [p["id"] for p in props]

CHECKS = {
 "C18": dict(
    category="model_checking",
    technique="TLA+ spec Mxcsr.tla model-checked by TLC; TLC-enumerated behaviours replayed on the real MXCSRRegister; recorded steps validated by Trace_Mxcsr.tla",
    text="TLC exhausts Mxcsr.tla (3 context objects, 18 requests, nesting 3, exceptions at any depth, re-entry, hardware flag noise) for OnlyRequestedBits/ExitRestores/BalancedIsIdentity/NestIsComposition; every behaviour TLC enumerates up to the stated length plus simulated walks over all 45 requests is driven through real with-statements, decorators and explicit protocol calls with real exception propagation, and every step (register word before/after read by an independent stub, arithmetic effects of FZ/DAZ/RC) is validated clause by clause by the trace spec. Histories are enumerated, not sampled, up to the bound.",
    note="Trusted: TLC, the harness's _mm_getcsr stub, NumPy float32 scalar arithmetic executing SSE instructions. Sticky status flags are treated as environment noise between steps. Bounds: nesting <= 3, behaviour length <= 7 (quick) / 9 (thorough).",
    design="6/C18"),

 "C07": dict(
    category="model_checking",
    technique="TLA+ spec FAContext.tla (hash-consing registry, key scheme vs structural identity) model-checked by TLC; TLC-enumerated construction histories replayed into a real Context; every construction validated by Trace_Context.tla",
    text="TLC exhausts FAContext.tla (all histories of <= 4 constructions over 3 symbols, 14 Python values incl. 0.0/-0.0, 1/1.0/True, numpy scalars, NaN objects, named constants; kinds negative/subtract/lt/select) for NoAlias and Canonical; every enumerated history, simulated 12-step histories over a larger alphabet, and TLC-enumerated shapes of confusable value pairs (neighbours, regrouped bytes, equal hash, equal int, cross-type...) are replayed into a fresh Context and each returned object is judged by the trace spec: structure equals the request and it is an earlier object iff the requests are structurally equal (requests are compared with requests, never with what the object claims).",
    note="Trusted: TLC, Python `is`, the driver's identity numbering. Leniencies: NaN constants unconstrained; like constrained by type only. Bounds: exhaustive to 4 steps (3 quick) on the stated alphabets, simulation to 12 steps; contexts with enable_alt are not replayed.",
    design="6/C07"),
 "C13": dict(
    category="model_checking",
    technique="TLA+ spec Convert.tla (values of fractions, binary strings parsed in TLA+, mpf tuples, expansions, multiwords over IEEE.tla) with TLC: exhaustive toy-format model check of the oracle and transcriptions; recorded conversions validated by Trace_Convert.tla",
    text="Every float16 pattern and shaped/sampled float32/float64 patterns are pushed through each conversion route; the intermediate object is logged uninterpreted and TLC decides exact value equality and bit-identical round trip. U1 checks IEEE.tla coherence, the TLA+ binary-string parser and transcriptions of float2fraction / the mpf2multiword loop on all values of toy formats.",
    note="Trusted: TLC, BigInt/IEEE modules (self-tested against NumPy), mpmath's _mpf_ tuples. -0 -> +0 accepted through fractions and mpf-based routes; inf/NaN through fractions unconstrained.",
    design="6/C13"),
 "C15": dict(
    category="model_checking",
    technique="TLA+ spec Rounding.tla (mpf -> float rounding relation, backend clauses) with TLC: exhaustive toy-format model check; TLC-enumerated (mantissa, exponent) shapes and backend configurations driven through mpf2float / vectorize_with_mpmath; events validated by Trace_Rounding.tla",
    text="The correctly rounded image of an exact dyadic is computed in TLA+ (ties to even, overflow threshold, half-smallest-subnormal threshold); mpf2float and the mpmath backend (identity, negation, square, add, sub, mul; flush_subnormals in {unspecified, False, True}; extra precision settings; scalar/array/call protocols) are judged against it on TLC-enumerated tie/edge shapes at precisions p..10p and random mantissas.",
    note="Trusted: TLC, BigInt/IEEE, mpmath constructors. Nothing demanded where RN is subnormal (statement); sign of exact zero free. Known finding: double rounding when extra precision is used.",
    design="6/C15"),
 "C16": dict(
    category="model_checking",
    technique="TLA+ spec Poly.tla (exact polynomial algebra over BigInt rationals) with TLC: ring laws model-checked on all small polynomials; TLC-enumerated cases (function x scheme x degree x flags x zero pattern) driven through both copies of the polynomial code; results validated exactly by Trace_Poly.tla",
    text="PEval/PAdd/PMul/PDeriv/Taylor shift/ratio form/DivModOK are defined by recursion in TLA+ and compared exactly (cross-multiplied rationals) with the results of polynomial.py and the FractionContext copies in floating_point_algorithms.py, for every scheme, degree 0..40 and 499..501, forward/reverse, Laurent and ratio forms, zero patterns.",
    note="Trusted: TLC, BigInt. Sampled rational coefficients per enumerated case. Not covered: zeros_aberth, compensated_horner (floating point).",
    design="6/C16"),

 "C03": dict(
    category="model_checking",
    technique="TLA+ spec Symmetry.tla (symmetry group on bit patterns, identities with their exclusion sets) with TLC: operator algebra and model families model-checked; TLC-enumerated input classes and random points evaluated through the package's own expanded algorithms; one event per orbit validated by Trace_Symmetry.tla",
    text="Conj/Neg/RotI are sign-bit flips and component swaps on bit patterns; the identities of the statement (conjugation symmetry, oddness, evenness, asinh/atan/acosh as rotations of their parents, imag acos = -imag asin) are equalities of bit patterns decided by TLC for every recorded orbit {z, conj z, -z, -conj z} and the parent values. The implementation evaluated is the text printed by Expr.tostring for a synthetic NumPy-like target that expands every complex-operand kind through the package's own definitions (harness/evalalgo.py). U1 checks the algebra, closure of exclusion sets and three model families (honest, code-like, one-quadrant-wrong).",
    note="Trusted: TLC, NumPy real primitives (incl. real hypot), the exec'd emitted text with array-capable max/min. Sampled: special lattice + ~2.4e4 orbits per (function, dtype) quick, ~1.8e5 thorough; not exhaustive. Known findings: 9 zero-component oddness classes (asin, asinh, atan, atanh; DESIGN F11), not repaired (copysign missing on three targets). Real atan/atanh have no algorithm.",
    design="6/C03"),
 "C04": dict(
    category="model_checking",
    technique="TLA+ spec FAIR.tla gives the IR an exact semantics (rationals, complex pairs, lists) and an IEEE semantics (float16/32/64 with casts); TLC model-checks the relop folding tables extracted live from rewrite.py (MC_Relop) and enumerates terms (FATerms); every (term, rewritten term) pair from the real rewriter is evaluated by TLC under all assignments of a small domain (Trace_Rewrite.tla)",
    text="U1: the three relational-operator tables are extracted from the working tree into a generated TLA+ module and every folded entry is checked against every pair of values of its classes on an order-preserving abstraction of the float lattice. U2/U3: TLC enumerates all terms with <= 2 operator nodes, all comparisons between 29 sign/finiteness class representatives, one template per rule left-hand side, the extended kinds of the quantifier (complex/real/imag/conjugate and arithmetic on complex terms and constants, up/downcast chains, lists/items, kinds with point rules such as log 1, hypot, is_finite) and sampled deeper terms of both families; each is built in the real package for float, float32 and float64 (complex, complex64, complex128) symbols, rewritten (alone, twice, after the numpy/cpp expansion pass; fresh and shared contexts) under a time budget, projected back to a spec term, and TLC decides EvalQ(t) = EvalQ(t') exactly and EvalF(t) ~ EvalF(t') for every assignment. The semantics is the spec's only; no Python interpreter of the IR is involved.",
    note="Trusted: TLC, BigInt/IEEE (self-tested against NumPy incl. division and sqrt). Leniencies: exact clause only when no rounded constant fold can have happened (closed arithmetic sub-terms of t and all new literals of t' are small dyadics); t' judged with the conditional-expression reading of select; numeric literal denotes its value in the like's type; nodes whose value the semantics does not determine (irrational sqrt, libm kinds off their exact points, complex products in floating point, formats outside float16..64) make a term 'not judged' (counted). Known finding (class verified in TLA+): the deliberate rule upcast(downcast(x)) -> x.",
    design="6/C04"),
 "C14": dict(
    category="model_checking",
    technique="TLA+ spec Ulp.tla (lattice distance from IEEE.tla ordinals, flushed lattice, ulp identities) with TLC: metric laws model-checked exhaustively on toy formats; TLC-enumerated operand shapes and exhaustive float16 chains driven through diff_ulp/ulp; events validated by Trace_Ulp.tla",
    text="Dist(x,y) = |Ord(x) - Ord(y)|; TLC proves the statement's consequences (zero iff equal, symmetry, k-th neighbour, additivity along monotone chains across zero and binade edges, flush-mode collapse laws) from the definition on all pairs/triples of toy formats, so the trace clause is the single equation diff_ulp = Dist (plus complex max, flush-image consistency, ulp/nextafter identities). float16 neighbours, chains, ulp and collapse exhaustive; arbitrary pairs and float32/64 sampled + shapes.",
    note="Trusted: TLC, BigInt/IEEE. Flush mode judged existentially against the code's own d(x,0) witness. Known finding: float64 ndarray path rounds distances above 2^53 when mixed with distances >= 2^63.",
    design="6/C14"),
 "C19": dict(
    category="model_checking",
    technique="TLA+ spec Samples.tla (postcondition of the sample generators on IEEE.tla ordinals, product layouts, transcription of the stepping) with TLC: transcription model-checked against the postcondition on a toy format for every argument tuple; TLC-enumerated argument shapes driven through real_samples and the product generators; returned arrays validated in chunks by Trace_Samples.tla",
    text="Each phrase of the statement is a clause (no error, dtype, strictly increasing, within adjusted bounds, contains bounds/zero/infinities/next-to-largest when requested, no subnormal/NaN unless requested, ULP-uniform up to one unit, Cartesian products) evaluated by TLC on the returned arrays (up to 1e6 elements, chunked with spec-computed chunk summaries). 9744 TLC-enumerated argument shapes (bounds shape x flags x size class x dtype).",
    note="Trusted: TLC, BigInt/IEEE, NumPy bit views, transport of chunk summaries (re-linked by the spec). Leniencies L1-L7 in Samples.tla (subnormal bound moved either way, unique=False order waived on the default path, huge required only for size >= 10...). Products checked at all cells when <= 3000, else sampled cells + corners.",
    design="6/C19"),

 "C10": dict(
    category="model_checking",
    technique="TLA+ spec EFT.tla (2Sum, Fast2Sum, Veltkamp splitter, Dekker product as exact relations over IEEE.tla, with transcriptions that compute each call's domain) with TLC: transcriptions model-checked on all operands/pairs of toy formats; TLC-enumerated operand shapes driven through every copy and option combination of the real functions; every result validated by Trace_EFT.tla",
    text="s = RN(x+y) and s+t = x+y, xh+xl = x with both halves in ceil(p/2) bits, h = RN(xy) and h+l = xy are equalities of exact dyadics decided by TLC; 'no intermediate overflow' and 'error term representable' are computed by the spec from the logged inputs, never by the driver. U1: every operand / ordered pair of toy formats T4..T7 (all splitter configurations, wrong algorithms as witnesses). U2/U3: 3.6e4 TLC-enumerated shapes (exponent gap x mantissa pattern x magnitude class x signs) concretised in float16/32/64, the float16 splitter exhaustively, random pairs; 60 variants (fpa, apmath wrappers, utils, the copies inlined in algorithms.py through their traced graph; fast/scale/fix_overflow/C options, array and scalar protocols).",
    note="Trusted: TLC, BigInt/IEEE (self-tested against NumPy). Leniencies: sign of a zero in a pair free; fix_overflow does not enlarge the judged domain; assume_fma cannot be observed under NumPy (only 'returns a pair'); float16 pairs sampled, not exhaustive (2^32 pairs is out of TLC's reach in the time budget).",
    design="6/C10"),
 "C11": dict(
    category="model_checking",
    technique="TLA+ spec Compound.tla (next, is_power_of_two, 3Sum, 4Sum, mul_add, dot2, 32 FMA variants as exact relations over IEEE.tla) with TLC: transcriptions model-checked on all operand tuples of toy formats; TLC-enumerated operand shapes driven through the real code in float16/32/64; calls validated by Trace_Compound.tla",
    text="Each documented bound is a clause over exact dyadics and ordinals (|Ord(result) - Ord(RN(exact))| <= k; s+e+t = x+y+z exactly; next = NextUp/NextDown; is_power_of_two iff the significand is a power of two) decided by TLC, domains computed by the spec. U1: all triples/quadruples of T3 (T4 thorough), unary over T6, with coverage showing no guard is vacuous. U2/U3: shapes (mantissa pattern x magnitude class x relation of addend to product: cancellation, ties, near ties, gaps, subnormal results, top of range) in three formats through both copies (apmath.py, apmath_algorithms.py) and all variants a7/a8/a9/apmath x fix_overflow x possibly_zero_z; next and is_power_of_two on every float16.",
    note="Trusted: TLC, BigInt/IEEE. Known findings (not repaired: documented fallback design): fma with fix_overflow=True loses the low product word / returns inf near the top of the range (8 classes).",
    design="6/C11"),
 "C12": dict(
    category="model_checking",
    technique="TLA+ spec Expansion.tla (exact value of a list, non-overlap, renormalisation/sum/product clauses over IEEE.tla) with TLC: transcriptions of VecSum/VecSumErrBranch/nztopk model-checked on all short lists of a toy format; TLC-enumerated list shapes driven through eager, functional and traced variants of apmath; calls validated by Trace_Expansion.tla",
    text="Sum(renormalize(l)) = Sum(l) exactly, the result is decreasing and pairwise non-overlapping after <= 2 passes, add/subtract exact when not truncated, multiply/square within one ulp of the leading term: all decided by TLC on exact dyadics. U1: all lists of <= 3 patterns of a toy format through the transcriptions (interior zeros, equal magnitudes, cancellation present exhaustively). U2/U3: list shapes (length 1..6, relation of adjacent items, zero positions, signs, order, cancellation) in float16/32/64 through eager, functional (NumpyContext) and traced (graph printed for NumPy, what is emitted for JAX) variants x fast/safe x size limits.",
    note="Trusted: TLC, BigInt/IEEE. Fast variants judged only inside Fast2Sum's precondition. Known findings (not repaired): safe renormalize of unordered lists can need a third pass; multiply/square of non-normal-form operands cut by a size limit miss the bound.",
    design="6/C12"),

 "C08": dict(
    category="model_checking",
    technique="TLA+ spec FATypes.tla (type lattice, static inference design, NumPy promotion of the emitted call forms) model-checked by TLC on all small well-typed DAGs (MC_Types); TypedTerms.tla enumerates typed terms that are replayed into the real package; Trace_Types.tla judges one event per bound variable of the instrumented emitted NumPy text",
    text="The clause is static type == run-time dtype at every point where the emitted NumPy code binds a value, no debug-1 assertion fires, the result has the declared dtype; decided by TLC per event. U1: TypeOf (inference) vs NpResult (NumPy promotion) on all well-typed DAGs of <= 2 (thorough 3) nodes over the symbol dtypes and constant flavours: the design-level disagreements (156 of 939 (kind, type tuple) pairs) predict the classes the code shows. U2/U3: every shipped (function, signature) of the numpy target, all 4999 one-operation typed terms, sampled/all two-operation terms and random deeper terms, built in the real package, printed naturally (debug 0/1) and with every node referenced, executed on 4-6 input vectors (both operand orders for Python max/min, zeros, negatives, huge; NumPy scalars and Python numbers) with the emitted text instrumented through ast (the unmodified text must behave identically).",
    note="Trusted: TLC, NumPy 2.x scalar promotion as observed, the ast instrumentation (cross-checked against the unmodified text). Failure classes never depend on the spec's TypeOf/NpResult tables (drift only). Not judged, counted: nodes outside WellTyped, runs where the emitted code raises, programs the package declines. Known findings (6 families, 173 narrow keys kind+operand types+clause): unsized/integer constants printed as float64/int64, Python max/min value-dependent dtype, float64 with complex64, copysign, shared reference names.",
    design="6/C08"),
 "C02": dict(
    category="model_checking",
    technique="TLA+ spec of the TRUE real values: Reals.tla (dyadic interval arithmetic over BigInt, series with explicit remainder bounds; ln 2 and pi from the enclosures proved by MC_ArgReduce) and Accuracy.tla (each clause decided exactly through the inverse relation of the function); enclosure laws and the clause frame model-checked by TLC on small scopes; TLC-enumerated boundary shapes and samples evaluated through the generated implementation; every evaluation validated by Trace_Accuracy.tla",
    text="For asin, acos, asinh, acosh, absolute, square, hypot in float32/float64: 'within N ULP of the correctly rounded true value' is decided by TLC as t in [CellLo(Ord(w)-N), CellHi(Ord(w)+N)] with t compared through the inverse function (sin a <=> x, sinh a <=> x, cosh a - 1 <=> x - 1, a^2 <=> x^2+y^2) using rigorous enclosures at 48-160 bits; NaN exactly where undefined; exact limits; the 3-ULP rate judged by an exact binomial threshold derived in the spec. No multiprecision library produces a verdict: mpmath is used only in the machinery self-test (setup), NumPy at higher precision only to CHOOSE inputs (error-maximising screen). Inputs: uniform over bit patterns, every switch point of the real algorithms +-64 ulp, subnormals, extremes, hypot pair shapes; thorough adds a screen that is exhaustive over float32 for asin/acos/asinh/acosh whose worst candidates are all judged by TLC.",
    note="Trusted: TLC, BigInt/IEEE/Reals modules (self-tested: mpmath at 400 bits inside every enclosure, with/without Java overrides identical, sabotaged laws caught). The statement's 'exhaustive in float32' is NOT achieved by TLC (3-7k events/s): 7e4 events quick, 1e6 thorough, sampled + boundary-directed + screened; rigorous per input. Leniencies: rounding cells closed (ties either way), sign of an exact zero free, undecided comparisons (none observed) never alarm.",
    design="6/C02"),

 "C05": dict(
    category="translation_validation",
    technique="TLA+ spec FAPrinter.tla (an emitted program as a behaviour of a single-assignment machine over the real graph's node table, the spec's own Implements tables per target, value semantics of literals, C++ literal typing and usual arithmetic conversions) and FAPrinterEval.tla (bit-exact IEEE evaluation of a node table); TLC model-checks the transcribed printing algorithm on all small DAGs (MC_Printer) and the live template tables extracted from the working tree (MC_TargetTables); TLC-generated graphs and every shipped signature are printed by the real package, parsed by independent parsers (ast; a recursive-descent C++ subset parser), compiled and executed, and judged per program by Trace_Printer.tla",
    text="Clauses per emitted program (python, numpy, cpp; debug 0/1): loads/compiles; every variable assigned exactly once before first use; a variable occurrence denotes the operand node required at its position (distinct sub-expressions never share a variable); the operator realising each node is the one the spec's own table of the target language gives, operands in order, constants with their value AND type/precision, declared types, assertion targets; executing the program returns bit-identical results to the direct evaluation of the graph - decided by the spec's own IEEE evaluation (exec_ieee) for graphs over IEEE-exact kinds and by differential execution against the harness's interpreter / a reference C++ rendering (exec_equal) for graphs with libm calls. U1: all connected DAGs with <= 4 (thorough 5) nodes x forced-reference policies through the transcription of compute_need_ref + PrinterBase.tostring; the live kind/constant tables of the three targets against the spec's tables (finds a misspelt template without a program). U2/U3: 204 shipped (function, signature, debug) programs + TLC-generated graphs covering every kind, named constant, dtype and sharing/naming policy (names equal to a parameter or to the printer's own `result`).",
    note="Trusted: TLC, BigInt/IEEE, Python ast, the harness's C++ subset parser (an unknown form is exit 2), g++ -O0 -fno-fast-math -ffp-contract=off -frounding-math, and for clause exec_equal only the harness interpreter / reference C++ rendering. Wild-carded kinds (matched against the package's own template, listed in the evidence): sign, round, remainder (cpp), list, item. Not covered: list-valued programs, alt-context constants, long double. Known findings: see known_findings.d/C05.json (C++ float graphs computed with double literals was repaired; remaining: shared generated constant names, a reference name moving onto an argument, typeof_0, C++ compile failures on mixed/complex operands ...).",
    design="6/C05"),

 "C01": dict(
    category="model_checking",
    technique="TLA+ spec AccuracyC.tla: the true complex values are SPECIFIED as rigorous dyadic interval enclosures (forward evaluation of well-conditioned formulas whose polynomial arguments are exact dyadics, over the series of Reals.tla; Kahan's forms for asin/acos/asinh/acosh); each recorded evaluation of the package's own expansion (raw bit patterns) is judged by Trace_AccuracyC.tla through Accuracy.tla's rounding-cell frame; enclosure laws model-checked by TLC (MC_AccuracyC); boundary classes enumerated by TLC (AccuracyCShapes); the rate threshold is derived in the spec; mpmath appears only in the machinery self-test",
    text="For the 14 complex algorithms in complex64/complex128, with every complex sub-operation expanded by the package's own definitions (harness/evalalgo.py): each component within 16 ULP of the correctly rounded true value (t in [CellLo(Ord(w)-16), CellHi(Ord(w)+16)] decided against the enclosure, widened once if inconclusive), no spurious NaN/inf, no wrong sign (on a cut either side accepted; zero signs demanded only where oddness / conjugate symmetry fixes them); the 3-ULP (4 for sqrt, log1p) target rate on the two stated distributions judged by a binomial threshold derived in the spec. U1: 8 laws x 13 functions on dyadic grids (square(sqrt z) contains z, exp(log z), sin(asin z), ..., branch ranges, symmetries with signed zeros, cut sides, nesting) and a toy-format check that the correctly rounded truth passes every clause and a displaced component fails. U2/U3: uniform bit patterns, log-uniform 2^-12..2^12, 2765 TLC-enumerated (function, x-anchor, y-anchor) classes and relation shapes (|z|=1, |1+z|=1, x=-y^2/2, the a=1.5 ellipse ...), random neighbourhoods of them, and an error-maximising screen that only chooses inputs.",
    note="Sampled, rigorous per sample: the quantifier over 2^64 / 2^128 inputs is out of reach (2.3e4 events quick, 1.0e6 thorough, 0 undecided). Trusted: TLC, BigInt/IEEE/Reals (self-tested against mpmath at 400 bits: 0 misses in 5.2e4 enclosures; with/without Java overrides identical). Not judged (counted): components of infinite inputs / poles that are not path-independent limits. Known findings (120 bounded class keys function:dtype:region:component:clause+severity): signed-zero conventions (DESIGN F11 family), |x| = 1 with subnormal other component in asin_acos_kernel, atanh at x = +-1 with tiny y, exp for x >= 2 log(largest) with subnormal y, complex sqrt of subnormal components; log1p at x = -1 was repaired.",
    design="6/C01"),

 "C09": dict(
    category="model_checking",
    technique="TLA+ spec FAPipeline.tla (generation requests against process-global state) model-checked by TLC; TLC-enumerated and simulated request histories executed in forked real interpreters under several PYTHONHASHSEED values; merged (request, text digest) logs validated by Trace_Pipeline.tla",
    text="The property is the functional dependency request -> text. TLC exhausts FAPipeline.tla over histories of <= 4 requests (leaky designs are negative controls), enumerates every sequence of length 3 over 8 cheap requests and samples length-40 sequences over the full alphabet (every (function, signature) of trace_arguments for python/numpy/cpp/stablehlo/xla_client/lax, debug=1 variants, user-defined composites that expand one definition several times, same-context repeats, the apmath lax requests); each history runs in a child forked from a warm interpreter, one interpreter per hash seed, plus forward/reverse/shuffled full passes; the trace spec rejects any request answered with two different texts (or exception messages).",
    note="Trusted: TLC, sha256, os.fork isolation of process-global state. Scope: fresh Context per request (as results/update.py) and one request repeated in one context; different functions traced into one shared context are not judged. Seeds: 3 (quick) / 12 (thorough).",
    design="6/C09"),

 "C17": dict(
    category="model_checking",
    technique="TLA+ spec ArgReduce.tla (reconstruction relations over BigInt with enclosures of ln 2 and pi that TLC proves from series) with TLC; TLC-enumerated input-shape classes and exhaustive float16 driven through the real reductions; (k, r, c/t, witness N) events validated by Trace_ArgReduce.tla",
    text="ln 2 in [L, L+2^-300] and pi in [P, P+2^-1300] are proved inside TLA+ (atanh and Machin series with explicit tail bounds), so no multiprecision library is trusted; each recorded reduction is judged exactly against both ends of the enclosure: k integral, remainder range, and reconstruction to within 1 ULP (10 for float16), with the multiple N of 2 pi logged as a witness and verified. float16 exhaustive; float32/64 neighbours of every k ln2, (k+1/2) ln2, k pi/2, continued-fraction worst cases per binade, the pi/4 switch, edges, plus log-uniform samples.",
    note="Trusted: TLC, BigInt/IEEE. Recon leniency: real-line and lattice readings must both fail. Known findings (bounded classes verified as weaker inequalities in TLA+, float16 listed per input): the 2/pi table is cut at the smallest subnormal (wrong remainder for large |x| near multiples of pi/2, all dtypes) and the double-word remainder loses up to ~4 ulp when |r| < 2^(4-p).",
    design="6/C17"),
}
NA_REASON = "not built yet in this round (see DESIGN.md section 10 build order); no check is registered, nothing is claimed"

m = dict(
  version=1,
  setup_cmd="./setup.sh",
  hooks=dict(guard="FA_VERIF", enable="checks export FA_VERIF=1; no source hook exists in /repo, every abstract state is observed through public API",
             baseline_off_cmd="cd /repo && /venv/bin/python -m pytest -ra -q -p no:cacheprovider --timeout=900 --continue-on-collection-errors",
             source_commits=[], add_only=True),
  engines=[dict(name="tlc", path="/usr/local/bin/tlc", serves_properties=sorted(CHECKS), kind_free_text="TLC 1.8.0 explicit-state model checker; specs in /verif/spec; optional BigInteger operator overrides in /verif/java")],
  checks=[], not_applicable=[],
  notes="Model-based verification with an explicit TLA+ specification (DESIGN.md). ./check <id> --tier quick|thorough; exit 2 = machinery failure.")
for i in ids:
    if i in CHECKS:
        c = CHECKS[i]
        m["checks"].append(dict(property_id=i, quick_cmd="./check %s --tier quick" % i, thorough_cmd="./check %s --tier thorough" % i,
            evidence_file="evidence/%s.json" % i, replay_cmd_template="./check %s --replay {path}" % i, engine="tlc",
            level_claimed=dict(category=c["category"], text=c["text"], design_ref=c["design"]), level_note=c["note"], technique=c["technique"]))
    else:
        m["not_applicable"].append(dict(property_id=i, reason=NA_REASON))
json.dump(m, open(os.path.join(HERE, "MANIFEST.json"), "w"), indent=1)
print("MANIFEST.json: %d checks, %d not_applicable" % (len(m["checks"]), len(m["not_applicable"])))
