#!/venv/bin/python
"""Regenerate MANIFEST.json from the table below (keeps it valid at all times)."""
import json, os
HERE = os.path.dirname(os.path.abspath(__file__))
props = [json.loads(l) for l in open(os.path.join(HERE, "properties.jsonl"))]
ids = [p["id"] for p in props]

CHECKS = {
 "C18": dict(
    category="model_checking",
    technique="TLA+ spec Mxcsr.tla model-checked by TLC; TLC-enumerated behaviours replayed on the real MXCSRRegister; recorded steps validated by Trace_Mxcsr.tla",
    text="TLC exhausts Mxcsr.tla (3 context objects, 18 requests, nesting 3, exceptions at any depth, re-entry, hardware flag noise) for OnlyRequestedBits/ExitRestores/BalancedIsIdentity/NestIsComposition; every behaviour TLC enumerates up to the stated length plus simulated walks over all 45 requests is driven through real with-statements, decorators and explicit protocol calls with real exception propagation, and every step (register word before/after read by an independent stub, arithmetic effects of FZ/DAZ/RC) is validated clause by clause by the trace spec. Histories are enumerated, not sampled, up to the bound.",
    note="Trusted: TLC, the harness's _mm_getcsr stub, NumPy float32 scalar arithmetic executing SSE instructions. Sticky status flags are treated as environment noise between steps. Bounds: nesting <= 3, behaviour length <= 7 (quick) / 9 (thorough).",
    design="6/C18"),
}
NA_REASON = "not built yet in this round (see DESIGN.md section 10 build order); no check is registered, nothing is claimed"

m = dict(
  version=1,
  setup_cmd="./setup.sh",
  hooks=dict(guard="FA_VERIF", enable="checks export FA_VERIF=1; no source hook exists in /repo, every abstract state is observed through public API",
             baseline_off_cmd="cd /repo && /venv/bin/python -m pytest -ra -q -p no:cacheprovider --timeout=900 --continue-on-collection-errors",
             source_commits=[], add_only=True),
  engines=[dict(name="tlc", path="/usr/local/bin/tlc", serves_properties=sorted(CHECKS), kind_free_text="TLC 1.8.0 explicit-state model checker; specs in /verif/spec; optional BigInteger operator overrides in /verif/java")],
  checks=[], not_applicable=[],
  notes="Model-based verification with an explicit TLA+ specification (DESIGN.md). ./check <id> --tier quick|thorough; exit 2 = machinery failure.")
for i in ids:
    if i in CHECKS:
        c = CHECKS[i]
        m["checks"].append(dict(property_id=i, quick_cmd="./check %s --tier quick" % i, thorough_cmd="./check %s --tier thorough" % i,
            evidence_file="evidence/%s.json" % i, replay_cmd_template="./check %s --replay {path}" % i, engine="tlc",
            level_claimed=dict(category=c["category"], text=c["text"], design_ref=c["design"]), level_note=c["note"], technique=c["technique"]))
    else:
        m["not_applicable"].append(dict(property_id=i, reason=NA_REASON))
json.dump(m, open(os.path.join(HERE, "MANIFEST.json"), "w"), indent=1)
print("MANIFEST.json: %d checks, %d not_applicable" % (len(m["checks"]), len(m["not_applicable"])))
