/* Harness-owned helpers, independent of the repository's generated machine code. */
#include <xmmintrin.h>
unsigned fa_getcsr(void) { return _mm_getcsr(); }
void fa_setcsr(unsigned v) { _mm_setcsr(v); }
