#!/usr/bin/env python3
"""Print the numbers of the table in DESIGN.md section 0 from evidence/*.json (run after tools/run_all.sh quick)."""
import json, glob, os
for p in sorted(glob.glob(os.path.join(os.path.dirname(__file__), "..", "evidence", "C*.json"))):
    e = json.load(open(p))
    c = e["coverage"]
    print("%s tier=%s states=%.2g events=%.2g traces=%s known=%s wall=%ss" % (
        e["property_id"], e["tier"], c.get("states", 0), c.get("evaluations", 0), c.get("traces_validated_against_impl"),
        len(c.get("known_findings_hit", [])), e.get("wall_s")))
