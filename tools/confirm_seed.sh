#!/bin/sh
# tools/confirm_seed.sh <seeded dir> [test files...] - confirm: demo passes clean, fails patched; given tests pass patched
S="$(readlink -f "$1")"; shift
D="$(mktemp -d /tmp/conf_XXXXXX)"
git -C /repo archive HEAD | tar -x -C "$D"
cd "$D" && git init -q . 
export PATH=/venv/bin:$PATH
mkdir -p "$D/_out" && cp "$S/demo.py" "$D/_out/demo.py"
/venv/bin/python "$D/_out/demo.py" > "$D/clean.txt" 2>&1; echo "demo clean rc=$?"
git apply --whitespace=nowarn "$S/patch.diff" || { echo "PATCH DOES NOT APPLY"; rm -rf "$D"; exit 1; }
/venv/bin/python "$D/_out/demo.py" > "$D/patched.txt" 2>&1; echo "demo patched rc=$?"; tail -2 "$D/patched.txt"
if [ $# -gt 0 ]; then /venv/bin/python -m pytest -q -p no:cacheprovider -x "$@" 2>&1 | tail -1; fi
cd /; rm -rf "$D"
