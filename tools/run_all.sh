#!/bin/sh
# tools/run_all.sh [quick|thorough] [seed]  - run every registered check against /repo, one line per check
TIER="${1:-quick}"; SEED="${2:-0}"
cd "$(dirname "$0")/.."
for c in $(python3 -c "import json;print(' '.join(x['property_id'] for x in json.load(open('MANIFEST.json'))['checks']))"); do
  s=$(date +%s); ./check "$c" --tier "$TIER" --seed "$SEED" > "/tmp/run_all_$c.log" 2>&1; rc=$?
  echo "$c rc=$rc t=$(( $(date +%s)-s ))s known=$(grep -c '^KNOWN-FINDING' /tmp/run_all_$c.log) violations=$(grep -c '^VIOLATION' /tmp/run_all_$c.log)"
done
