#!/bin/sh
# tools/try_benign.sh <patch.diff> <Cxx> [<Cyy> ...] - run several quick checks against ONE scratch copy of /repo with a
# behaviour-preserving patch applied; every check is expected to exit 0 (anything else is a false alarm of the machinery)
PATCH="$(readlink -f "$1")"; shift
D="$(mktemp -d /tmp/ben_XXXXXX)"
git -C /repo archive HEAD | tar -x -C "$D"
( cd "$D" && git init -q . && git apply --whitespace=nowarn "$PATCH" ) || { echo "patch does not apply"; rm -rf "$D"; exit 2; }
for PROP in "$@"; do
  FA_NPROC=${FA_NPROC:-6} FA_OUT_DIR="$D/_verif_out" FA_REPO="$D" /verif/check "$PROP" --tier quick > "$D/out_$PROP.txt" 2>&1
  rc=$?
  echo "$PROP exit=$rc $(grep -E 'tier=' "$D/out_$PROP.txt" | cut -c1-160)"
  if [ $rc -ne 0 ]; then grep -E "^VIOLATION|MACHINERY" "$D/out_$PROP.txt" | cut -c1-400 | head -6; cp "$D/out_$PROP.txt" "/tmp/benign_fail_$(basename "$PATCH" .diff)_$PROP.txt"; fi
done
rm -rf "$D"
