#!/bin/sh
# tools/try_seed.sh <patch.diff> <Cxx> [tier]  - run a check against a scratch copy of /repo with the patch applied
set -e
PATCH="$(readlink -f "$1")"; PROP="$2"; TIER="${3:-quick}"
D="$(mktemp -d /tmp/mut_XXXXXX)"
git -C /repo archive HEAD | tar -x -C "$D"
( cd "$D" && git init -q . && git apply --whitespace=nowarn "$PATCH" )
set +e
FA_OUT_DIR="$D/_verif_out" FA_REPO="$D" /verif/check "$PROP" --tier "$TIER" > "$D/out.txt" 2>&1
rc=$?
grep -E "^VIOLATION|MACHINERY|tier=" "$D/out.txt" | cut -c1-260 | head -8
echo "known-finding lines: $(grep -c "^KNOWN-FINDING" "$D/out.txt")"
echo "exit=$rc"
rm -rf "$D"
