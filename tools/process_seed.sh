#!/bin/sh
# tools/process_seed.sh <seed dir> <suffix: "" or 2> <name> <Cxx> [test files...]
SRC="$1"; SUF="$2"; NAME="$3"; PROP="$4"; shift 4
D=/verif/seeded/$NAME
mkdir -p "$D"
cp "$SRC/_out/patch$SUF.diff" "$D/patch.diff"; cp "$SRC/_out/demo$SUF.py" "$D/demo.py"; cp "$SRC/_out/notes.txt" "$D/notes_from_author.txt" 2>/dev/null
echo "--- confirm $NAME"; /verif/tools/confirm_seed.sh "$D" "$@" 2>&1 | tail -4
echo "--- check $PROP"; /verif/tools/try_seed.sh "$D/patch.diff" "$PROP" 2>&1 | tail -4
