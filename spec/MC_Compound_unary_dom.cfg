\* U1 of C11, domain coverage (-coverage 1) of the unary operations on T6
SPECIFICATION SpecDom
CONSTANTS
  Fmt = "T6"
  Ops = "unary"
  Stride3 = 1
  StrideF = 1
  Stride4 = 1
  Off = 0
INVARIANT TypeOK
CHECK_DEADLOCK FALSE
