---------------------------- MODULE MC_AccuracyC ----------------------------
(***************************************************************************)
(* U1 for C01: small-scope laws that the complex true-value enclosures of  *)
(* AccuracyC.tla must satisfy, checked by TLC on every point of a dyadic   *)
(* grid z = (j + ik) / 2^GridShift * 2^Scale, |j|, |k| <= GridN, Scale in  *)
(* Scales, widths W in Ws, all sign-bit readings of zero components; and   *)
(* the satisfiability / sensitivity of the verdict on a toy format.  No    *)
(* outside oracle: every law is an identity of real analysis evaluated in  *)
(* interval arithmetic.                                                    *)
(*   inverse  the defining relation, evaluated forward on the enclosure    *)
(*            (u + iv) of f(z), contains z:  sqrt: u^2 - v^2, 2uv;         *)
(*            log: e^u (cos v, sin v);  log2 / log10: u ln b, v ln b meet  *)
(*            log's;  log1p(z) meets log(1 + z);  exp: u^2 + v^2 meets     *)
(*            e^(2x), v cos y - u sin y contains 0 (|x| <= 2048; beyond:   *)
(*            signs and the clamped magnitude);  asin: (sin u cosh v,  *)
(*            cos u sinh v);  acos: (cos u cosh v, -sin u sinh v);         *)
(*            asinh: (sinh u cos v, cosh u sin v);  acosh: (cosh u cos v,  *)
(*            sinh u sin v);  atanh: sinh 2u, sin 2v meet x D, y D with    *)
(*            D = cosh 2u + cos 2v;  atan: sin 2u, sinh 2v meet x D, y D   *)
(*            with D = cos 2u + cosh 2v;  square: exact                    *)
(*   range    the principal branch: Re sqrt >= 0, |Im log| <= pi,          *)
(*            |Re asin| <= pi/2, 0 <= Re acos <= pi, |Im asinh| <= pi/2,   *)
(*            Re acosh >= 0 and |Im acosh| <= pi, |Im atanh| <= pi/2,      *)
(*            |Re atan| <= pi/2  (the inverse law alone holds on every     *)
(*            branch)                                                      *)
(*   conj     f(conj z) = conj f(z) with the sign bit of y flipped:        *)
(*            identical enclosures, imaginary part negated                 *)
(*   odd      asin, asinh, atan, atanh: f(-z) = -f(z) with both sign bits  *)
(*            flipped                                                      *)
(*   cut      the side of a cut selected by the sign bit of the zero       *)
(*            component is the limit from that side: f at the zero         *)
(*            replaced by +-2^-60 (times the scale) meets f +- 2^-24       *)
(*   zerosign a component that is exactly 0 with a demanded sign (ExpZero) *)
(*            has that sign after the same replacement                     *)
(*   shape    lo <= hi, relative width <= 2^(12-W); exact zeros are the    *)
(*            point 0                                                      *)
(*   nested   the enclosure at width 2W lies inside the one at width W     *)
(*   toy      on the toy format Toy (all pairs of patterns from ToyPats):  *)
(*            the correctly rounded true value (RN of a point of the       *)
(*            enclosure; the table value for poles / infinite inputs) has  *)
(*            NO failing clause, and the same result with one component    *)
(*            moved by 18 lattice steps (or replaced by NaN) has one       *)
(* States: root -> <<"group", law, fn>> -> the instances.  The driver      *)
(* checks that the number of distinct states equals 1 + groups + the sum   *)
(* of the printed group sizes.                                             *)
(* Constants: MC_AccuracyC.cfg  GridN = 4, GridShift = 1 (|x|,|y| <= 2,    *)
(*   step 1/2), Scales = {0}, Ws = {48}, toy = (p 4, emax 7, w 8) on 14    *)
(*   patterns per component;  MC_AccuracyC_deep.cfg  GridN = 8,            *)
(*   GridShift = 2 (|x|,|y| <= 2), Scales = {-40, 0, 30}, Ws = {48, 80},   *)
(*   toy on all 58 non-NaN patterns of (p 3, emax 3, w 6).                 *)
(*   Sabotage = 1 (MC_AccuracyC_neg.cfg): every enclosure is cut to its    *)
(*   lowest eighth - LawsOK must be violated.                              *)
(***************************************************************************)
EXTENDS AccuracyC, FiniteSets
CONSTANTS GridN, GridShift, Scales, Ws, TP, TEMAX, TW, ToyFull, Sabotage
VARIABLE st

ScalesQuick == {0}
ScalesDeep == {-40, 0, 30}
LawFns == ComplexFns \ {"absolute"}
OddFns == {"asin", "asinh", "atan", "atanh"}
G(j, sc) == DMk(ZFromInt(j), sc - GridShift)

(*************************** sabotage **************************************)
Cut8(X) == IF IIsZeroPt(X) THEN X ELSE <<X[1], DAdd(X[1], DShl(IWidth(X), -3))>>
TV(fn, x, y, sx, sy, W) ==
  LET t == TrueVal(fn, x, y, sx, sy, W)
  IN  IF Sabotage = 1 THEN CV(Cut8(t.re), Cut8(t.im)) ELSE t

(*************************** laws ******************************************)
Has(X, d) == IContains(X, d)
IMulD(X, d, W) == IMul(X, IPt(d), W)
InverseOK(fn, x, y, sx, sy, W) ==
  LET t == TV(fn, x, y, sx, sy, W)
      u == t.re
      v == t.im
  IN  CASE fn = "sqrt" -> Has(ISub(ISqr(u, W), ISqr(v, W), W), x) /\ Has(IScale(IMul(u, v, W), 1), y)
        [] fn = "log" -> LET e == ExpI(u, W) IN Has(IMul(e, CosI(v, W), W), x) /\ Has(IMul(e, SinI(v, W), W), y)
        [] fn \in {"log2", "log10"} ->
             LET l == TV("log", x, y, sx, sy, W)
                 b == LogBase(fn, W)
             IN  IMeets(IMul(u, b, W), l.re) /\ IMeets(IMul(v, b, W), l.im)
        [] fn = "log1p" ->
             LET l == TV("log", DAdd(DOne, x), y, sx, sy, W) IN IMeets(u, l.re) /\ IMeets(v, l.im)
        [] fn = "exp" ->
             IF DLe(DAbs(x), DFromInt(2048)) THEN
               /\ IMeets(IAdd(ISqr(u, W), ISqr(v, W), W), ExpP(DShl(x, 1), W))
               /\ IHasZero(ISub(IMul(v, CosP(y, W), W), IMul(u, SinP(y, W), W), W))
             ELSE \* clamped: the signs of cos y / sin y, beyond 2^5000 (x > 0) or below 2^-2900 (x < 0)
               /\ SgnOfI(u) \in {SgnOfI(CosP(y, W)), 2} /\ SgnOfI(v) \in {SgnOfI(SinP(y, W)), 2}
               /\ (IF DSign(x) > 0 THEN DLe(DPow2(2900), IMag(u)) ELSE DLe(IMag(u), DPow2(-2900)))
        [] fn = "asin" -> Has(IMul(SinI(u, W), CoshI(v, W), W), x) /\ Has(IMul(CosI(u, W), SinhI(v, W), W), y)
        [] fn = "acos" -> Has(IMul(CosI(u, W), CoshI(v, W), W), x) /\ Has(INeg(IMul(SinI(u, W), SinhI(v, W), W)), y)
        [] fn = "asinh" -> Has(IMul(SinhI(u, W), CosI(v, W), W), x) /\ Has(IMul(CoshI(u, W), SinI(v, W), W), y)
        [] fn = "acosh" -> Has(IMul(CoshI(u, W), CosI(v, W), W), x) /\ Has(IMul(SinhI(u, W), SinI(v, W), W), y)
        [] fn = "atanh" ->
             LET d == IAdd(CoshI(IScale(u, 1), W), CosI(IScale(v, 1), W), W)
             IN  IMeets(SinhI(IScale(u, 1), W), IMulD(d, x, W)) /\ IMeets(SinI(IScale(v, 1), W), IMulD(d, y, W))
        [] fn = "atan" ->
             LET d == IAdd(CosI(IScale(u, 1), W), CoshI(IScale(v, 1), W), W)
             IN  IMeets(SinI(IScale(u, 1), W), IMulD(d, x, W)) /\ IMeets(SinhI(IScale(v, 1), W), IMulD(d, y, W))
        [] fn = "square" -> DEq(u[1], DSub(DMul(x, x), DMul(y, y))) /\ DEq(v[2], DShl(DMul(x, y), 1))
AbsLe(X, Bd) == DLe(IMig(X), Bd[2])          \* some point of X has |x| <= b
RangeOK(fn, x, y, sx, sy, W) ==
  LET t == TV(fn, x, y, sx, sy, W)
  IN  CASE fn = "sqrt" -> DSign(t.re[2]) >= 0
        [] fn \in {"log", "log1p"} -> AbsLe(t.im, PiT(W))
        [] fn = "asin" -> AbsLe(t.re, IScale(PiT(W), -1))
        [] fn = "acos" -> DSign(t.re[2]) >= 0 /\ AbsLe(t.re, PiT(W))
        [] fn = "asinh" -> AbsLe(t.im, IScale(PiT(W), -1))
        [] fn = "acosh" -> DSign(t.re[2]) >= 0 /\ AbsLe(t.im, PiT(W))
        [] fn = "atanh" -> AbsLe(t.im, IScale(PiT(W), -1))
        [] fn = "atan" -> AbsLe(t.re, IScale(PiT(W), -1))
        [] OTHER -> TRUE
ConjOK(fn, x, y, sx, sy, W) ==
  LET t == TV(fn, x, y, sx, sy, W)
      c == TV(fn, x, DNeg(y), sx, 1 - sy, W)
  IN  c.re = t.re /\ c.im = INeg(t.im)
OddOK(fn, x, y, sx, sy, W) ==
  fn \in OddFns =>
    LET t == TV(fn, x, y, sx, sy, W)
        c == TV(fn, DNeg(x), DNeg(y), 1 - sx, 1 - sy, W)
    IN  c.re = INeg(t.re) /\ c.im = INeg(t.im)
\* the zero components replaced by +-delta according to their sign bits
Delta(sc) == DPow2(sc - 60)
Nudge(v, s, sc) == IF DIsZero(v) THEN (IF s = 1 THEN DNeg(Delta(sc)) ELSE Delta(sc)) ELSE v
Near(X, Y) == IMeets(<<DSub(X[1], DPow2(-24)), DAdd(X[2], DPow2(-24))>>, Y)
CutOK(fn, x, y, sx, sy, sc, W) ==
  (OnCut(fn, x, y) # "" /\ ~Pole(fn, x, y)) =>
    LET t == TV(fn, x, y, sx, sy, W)
        n == TV(fn, Nudge(x, sx, sc), Nudge(y, sy, sc), sx, sy, W)
    IN  Near(t.re, n.re) /\ Near(t.im, n.im)
ZeroSignOK(fn, x, y, sx, sy, sc, W) ==
  (DIsZero(x) \/ DIsZero(y)) =>
    LET t == TV(fn, x, y, sx, sy, W)
        \* nudge only the component whose sign bit the demanded sign depends on
        nr == TV(fn, Nudge(x, sx, sc), y, sx, sy, W)
        ni == TV(fn, x, Nudge(y, sy, sc), sx, sy, W)
        er == ExpZero(fn, "re", sx, sy)
        ei == ExpZero(fn, "im", sx, sy)
    IN  /\ (IIsZeroPt(t.re) /\ er # 2 /\ DIsZero(x) /\ ~Pole(fn, Nudge(x, sx, sc), y)) => SgnOfI(nr.re) = er
        /\ (IIsZeroPt(t.im) /\ ei # 2 /\ DIsZero(y) /\ fn # "square" /\ ~Pole(fn, x, Nudge(y, sy, sc))) => SgnOfI(ni.im) = ei
Rel(X, W) == IIsZeroPt(X) \/ IRelWidthLe(X, 12 - W)
ShapeOK(fn, x, y, sx, sy, W) ==
  LET t == TV(fn, x, y, sx, sy, W)
      clamped == fn = "exp" /\ DLt(ExpBig, DAbs(x))           \* clamped enclosures are wide by construction
  IN  IWellFormed(t.re) /\ IWellFormed(t.im) /\ (clamped \/ (Rel(t.re, W) /\ Rel(t.im, W)))
NestedOK(fn, x, y, sx, sy, W) ==
  LET t == TV(fn, x, y, sx, sy, W)
      t2 == TV(fn, x, y, sx, sy, 2 * W)
  IN  ISubset(t2.re, t.re) /\ ISubset(t2.im, t.im)

PointLaws == {"inverse", "range", "conj", "odd", "cut", "zerosign", "shape", "nested"}
PointOK(law, fn, x, y, sx, sy, sc, W) ==
  Pole(fn, x, y) \/
 (CASE law = "inverse" -> InverseOK(fn, x, y, sx, sy, W)
    [] law = "range" -> RangeOK(fn, x, y, sx, sy, W)
    [] law = "conj" -> ConjOK(fn, x, y, sx, sy, W)
    [] law = "odd" -> OddOK(fn, x, y, sx, sy, W)
    [] law = "cut" -> CutOK(fn, x, y, sx, sy, sc, W)
    [] law = "zerosign" -> ZeroSignOK(fn, x, y, sx, sy, sc, W)
    [] law = "shape" -> ShapeOK(fn, x, y, sx, sy, W)
    [] law = "nested" -> NestedOK(fn, x, y, sx, sy, W))

(*************************** toy format ************************************)
Toy == [p |-> TP, emax |-> TEMAX, w |-> TW]
ToyNaN == NAdd(InfMag(Toy), NOne)
ToyMags == IF ToyFull THEN {b \in AllBits(Toy) : SignBit(Toy, b) = 0 /\ ~IsNaN(Toy, b)}
           ELSE {<<>>, NOne, MinNormalMag(Toy), OneBits(Toy), NAdd(OneBits(Toy), NFromInt(3)), LargestMag(Toy), InfMag(Toy)}
ToyPats == {WithSign(Toy, s, m) : s \in {0, 1}, m \in ToyMags}
\* a correctly rounded result for a component descriptor / enclosure
RNLo(X) == RN(Toy, X[1])
OfDesc(fn, d) ==
  CASE d.k = "free" -> ToyNaN
    [] d.k = "inf" -> WithSign(Toy, IF d.s = 2 THEN 0 ELSE d.s, InfMag(Toy))
    [] d.k = "zero" -> WithSign(Toy, IF d.s = 2 THEN 0 ELSE d.s, <<>>)
    [] OTHER -> RNLo(ConstI(fn, d, 96))
OfIv(X, zs) == IF IIsZeroPt(X) THEN WithSign(Toy, IF zs = 2 THEN 0 ELSE zs, <<>>) ELSE RNs(Toy, X[1], IF DSign(X[2]) < 0 THEN 1 ELSE 0)
Ideal(fn, x, y) ==
  LET f == Toy
      sx == SignBit(f, x)
      sy == SignBit(f, y)
      xi == IsInf(f, x)
      yi == IsInf(f, y)
  IN  IF fn = "absolute" THEN
        (IF xi \/ yi THEN <<PosInf(f), <<>>>>
         ELSE <<FSqrt(f, <<>>), <<>>>>)            \* placeholder, absolute is covered by MC_Accuracy (hypot)
      ELSE IF xi \/ yi THEN
        LET d == InfTable(fn, xi, yi, sx, sy, IsZero(f, x), IsZero(f, y), IF yi THEN DZero ELSE Val(f, y))
        IN  <<OfDesc(fn, d.re), OfDesc(fn, d.im)>>
      ELSE IF Pole(fn, Val(f, x), Val(f, y)) THEN
        LET d == PoleTable(fn, sx, sy) IN <<OfDesc(fn, d.re), OfDesc(fn, d.im)>>
      ELSE LET t == TrueVal(fn, Val(f, x), Val(f, y), sx, sy, 96)
           IN  <<OfIv(t.re, ExpZero(fn, "re", sx, sy)), OfIv(t.im, ExpZero(fn, "im", sx, sy))>>
\* 18 lattice steps (16 + 1 for a tie + 1) away from zero, or toward zero when that would pass infinity (never across zero: the
\* mirror image is the value of the other side of a cut); Movable: one of the two is possible
Step == NFromInt(18)
Movable(w) == ~IsNaN(Toy, w) /\ (NCmp(NAdd(Mag(Toy, w), Step), InfMag(Toy)) <= 0 \/ NCmp(Mag(Toy, w), Step) >= 0)
Moved(w) == LET far == NAdd(Mag(Toy, w), Step)
            IN  IF NCmp(far, InfMag(Toy)) <= 0 THEN WithSign(Toy, SignBit(Toy, w), far)
                ELSE WithSign(Toy, SignBit(Toy, w), NSub(Mag(Toy, w), Step))
ToyOK(fn, x, y) ==
  fn # "absolute" =>
    LET w == Ideal(fn, x, y)
        good == VerdictC(fn, Toy, x, y, w[1], w[2])
        nanre == VerdictC(fn, Toy, x, y, ToyNaN, w[2])
    IN  /\ good.fails = {}
        /\ (~IsNaN(Toy, w[1]) => nanre.fails # {})
        /\ (Movable(w[1]) => VerdictC(fn, Toy, x, y, Moved(w[1]), w[2]).fails # {})
        /\ (Movable(w[2]) => VerdictC(fn, Toy, x, y, w[1], Moved(w[2])).fails # {})

(*************************** states ****************************************)
SignBits(v) == IF DIsZero(v) THEN {0, 1} ELSE {IF DSign(v) < 0 THEN 1 ELSE 0}
\* root -> one group per (law, function) -> the instances of the group (fan-out so that all TLC workers
\* evaluate invariants; TLC checks invariants of initial states in one thread)
PointStates(law, fn) ==
  UNION {UNION {{<<law, fn, j, k, sx, sy, sc, W>> : sx \in SignBits(G(j, sc)), sy \in SignBits(G(k, sc))}
                : j \in -GridN..GridN, k \in -GridN..GridN}
         : sc \in Scales, W \in Ws}
ToyStates(fn) == {<<"toy", fn, x, y>> : x \in ToyPats, y \in ToyPats}
Groups == {<<"group", law, fn>> : law \in PointLaws \cup {"toy"}, fn \in LawFns}
Init == st = <<"root">>
Next == \/ st = <<"root">> /\ st' \in Groups
        \/ st[1] = "group" /\ st' \in (IF st[2] = "toy" THEN ToyStates(st[3]) ELSE PointStates(st[2], st[3]))
Spec == Init /\ [][Next]_st

LawsOK ==
  CASE st[1] \in PointLaws -> PointOK(st[1], st[2], G(st[3], st[7]), G(st[4], st[7]), st[5], st[6], st[7], st[8])
    [] st[1] = "toy" -> ToyOK(st[2], st[3], st[4])
    [] OTHER -> TRUE
Count == st[1] = "group" => PrintT(<<"WORK", st[2], st[3], Cardinality(IF st[2] = "toy" THEN ToyStates(st[3]) ELSE PointStates(st[2], st[3]))>>)
=============================================================================
