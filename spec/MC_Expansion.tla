---------------------------- MODULE MC_Expansion ----------------------------
(***************************************************************************)
(* U1 for C12: exhaustive small-scope check of the design of Expansion.tla *)
(* on a toy format F (cfg: T3 = [p = 3, emax = 3, w = 6], 56 finite        *)
(* patterns incl. +-0 and subnormals).                                     *)
(* States: every list of 1..MaxLen finite patterns whose first item has a  *)
(* pattern <= FirstMax (27 = largest positive finite pattern of T3: uses   *)
(* the sign symmetry of round-to-nearest-even; 63: all).  Interior zeros,  *)
(* equal magnitudes, cancellation to zero, overlapping and unsorted lists  *)
(* are all present.  The transcribed runs are computed once per list in    *)
(* the step (variable r) and the invariants relate them.                   *)
(* Checked on every list inside NoOverflow:                                *)
(*  TwoSumExact   the code's 2Sum equals the ideal error-free sum; the      *)
(*                code's Fast2Sum does whenever F2SOk holds (all pairs)    *)
(*  IdealIsSafe   the documented algorithm run with the ideal sum equals   *)
(*                the transcription of the code's safe variant             *)
(*  FastIsSafe    FastOK => the fast variant equals the safe variant       *)
(*  Functional    the select-based loop + nztopk (transcribed literally)   *)
(*                equals the eager result cut to the limit and padded with *)
(*                zeros, for every limit 1..MaxLen and none, safe and fast *)
(*  ValueKept     safe variant: exact sum preserved by pass 1 and pass 2   *)
(*  TwoPasses     safe variant: pass 1 or pass 2 is in normal form         *)
(*  ClausesHold   PassFails of the transcriptions is empty (the clause set *)
(*                is satisfiable by the design, eager and functional)      *)
(* Witness lines <<"W", kind, sorted>> are printed for lists that need the *)
(* second pass, for sorted lists outside FastOK whose sum the fast variant *)
(* changes, and for total cancellation: the driver requires them to occur  *)
(* (non-vacuity).                                                          *)
(***************************************************************************)
EXTENDS Expansion, TLC

CONSTANTS Fmt, MaxLen, FirstMax
T3 == [p |-> 3, emax |-> 3, w |-> 6]
T4 == [p |-> 4, emax |-> 3, w |-> 7]
F == Fmt

VARIABLES l, ph, r
vars == <<l, ph, r>>

Fin == {NFromInt(i) : i \in {j \in 0..(Pow2(F.w) - 1) : IsFinite(F, NFromInt(j))}}
Firsts == {NFromInt(i) : i \in {j \in 0..FirstMax : IsFinite(F, NFromInt(j))}}
Limits == (1..MaxLen) \cup {NoLimit}

\* all transcribed runs of a list (only inside NoOverflow)
Runs(x) ==
  IF ~NoOverflow(F, x) THEN [dom |-> FALSE]
  ELSE LET vs == VecSum(F, x, "safe")
           vf == VecSum(F, x, "fast")
           bs == ErrBranchFrom(F, vs.e, 1, vs.e[1], "safe")
           bf == ErrBranchFrom(F, vf.e, 1, vf.e[1], "fast")
           id == RenormRun(F, x, "ideal")
       IN  [dom |-> TRUE,
            safe1 |-> bs.out,
            safe2 |-> IF bs.out = <<>> THEN <<>> ELSE RenormRun(F, bs.out, "safe").out,
            fast1 |-> bf.out,
            ideal1 |-> id.out,
            fastok |-> id.ok,
            fls |-> FunctionalList(F, x, vs, "safe"),
            flf |-> FunctionalList(F, x, vf, "fast")]

Init == ph = 0 /\ l \in {<<x>> : x \in Firsts} /\ r = [dom |-> FALSE]
Next == /\ ph = 0 /\ ph' = 1
        /\ \/ l' = l
           \/ MaxLen >= 2 /\ \E y \in Fin : l' = l \o <<y>>
           \/ MaxLen >= 3 /\ \E y \in Fin, z \in Fin : l' = l \o <<y, z>>
           \/ MaxLen >= 4 /\ \E y \in Fin, z \in Fin, u \in Fin : l' = l \o <<y, z, u>>
        /\ r' = Runs(l')
Spec == Init /\ [][Next]_vars

Dom == ph = 1 /\ r.dom

TwoSumExact ==
  (Dom /\ Len(l) = 2) =>
     LET a == TS(F, l[1], l[2], "ideal")
         b == TS(F, l[1], l[2], "safe")
         c == TS(F, l[1], l[2], "fast")
     IN  /\ a.s = b.s /\ SameVal(F, a.t, b.t)
         /\ DEq(DAdd(Val(F, a.s), Val(F, a.t)), DAdd(Val(F, l[1]), Val(F, l[2])))
         /\ F2SOk(F, l[1], l[2]) => (a.s = c.s /\ SameVal(F, a.t, c.t))

IdealIsSafe == Dom => SameVals(F, r.ideal1, r.safe1)
FastIsSafe == (Dom /\ r.fastok) => SameVals(F, r.fast1, r.safe1)
FastOKAgrees == Dom => (r.fastok = FastOK(F, l))

FunEq(e, fl, k) ==
  LET g == NzTopK(F, fl, Min(k, Len(fl)))
  IN  SameVals(F, g, Pad(F, Take(e, k), Min(k, Len(l)))) /\ ZerosRight(F, g)
Functional == Dom => \A k \in Limits : FunEq(r.safe1, r.fls, k) /\ FunEq(r.fast1, r.flf, k)

ValueKept ==
  Dom => /\ AllFinite(F, r.safe1) /\ DEq(Sum(F, r.safe1), Sum(F, l))
         /\ AllFinite(F, r.safe2) /\ DEq(Sum(F, r.safe2), Sum(F, l))

TwoPasses == Dom => (NF(F, r.safe1) \/ NF(F, r.safe2))

ClausesHold ==
  Dom => \A k \in Limits :
            /\ PassFails(F, l, Take(r.safe1, k), FALSE, FALSE, k, TRUE) = {}
            /\ PassFails(F, l, NzTopK(F, r.fls, Min(k, Len(r.fls))), TRUE, FALSE, k, TRUE) = {}
            /\ PassFails(F, l, Take(r.fast1, k), FALSE, TRUE, k, r.fastok) = {}
            /\ PassFails(F, l, NzTopK(F, r.flf, Min(k, Len(r.flf))), TRUE, TRUE, k, r.fastok) = {}

Witnesses ==
  Dom =>
    /\ (IF NF(F, r.safe1) THEN TRUE ELSE PrintT(<<"W", "second_pass", Sorted(F, l)>>))
    /\ (IF Sorted(F, l) /\ ~r.fastok /\ ~DEq(Sum(F, r.fast1), Sum(F, l))
        THEN PrintT(<<"W", "fast_sorted_sum_changed", TRUE>>) ELSE TRUE)
    /\ (IF Len(l) >= 2 /\ NNZ(F, l) >= 2 /\ r.safe1 = <<>> THEN PrintT(<<"W", "cancel_to_zero", TRUE>>) ELSE TRUE)
=============================================================================
