--------------------------- MODULE CompoundShapes ---------------------------
(***************************************************************************)
(* U2 for C11: TLC enumerates the discrete operand shapes of the compound  *)
(* operations, one state per shape, printed as <<"S", shape>>; the driver  *)
(* (harness/props/c11.py) concretises every shape in float16, float32 and  *)
(* float64 (drawing the unspecified bits from the seed) and calls the real *)
(* code.  Whether a concretised tuple lies in the documented domain, is a  *)
(* tie, cancels, ... is decided afterwards by the specification            *)
(* (Trace_Compound!Stats), never by the driver.                            *)
(*                                                                         *)
(* Significand patterns (Mant): one = 1.0...0, onep = 1.0...01, max =      *)
(* 1.1...1, maxm = 1.1...10, two = 1 + 2^-k (two bits set), few = a few    *)
(* leading bits, rand.                                                     *)
(*                                                                         *)
(* "ps" product-sum shapes <<"ps", mx, my, pe, zr, zs>> (fma, mul_add):    *)
(*   pe: magnitude class of x*y - sub (below the smallest normal), lowerr  *)
(*       (normal, but the error term of the product underflows), mid, hi   *)
(*       (at the edge of mul_add's domain), top (top binade: fma only)     *)
(*   zr: z relative to x*y - zero, negzero, cancel0 (z = -RN(x*y)),        *)
(*       cancel1 / cancelk (1 / a few ulps away from it), gapbig (z far    *)
(*       above), gapup, gap0, gapdown (overlapping exponents), gaphalf (z  *)
(*       about half an ulp of x*y, or x*y half an ulp of z), gapfar (far   *)
(*       below the low word of the product: a sticky bit), tie (x*y+z      *)
(*       exactly half-way between two floats), tieeps (a tie displaced by  *)
(*       far-away low bits), zsub (z subnormal), zmax (z at the top of the *)
(*       domain), zmaxhalf (z largest and RN(x*y) = half an ulp of it)     *)
(*   zs: sign of z relative to the product                                 *)
(* "sum" shapes <<"sum", n, pat, mag, m>> (add_3sum n = 3, add_4sum n = 4):*)
(*   pat: rand, cancel2 (y ~ -x), cancel3 (z ~ -(x+y)), cancelall (n = 4:  *)
(*        w ~ -(x+y+z)), cancelpairs (n = 4: a, b about p binades apart    *)
(*        and their negatives displaced by a few ulps: the sum lives in    *)
(*        the second-order error terms), ladder (non-overlapping, gaps of  *)
(*        p), ladderhalf                                                   *)
(*        (each exactly half an ulp of the previous), tie (y half an ulp   *)
(*        of x, the rest multiples of the ulp), tieup / tiedown (a tie     *)
(*        displaced by a tiny last operand), pow2edge (the sum falls just  *)
(*        below a power of two), equal, zeros, overlap (gaps of about p/2) *)
(*   mag: sub, low, mid, hi (at the edge |v| < largest/4)                  *)
(* "dot" shapes <<"dot", mx, my, pe, rel>> (dot2): rel of z*w to x*y -     *)
(*   rand, cancel (z*w ~ -x*y), cancelexact (z = -x, w = y or next to y),  *)
(*   gapup, gapdown, gaphalf, gapfar, tie (z a power of two: z*w exact),   *)
(*   tiny (z*w underflows)                                                 *)
(* "una" shapes <<"una", m, reg>> (next, is_power_of_two in float32 and    *)
(*   float64; float16 is enumerated exhaustively by the driver): reg -     *)
(*   sublo, submid, subhi, minnormal, low, mid, winedge (upper edge of the *)
(*   is_power_of_two window), high, max                                    *)
(***************************************************************************)
EXTENDS Naturals, TLC
VARIABLE s

Mant == {"one", "onep", "max", "maxm", "two", "few", "rand"}
MantFew == {"one", "onep", "max", "two", "rand"}
PE == {"sub", "lowerr", "mid", "hi", "top"}
ZR == {"zero", "negzero", "cancel0", "cancel1", "cancelk", "gapbig", "gapup", "gap0", "gapdown", "gaphalf",
       "gapfar", "tie", "tieeps", "zsub", "zmax", "zmaxhalf"}
PS == {<<"ps", mx, my, pe, zr, zs>> : mx \in MantFew, my \in MantFew, pe \in PE, zr \in ZR, zs \in {"same", "opp"}}
\* shapes whose z is determined by the product do not vary zs
PSOK(t) == t[5] \in {"zero", "negzero", "cancel0", "tie", "tieeps", "zmaxhalf"} => t[6] = "same"

SumPat3 == {"rand", "cancel2", "cancel3", "ladder", "ladderhalf", "tie", "tieup", "tiedown", "pow2edge",
            "equal", "zeros", "overlap"}
SumPat4 == SumPat3 \cup {"cancelall", "cancelpairs"}
Mag == {"sub", "low", "mid", "hi"}
Sum == {<<"sum", 3, pat, mag, m>> : pat \in SumPat3, mag \in Mag, m \in Mant}
       \cup {<<"sum", 4, pat, mag, m>> : pat \in SumPat4, mag \in Mag, m \in Mant}

Rel == {"rand", "cancel", "cancelexact", "gapup", "gapdown", "gaphalf", "gapfar", "tie", "tiny"}
Dot == {<<"dot", mx, my, pe, rel>> : mx \in MantFew, my \in MantFew, pe \in PE \ {"top"}, rel \in Rel}

Reg == {"sublo", "submid", "subhi", "minnormal", "low", "mid", "winedge", "high", "max"}
Una == {<<"una", m, reg>> : m \in Mant, reg \in Reg}

Shapes == {t \in PS : PSOK(t)} \cup Sum \cup Dot \cup Una

Init == s \in Shapes
Next == UNCHANGED s
Spec == Init /\ [][Next]_s
Emit == PrintT(<<"S", s>>)
=============================================================================
