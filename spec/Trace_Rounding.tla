--------------------------- MODULE Trace_Rounding ---------------------------
(***************************************************************************)
(* U3 for C15: every recorded call of the real utils.mpf2float and of the  *)
(* real multiprecision backend (utils.vectorize_with_mpmath and            *)
(* utils.numpy_with_mpmath) is judged by Rounding.tla.                     *)
(*                                                                         *)
(* Events (one ndjson line each; floats are raw bit patterns, big integers *)
(* limb lists, nothing is interpreted by the driver):                      *)
(*  kind "m2f": fmt, cls ("fin" | "inf" | "ninf" | "nan": mpmath's own     *)
(*     classification of the argument), sign/man/exp/bc = the argument's   *)
(*     raw _mpf_ tuple, flush = the flush_subnormals argument, r = result  *)
(*     bits, raised = exception type name or "", shape = <<>> or           *)
(*     <<tail, n>> (what the driver claims to have generated).             *)
(*  kind "be": fmt, fn, a, b = input bits (b = <<>> for unary functions),  *)
(*     flush ("unspec" | "false" | "true"), xp / xm = extra_prec and       *)
(*     extra_prec_multiplier options, r = result bits, raised.             *)
(* The total extra working precision is xp + xm * p bits.                  *)
(*                                                                         *)
(* Notes (statistics, never failures): sub_not_rn (conversion differs from *)
(* RN where the statement demands nothing), drift (result differs from the *)
(* transcription CodeM2F), shape_mismatch / bc (harness defects: the       *)
(* driver turns them into machinery failures), and the BENotes.            *)
(***************************************************************************)
EXTENDS Rounding, TraceKit
VARIABLE l

\* does a result that was correctly rounded twice (to p + extra bits, then to
\* the format) violate "returns the correctly rounded result"?  Read literally: yes.
DoubleRoundingIsFailure == TRUE

M2FVerdict(e) ==
  LET f == FmtOf(e.fmt)
  IN  IF e.raised # "" THEN [fails |-> {"raised"}, notes |-> {}]
      ELSE IF e.cls # "fin" THEN
         [fails |-> IF \/ e.cls = "inf" /\ e.r = PosInf(f)
                       \/ e.cls = "ninf" /\ e.r = NegInf(f)
                       \/ e.cls = "nan" /\ IsNaN(f, e.r)
                    THEN {} ELSE {"special"},
          notes |-> {}]
      ELSE
      LET d == MpfVal(e.sign, e.man, e.exp)
          rn == RN(f, d)
      IN  [fails |-> M2FFailsR(f, d, rn, e.r, e.flush),
           notes |-> (IF M2FNotRNR(f, d, rn, e.r) THEN {"sub_not_rn"} ELSE {})
                     \cup (IF e.r # CodeM2F(f, d, e.flush) THEN {"drift"} ELSE {})
                     \cup (IF e.bc # NBitLen(e.man) THEN {"bc"} ELSE {})
                     \cup (IF e.shape # <<>> /\ ~ShapeHolds(f, d, e.shape[1], e.shape[2])
                           THEN {"shape_mismatch"} ELSE {})]

BEVerdict(e) ==
  LET f == FmtOf(e.fmt)
      xtra == e.xp + e.xm * f.p
  IN  IF e.raised # "" THEN [fails |-> {"raised"}, notes |-> {}]
      ELSE [fails |-> BEFails(f, e.fn, e.a, e.b, e.flush, xtra, e.r, DoubleRoundingIsFailure),
            notes |-> BENotes(f, e.fn, e.a, e.b, e.flush, xtra, e.r)]

Verdict(e) == IF e.kind = "m2f" THEN M2FVerdict(e) ELSE BEVerdict(e)

Init == l = 1
Next == /\ l <= Len(Trace)
        /\ LET e == Trace[l]
               v == Verdict(e)
           IN  /\ Report(e, v.fails)
               /\ (IF v.notes = {} THEN TRUE ELSE PrintT(<<"NOTE", e.id, v.notes>>))
        /\ l' = l + 1
Spec == Init /\ [][Next]_l
=============================================================================
