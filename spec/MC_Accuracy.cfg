\* U1: clause machinery of Accuracy.tla on the toy format p = 3, emax = 3, 6 bits: all inputs x all outputs
SPECIFICATION Spec
CONSTANTS
  TP = 3
  TEMAX = 3
  TW = 6
INVARIANT AccOK
INVARIANT Count
CHECK_DEADLOCK FALSE
