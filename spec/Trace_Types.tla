----------------------------- MODULE Trace_Types -----------------------------
(***************************************************************************)
(* C08, code -> spec.  One event per value that the emitted NumPy text     *)
(* binds to a variable (argument casts, referenced sub-expressions,        *)
(* `result`), recorded while the text runs on one input vector:            *)
(*   k        kind of the graph node the variable holds                    *)
(*   ots      static types the package reports for the node's operands     *)
(*            (for a leaf: <<its own type>>), each <<kind, bits>>, bits 0  *)
(*            for an unsized type                                          *)
(*   ods      run-time dtypes observed for the operands in THIS run        *)
(*            (<<"?", 0>> for an operand the text inlines), full = all     *)
(*            operands were observed                                       *)
(*   st       static type the package reports: node.get_type()             *)
(*   decl     dtype the emitted text declares for the variable (its        *)
(*            annotation; the `->` annotation for `result`), <<"?", 0>> if *)
(*            it declares none                                             *)
(*   rt       dtype of the value actually bound (<<"py_float", 0>> ... for *)
(*            a value without a dtype)                                     *)
(*   asserted / fired   the text has a debug-1 assertion for the variable  *)
(*            / that assertion raised                                      *)
(*   res, ret the variable is `result`; the dtype of the `->` annotation   *)
(*   trusted  the program is a shipped algorithm (well-typed by fiat)      *)
(*   shared   number of distinct graph nodes bound to this variable (the   *)
(*            package names a constant after its value only; nodes with    *)
(*            one name share one variable, declared for the first)         *)
(*                                                                         *)
(* PROPERTY clauses (Fails):                                               *)
(*   mismatch             rt differs from the dtype of the static type st  *)
(*                        (FATypes!DtypeOf; for an unsized st the width is *)
(*                        the one the package itself declares, only the    *)
(*                        kind is fixed) while the operands are all as     *)
(*                        their static types say                           *)
(*   mismatch_shared_name the same, for a variable that `shared` > 1       *)
(*                        distinct graph nodes are bound to (they have one *)
(*                        reference name; the text binds the first)        *)
(*   mismatch_inherited   the same, but some operand already mismatches:   *)
(*                        downstream of an earlier failure; the driver     *)
(*                        reports it under the class(es) of the            *)
(*                        mismatching operands it descends from            *)
(*   mismatch_partial_view  the same, seen in a run where an operand was   *)
(*                        inlined (attributed through the fully referenced *)
(*                        run of the same program on the same inputs)      *)
(*   assert_fired         a debug-1 assertion raised                       *)
(*   result_dtype         `result` does not have the declared dtype        *)
(*   declaration          the text declares a dtype other than that of a   *)
(*                        sized st                                         *)
(* A node is judged only inside the typing discipline: its static type and *)
(* its operands' are of the widths the property names (float16/32/64,      *)
(* complex64/128, unsized, integer, boolean); kinds FATypes knows must     *)
(* satisfy WellTyped on the reported operand types; kinds it does not      *)
(* know (introduced by the package's own expansions) and shipped           *)
(* algorithms are well-typed by construction.                              *)
(* DRIFT notes (never alarm, never change a verdict): st # TypeOf(k, ots);  *)
(* rt \notin NpResult(...) or NpResult does not model the operand dtypes;   *)
(* an unsized st declared with another width than DtypeOf assumes;         *)
(* an event outside the discipline.                                        *)
(***************************************************************************)
EXTENDS FATypes, TraceKit
VARIABLE l

Known(d) == d[1] # "?"
Modelled(e) == e.k \in OpKinds \cup LeafKinds
\* the widths the property speaks about (the package's rewriting can fold a select and turn e.g. an upcast of
\* complex64 into an upcast of float64: float128 is outside the scope)
InScope(t) == CASE IsFloat(t) -> t[2] \in {0, 16, 32, 64}
                [] IsCplx(t) -> t[2] \in {0, 64, 128}
                [] IsInt(t) \/ IsBool(t) -> TRUE
                [] OTHER -> FALSE
InDiscipline(e) == /\ InScope(e.st)
                   /\ \A i \in 1..Len(e.ots) : InScope(e.ots[i])
                   /\ (e.trusted \/ ~(e.k \in OpKinds) \/ WellTyped(e.k, e.ots))

\* the dtype the static type stands for
Expected(e) ==
  LET d == DtypeOf(e.st)
  IN  IF e.st[2] = 0 /\ e.shared <= 1 /\ Known(e.decl) /\ e.decl[1] = d[1] THEN e.decl ELSE d

OperandsMatched(e) == e.k \in LeafKinds \/ \A i \in 1..Len(e.ods) : DtypeOf(e.ots[i]) = e.ods[i]
Mismatch(e) == e.rt # Expected(e)

Fails(e) ==
  IF ~InDiscipline(e) THEN {}
  ELSE (IF Mismatch(e)
          THEN (IF ~e.full THEN {"mismatch_partial_view"}
                ELSE IF e.shared > 1 THEN {"mismatch_shared_name"}
                ELSE IF OperandsMatched(e) THEN {"mismatch"}
                ELSE {"mismatch_inherited"})
          ELSE {})
       \cup (IF e.fired THEN {"assert_fired"} ELSE {})
       \cup (IF e.res /\ Known(e.ret) /\ e.rt # e.ret THEN {"result_dtype"} ELSE {})
       \cup (IF Known(e.decl) /\ e.shared <= 1 /\ e.st[2] # 0 /\ e.decl # DtypeOf(e.st) THEN {"declaration"} ELSE {})

Drift(e) ==
  (IF ~InDiscipline(e) THEN {"outside_discipline"} ELSE {})
  \cup (IF Modelled(e) /\ e.st # TypeOf(e.k, e.ots) THEN {"typeof"} ELSE {})
  \cup (IF Modelled(e) /\ e.full /\ e.shared <= 1 /\ InDiscipline(e) /\ NpResult(e.k, e.ots, e.ods) # {}
           /\ ~(e.rt \in NpResult(e.k, e.ots, e.ods)) THEN {"npresult"} ELSE {})
  \cup (IF Modelled(e) /\ e.full /\ e.shared <= 1 /\ InDiscipline(e) /\ NpResult(e.k, e.ots, e.ods) = {}
        THEN {"npresult_not_modelled"} ELSE {})
  \cup (IF e.st[2] = 0 /\ e.shared <= 1 /\ Known(e.decl) /\ e.decl # DtypeOf(e.st) THEN {"dtypeof_unsized"} ELSE {})

Init == l = 1
Next == /\ l <= Len(Trace)
        /\ Report(Trace[l], Fails(Trace[l]))
        /\ (IF Drift(Trace[l]) = {} THEN TRUE ELSE Note(Trace[l], Drift(Trace[l])))
        /\ l' = l + 1
Spec == Init /\ [][Next]_l
=============================================================================
