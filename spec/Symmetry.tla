------------------------------ MODULE Symmetry ------------------------------
(***************************************************************************)
(* C03 - symmetries and cross-function identities of the algorithms hold   *)
(* bit for bit.                                                            *)
(*                                                                         *)
(* A datum is the raw bit pattern of a float of format f (IEEE.tla), a     *)
(* BigInt natural.  A value is a tuple of data: <<re, im>> for a complex   *)
(* number, <<x>> for a real one (real arguments, real results - also the   *)
(* real result of complex `absolute`).  The symmetries are operations on   *)
(* BIT PATTERNS: a flip of the sign bit, a swap of components.  Nothing is *)
(* decoded except where an exclusion set of the statement needs it (is a   *)
(* component a zero / a NaN, is a magnitude >= 1).                         *)
(*                                                                         *)
(*   Conj(z) = (re, -im)   Neg(z) = (-re, -im)   RotI(z) = i*z = (-im, re) *)
(*   NRotI(z) = -i*z = (im, -re);   on a 1-tuple Conj = id, Neg = (-x).    *)
(*                                                                         *)
(* Equality of results is equality of bit patterns, with NaN matching NaN: *)
(* any NaN pattern equals any NaN pattern, componentwise.                  *)
(*                                                                         *)
(* The identities (statement of C03) and their exclusion sets, each a      *)
(* predicate on the bit patterns of the input z:                           *)
(*                                                                         *)
(*  conj   f(Conj z) = Conj f(z)     every complex algorithm.              *)
(*         Demanded iff im z is not a zero ("every input with non-zero     *)
(*         imaginary part").                                               *)
(*  odd    f(Neg z) = Neg f(z)       asin, asinh, atan, atanh (complex and *)
(*         real).  Demanded iff z is not a zero-component point of the     *)
(*         function's branch cuts:                                         *)
(*           asin, atanh : im z = +-0 and |re z| >= 1                      *)
(*           asinh, atan : re z = +-0 and |im z| >= 1                      *)
(*         There the sign of the zero selects the side of the cut and Neg  *)
(*         flips it, so "the branch cut makes the identity depend on the   *)
(*         sign of zero"; the branch points |.| = 1 are counted to the cut *)
(*         (leniency).  Everywhere else - in particular on the axes OFF    *)
(*         the cuts and at the origin - oddness is demanded.               *)
(*  even   f(Neg z) = f(z)           square (complex and real); every z.   *)
(*  rot    asinh(z) = NRotI(asin(RotI z)),  atan(z) = NRotI(atanh(RotI z)) *)
(*         every z (RotI maps the cut points of asinh/atan onto those of   *)
(*         asin/atanh with the same zero, so no sign of zero is lost).     *)
(*  acosh  acosh(z) = RotI(acos z) if im z is not negative, NRotI(acos z)  *)
(*         otherwise.  "Negative" is decided on the VALUE: sign bit set    *)
(*         and not a zero.  When im z = +-0 the whole real axis lies on a  *)
(*         cut of acos or acosh and the side is chosen by the sign of the  *)
(*         zero, so EITHER rotation is accepted there (leniency).          *)
(*  acos_im  im acos(z) = -im asin(z)   every z.                           *)
(*                                                                         *)
(* NaN inputs (leniency): an input with a NaN component is outside the     *)
(* domain of EVERY identity.  The statement quantifies over "all complex   *)
(* and real inputs (including infinities, zeros and subnormals ...)"; the  *)
(* sign bit of a NaN carries no sign (every comparison with it is false),  *)
(* so for such inputs the identities would only restate how NaNs propagate *)
(* through the sign selects, which the statement does not claim.           *)
(*                                                                         *)
(* A failing identity is reported as a clause NAME that spells its class:  *)
(*     <identity>:<zero class of z>:<cut>:<component kinds>                *)
(*   zero class: nz | re0 | im0 | both0 (x0 for a real argument)           *)
(*   cut       : oncut | offcut  (w.r.t. the cut of the function for odd   *)
(*               and rot; offcut for the others)                           *)
(*   kinds     : per result component re= / im= (v= for a real result):    *)
(*               eq    identical (or NaN vs NaN)                           *)
(*               sign0 both are zeros of opposite sign                     *)
(*               sign  same non-zero magnitude, opposite sign              *)
(*               val   anything else                                       *)
(* so that a known defect can be recorded narrowly by class and any other  *)
(* class is a fresh violation.                                             *)
(***************************************************************************)
EXTENDS IEEE

(*************************** sign bit on canonical limb lists **************)
SignLimb(f) == (f.w - 1) \div LB + 1            \* index of the limb holding the sign bit
SignWeight(f) == Pow2((f.w - 1) % LB)            \* weight of the sign bit inside that limb

SignSet(f, x) == Len(x) = SignLimb(f) /\ x[Len(x)] >= SignWeight(f)
\* flip the sign bit of a canonical pattern; the result is canonical again
FlipSign(f, x) ==
  LET n == SignLimb(f)
      s == SignWeight(f)
  IN  IF Len(x) = n THEN
         (IF x[n] = s THEN NNorm(SubSeq(x, 1, n - 1))               \* only the sign bit in the top limb
          ELSE [x EXCEPT ![n] = IF @ > s THEN @ - s ELSE @ + s])
      ELSE x \o Zeros(n - 1 - Len(x)) \o <<s>>                      \* sign clear, short pattern
AbsBits(f, x) == IF SignSet(f, x) THEN FlipSign(f, x) ELSE x

\* constants of the formats in use are evaluated once (TLC caches zero-arity definitions)
Inf32 == InfMag(F32)
Inf64 == InfMag(F64)
InfOf(f) == IF f.w = 32 THEN Inf32 ELSE IF f.w = 64 THEN Inf64 ELSE InfMag(f)
OneMag(f) == NShl(NFromInt(f.emax), f.p - 1)     \* magnitude bits of 1.0 (exponent field = bias)
One32 == OneMag(F32)
One64 == OneMag(F64)
OneOf(f) == IF f.w = 32 THEN One32 ELSE IF f.w = 64 THEN One64 ELSE OneMag(f)

NaNB(f, x) == NCmp(AbsBits(f, x), InfOf(f)) > 0
ZeroB(f, x) == AbsBits(f, x) = <<>>
GeOneB(f, x) == NCmp(AbsBits(f, x), OneOf(f)) >= 0          \* |x| >= 1 (x not NaN)
\* negative as a VALUE: sign bit set, not a zero, not a NaN
NegativeB(f, x) == SignSet(f, x) /\ ~ZeroB(f, x) /\ ~NaNB(f, x)

(*************************** symmetries ************************************)
IsCx(z) == Len(z) = 2
Conj(f, z) == IF IsCx(z) THEN <<z[1], FlipSign(f, z[2])>> ELSE z
Neg(f, z) == IF IsCx(z) THEN <<FlipSign(f, z[1]), FlipSign(f, z[2])>> ELSE <<FlipSign(f, z[1])>>
RotI(f, z) == <<FlipSign(f, z[2]), z[1]>>
NRotI(f, z) == <<z[2], FlipSign(f, z[1])>>
\* the four sign images of z in the order the events use
Images(f, z) == <<z, Conj(f, z), Neg(f, z), Neg(f, Conj(f, z))>>

(*************************** comparison of results *************************)
SameB(f, a, b) == a = b \/ (NaNB(f, a) /\ NaNB(f, b))
Same(f, v, w) == v = w \/ (Len(v) = Len(w) /\ \A k \in 1..Len(v) : SameB(f, v[k], w[k]))

KindB(f, a, b) ==
  IF a = b THEN "eq"
  ELSE LET na == NaNB(f, a)
           nb == NaNB(f, b)
       IN  IF na /\ nb THEN "eq"
           ELSE IF na \/ nb THEN "val"
           ELSE IF AbsBits(f, a) # AbsBits(f, b) THEN "val"
           ELSE IF ZeroB(f, a) THEN "sign0" ELSE "sign"
Kinds(f, v, w) ==
  IF Len(v) # Len(w) THEN "shape"
  ELSE IF Len(v) = 2 THEN "re=" \o KindB(f, v[1], w[1]) \o ":im=" \o KindB(f, v[2], w[2])
  ELSE "v=" \o KindB(f, v[1], w[1])

(*************************** classes of the input **************************)
HasNaN(f, z) == \E k \in 1..Len(z) : NaNB(f, z[k])
ZClass(f, z) ==
  IF IsCx(z) THEN
     (IF ZeroB(f, z[1]) THEN (IF ZeroB(f, z[2]) THEN "both0" ELSE "re0")
      ELSE IF ZeroB(f, z[2]) THEN "im0" ELSE "nz")
  ELSE IF ZeroB(f, z[1]) THEN "x0" ELSE "nz"

OddFns == {"asin", "asinh", "atan", "atanh"}
EvenFns == {"square"}
\* component of z that is zero on the function's branch cuts, and the one that runs along them
CutZero(fn) == IF fn \in {"asin", "atanh"} THEN 2 ELSE 1
CutAlong(fn) == IF fn \in {"asin", "atanh"} THEN 1 ELSE 2
OnCut(f, fn, z) ==
  /\ IsCx(z) /\ fn \in OddFns
  /\ ZeroB(f, z[CutZero(fn)])
  /\ GeOneB(f, z[CutAlong(fn)])
CutName(f, fn, z) == IF OnCut(f, fn, z) THEN "oncut" ELSE "offcut"

\* the exclusion sets; the ...0 forms assume a NaN-free z (OrbitFails decides NaN-freeness once per orbit)
ConjDemanded0(f, z) == IsCx(z) /\ ~ZeroB(f, z[2])
OddDemanded0(f, fn, z) == ~OnCut(f, fn, z)
ConjDemanded(f, z) == ~HasNaN(f, z) /\ ConjDemanded0(f, z)
OddDemanded(f, fn, z) == ~HasNaN(f, z) /\ OddDemanded0(f, fn, z)
AcoshDemanded(f, z) == ~HasNaN(f, z)

Clause(name, f, fn, z, got, want) ==
  {name \o ":" \o ZClass(f, z) \o ":" \o CutName(f, fn, z) \o ":" \o Kinds(f, got, want)}

(*************************** the identities ********************************)
\* (judged at NaN-free inputs only: see OrbitFails)
\* w = f(z), wc = f(Conj z)
ConjFails(f, fn, z, w, wc) ==
  IF ~ConjDemanded0(f, z) \/ Same(f, wc, Conj(f, w)) THEN {}
  ELSE Clause("conj", f, fn, z, wc, Conj(f, w))

\* w = f(z), wn = f(Neg z)
OddFails(f, fn, z, w, wn) ==
  IF ~OddDemanded0(f, fn, z) \/ Same(f, wn, Neg(f, w)) THEN {}
  ELSE Clause("odd", f, fn, z, wn, Neg(f, w))

EvenFails(f, fn, z, w, wn) ==
  IF Same(f, wn, w) THEN {} ELSE Clause("even", f, fn, z, wn, w)

\* w = asinh(z) / atan(z), p = asin(RotI z) / atanh(RotI z)
RotFails(f, fn, z, w, p) ==
  IF Same(f, w, NRotI(f, p)) THEN {} ELSE Clause("rot", f, fn, z, w, NRotI(f, p))

\* w = acosh(z), p = acos(z)
AcoshFails(f, fn, z, w, p) ==
  LET up == RotI(f, p)
      down == NRotI(f, p)
  IN  IF ZeroB(f, z[2]) THEN
         (IF Same(f, w, up) \/ Same(f, w, down) THEN {} ELSE Clause("acosh", f, fn, z, w, up))
      ELSE IF NegativeB(f, z[2]) THEN
         (IF Same(f, w, down) THEN {} ELSE Clause("acosh", f, fn, z, w, down))
      ELSE (IF Same(f, w, up) THEN {} ELSE Clause("acosh", f, fn, z, w, up))

\* w = acos(z), p = asin(z)
AcosImFails(f, fn, z, w, p) ==
  LET want == <<FlipSign(f, p[2])>>
  IN  IF Same(f, <<w[2]>>, want) THEN {} ELSE Clause("acos_im", f, fn, z, <<w[2]>>, want)

(*************************** one orbit *************************************)
\* An orbit record carries the base point z, W = f at the four sign images
\* of z (two images <<f(x), f(-x)>> for a real argument) and, for the derived
\* functions, P = the parent at the corresponding points:
\*    asinh: asin(RotI u)   atan: atanh(RotI u)   acosh: acos(u)   acos: asin(u)
\* for u = each image, in the order of Images.  Every identity is judged at
\* every image whose input is in its domain (the conj pairs are (1,2), (3,4);
\* the neg pairs (1,3), (2,4); real: the neg pair (1,2)).
ParentOf(fn) == CASE fn = "asinh" -> "asin" [] fn = "atan" -> "atanh" [] fn = "acosh" -> "acos"
                  [] fn = "acos" -> "asin" [] OTHER -> ""

OrbitFails(f, fn, z, W, P) ==
  IF HasNaN(f, z) THEN {}                  \* the images of z have NaN components too (MC_Symmetry!Closed)
  ELSE IF IsCx(z) THEN
    LET U == Images(f, z)
        neg == IF fn \in OddFns THEN OddFails(f, fn, U[1], W[1], W[3]) \cup OddFails(f, fn, U[2], W[2], W[4])
               ELSE IF fn \in EvenFns THEN EvenFails(f, fn, U[1], W[1], W[3]) \cup EvenFails(f, fn, U[2], W[2], W[4])
               ELSE {}
        par == IF fn \in {"asinh", "atan"} THEN UNION {RotFails(f, fn, U[k], W[k], P[k]) : k \in 1..4}
               ELSE IF fn = "acosh" THEN UNION {AcoshFails(f, fn, U[k], W[k], P[k]) : k \in 1..4}
               ELSE IF fn = "acos" THEN UNION {AcosImFails(f, fn, U[k], W[k], P[k]) : k \in 1..4}
               ELSE {}
    IN  ConjFails(f, fn, U[1], W[1], W[2]) \cup ConjFails(f, fn, U[3], W[3], W[4]) \cup neg \cup par
  ELSE
    IF fn \in OddFns THEN OddFails(f, fn, z, W[1], W[2])
    ELSE IF fn \in EvenFns THEN EvenFails(f, fn, z, W[1], W[2])
    ELSE {}

\* well-formedness of an orbit record (a malformed record is a harness defect)
OrbitShapeOK(fn, z, W, P) ==
  /\ Len(z) \in {1, 2}
  /\ Len(W) = (IF Len(z) = 2 THEN 4 ELSE 2)
  /\ (ParentOf(fn) # "" /\ Len(z) = 2) => Len(P) = 4

(*************************** input classes (U2) ****************************)
\* The abstract classes of a component's magnitude that SymmetryShapes.tla enumerates and the driver
\* concretises.  Point classes name one lattice point (the driver may step off it by off \in {-1, 0, 1}
\* lattice steps), range classes an interval from which the driver draws.  Classes whose nominal value is
\* computed by the algorithms in floating point (safe_min = 4 sqrt(smallest), safe_max = sqrt(largest)/8
\* and its multiples, 1/epsneg and its square, log(largest), sqrt(largest)) are only located coarsely here:
\* the exact values are the driver's business, the spec checks the order relations that matter for coverage.
ExactClasses == {"zero", "minsub", "maxsub", "minnorm", "one_m", "one", "one_p", "one_half", "largest", "inf"}
BelowOneClasses == {"safe_min"}
AboveClasses == {"log_largest", "inv_negeps", "smax_m6", "inv_negeps2", "smax_log1p", "smax", "smax_p2",
                 "smax_p12", "sqrt_largest", "half_largest"}
PointClasses == ExactClasses \cup BelowOneClasses \cup AboveClasses \cup {"nan"}
RangeClasses == {"sub", "tiny", "small", "mid", "big", "huge"}
Classes == PointClasses \cup RangeClasses

OneHalfMag(f) == NAdd(OneOf(f), NPow2(f.p - 2))                \* magnitude bits of 1.5
Nominal(f, cls) ==
  CASE cls = "zero" -> <<>>
    [] cls = "minsub" -> NOne
    [] cls = "maxsub" -> NSub(MinNormalMag(f), NOne)
    [] cls = "minnorm" -> MinNormalMag(f)
    [] cls = "one_m" -> NSub(OneOf(f), NOne)
    [] cls = "one" -> OneOf(f)
    [] cls = "one_p" -> NAdd(OneOf(f), NOne)
    [] cls = "one_half" -> OneHalfMag(f)
    [] cls = "largest" -> LargestMag(f)
    [] cls = "inf" -> InfOf(f)
Between(lo, m, hi) == NCmp(lo, m) < 0 /\ NCmp(m, hi) < 0
\* does the datum x lie in class cls, off lattice steps from the nominal point?
ClassHolds(f, cls, off, x) ==
  LET m == AbsBits(f, x)
  IN  IF cls \in ExactClasses THEN
         m = (IF off = 0 THEN Nominal(f, cls)
              ELSE IF off = 1 THEN NAdd(Nominal(f, cls), NOne) ELSE NSub(Nominal(f, cls), NOne))
      ELSE IF cls = "nan" THEN NaNB(f, x)
      ELSE IF cls = "sub" THEN Between(<<>>, m, MinNormalMag(f))
      ELSE IF cls \in {"tiny", "small", "safe_min"} THEN Between(MinNormalMag(f), m, OneOf(f))
      ELSE IF cls = "mid" THEN Between(OneOf(f), m, OneHalfMag(f))
      ELSE Between(OneHalfMag(f), m, LargestMag(f))              \* big, huge and the computed thresholds
\* rel: "lt" | "eq" | "gt" between the magnitudes of the two components ("na": unconstrained)
RelHolds(f, rel, z) ==
  LET c == NCmp(AbsBits(f, z[1]), AbsBits(f, z[2]))
  IN  CASE rel = "lt" -> c < 0 [] rel = "eq" -> c = 0 [] rel = "gt" -> c > 0 [] OTHER -> TRUE
=============================================================================
