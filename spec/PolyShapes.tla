----------------------------- MODULE PolyShapes -----------------------------
(***************************************************************************)
(* U2 for C16: TLC enumerates the discrete structure of the calls - which  *)
(* function, which evaluation scheme, degree, reverse flag, form (Laurent  *)
(* exponent class, ratio form, shape of the second operand, ...) and the   *)
(* pattern of zero coefficients - one state per case, printed as           *)
(*    <<"H", <<fn, scheme, degree, reverse, form, zeros, aux>>>>           *)
(* The driver (harness/props/c16.py) draws rational coefficients and       *)
(* points for every case from the seed and calls BOTH copies of the code.  *)
(*                                                                         *)
(* Tier = "quick": the O(degree^2) operations and laurent use the degree   *)
(* subset HeavyDegs and fewer zero patterns; "thorough": every degree      *)
(* 0..40 and every zero pattern everywhere.                                *)
(***************************************************************************)
EXTENDS Naturals, Sequences, TLC
CONSTANT Tier
VARIABLE c

Quick == Tier = "quick"
\* names of the schemes of the code: None, horner_scheme, estrin_dac_scheme, balanced_dac_scheme,
\* canonical_scheme, and two user-supplied ones allowed by the docstring ("scheme is an int-to-int
\* function"): direct = lambda k, N: 0 ("evaluate reduced polynomial as it is"), third = (k + 2) // 3
Schemes == {"default", "horner", "estrin", "balanced", "canonical", "direct", "third"}
Zeros == {"none", "leading", "trailing", "interior", "all"}
Degs == 0..40
BigDegs == {499, 500, 501}                 \* polynomial.fast_polynomial switches scheme at len > 500
HeavyDegs == IF Quick THEN (0..10) \cup {16, 25, 40} ELSE Degs
LaurentDegs == IF Quick THEN (0..12) \cup {20, 40} ELSE Degs
SomeZeros == IF Quick THEN {"none", "leading", "interior"} ELSE Zeros
FewZeros == IF Quick THEN {"none", "interior"} ELSE Zeros

Eval ==
  {<<"fast_polynomial", s, d, r, "plain", z, 0>> : s \in Schemes, d \in Degs, r \in BOOLEAN, z \in Zeros}
  \cup {<<"fast_polynomial", s, d, r, "plain", z, 0>> : s \in Schemes, d \in BigDegs, r \in BOOLEAN, z \in {"none", "interior"}}
  \cup {<<"horner", "-", d, r, "plain", z, 0>> : d \in Degs \cup BigDegs, r \in BOOLEAN, z \in Zeros}

\* Laurent exponent classes: m = 0; m > 0; m < 0 with -m < len; m < 0 with -m >= len
\* aux selects the exponent inside the class (driver: 1 = the edge of the class, 2 = drawn)
Laurent ==
  {<<"laurent", s, d, r, f, z, a>> : s \in Schemes, d \in LaurentDegs, r \in BOOLEAN,
        f \in {"m_zero", "m_pos", "m_neg_in", "m_neg_out"}, z \in SomeZeros, a \in 1..2}

LaurentOK(t) == /\ (t[5] = "m_neg_in" => t[3] >= 1)
                /\ (t[5] = "m_zero" => t[7] = 1)

\* ratio form: raw = rpolynomial on drawn ratios (zeros allowed anywhere);
\* from_coeffs = asrpolynomial(coeffs) then rpolynomial (zero patterns other than none/leading are
\* outside the domain of the ratio form and exercise the spec's domain predicate)
Ratio == {<<"rpolynomial", "-", d, r, f, z, 0>> : d \in Degs, r \in BOOLEAN, f \in {"raw", "from_coeffs"}, z \in Zeros}

QShapes == {"scalar_left", "scalar_right", "deg0", "same", "shorter", "longer"}
Algebra ==
  {<<fn, "-", d, r, f, z, 0>> : fn \in {"add", "multiply"}, d \in HeavyDegs, r \in BOOLEAN, f \in QShapes, z \in SomeZeros}
  \* derivative order class aux: 1..4 -> n = 0..3, 5 -> n = degree, 6 -> n = degree + 1
  \cup {<<"derivative", "-", d, r, "plain", z, a>> : d \in HeavyDegs, r \in BOOLEAN, z \in SomeZeros, a \in 1..6}
  \* taylorat: expansion point class; aux = size class: 1 none, 2 smaller, 3 equal, 4 larger
  \cup {<<"taylorat", "-", d, r, f, z, a>> : d \in HeavyDegs, r \in BOOLEAN, f \in {"z_zero", "z_int", "z_frac"},
            z \in FewZeros, a \in 1..4}

\* divmod: shape of the divisor; aux = construction: 1 drawn, 2 exact multiple (P = A*D),
\* 3 sparse small-integer P and D (remainder degree drops by more than one per step),
\* 4 P and D with zero high-order entries (the trimming path), 5 P = 0
DShapes == {"deg0", "deg1", "deg2", "half", "same", "bigger"}
Div == {<<"divmod", "-", d, r, f, "none", a>> : d \in HeavyDegs, r \in BOOLEAN, f \in DShapes, a \in 1..5}

Pow == {<<"pow", "-", n, FALSE, f, "none", 0>> : n \in 0..64, f \in {"int", "frac", "special"}}

Cases == Eval \cup {t \in Laurent : LaurentOK(t)} \cup Ratio \cup Algebra \cup Div \cup Pow

Init == c \in Cases
Next == UNCHANGED c
Spec == Init /\ [][Next]_c
Emit == PrintT(<<"H", c>>)
=============================================================================
