\* thorough, exhaustive: toy format [p |-> 3, emax |-> 3, w |-> 6] (64 patterns, 56 finite, 6 subnormal),
\* ALL monotone triples x <= y <= z of finite patterns, all 4 x 4 collapse thresholds
SPECIFICATION Spec
CONSTANTS
  Fmt <- MC_F36
  Thr <- MC_ThrAll3
  Triples = TRUE
INVARIANT Laws
CHECK_DEADLOCK FALSE
