\* U1 of C08 (thorough): DAGs of at most 2 operation nodes, all 52 kinds of FATypes!OpKinds,
\* leaf types FATypes!LeafTypes (5 symbol dtypes + integer / unsized float / unsized complex / boolean)
SPECIFICATION Spec
CONSTANTS
  MaxNodes = 2
  AllKinds = TRUE
INVARIANTS Closed Listed CleanMatch
CHECK_DEADLOCK FALSE
