\* U1 of C08: MaxNodes = 3 operation nodes, all kinds of FATypes!OpKinds, leaf types FATypes!LeafTypes
SPECIFICATION Spec
CONSTANTS
  MaxNodes = 3
INVARIANTS Closed Listed CleanMatch
CHECK_DEADLOCK FALSE
