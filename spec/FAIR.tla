-------------------------------- MODULE FAIR --------------------------------
(***************************************************************************)
(* The expression IR of functional_algorithms, given a semantics once.     *)
(*                                                                         *)
(* A term is a record [k, a, n, q, b, t]:                                  *)
(*   k = "sym"    n = name, t = type ("float32", "float64", "boolean")     *)
(*   k = "num"    q = <<z, d>> exact rational value of a numeric constant  *)
(*   k = "named"  n in {largest, smallest, smallest_subnormal, eps, posinf,*)
(*                      neginf}                                            *)
(*   k = "bool"   b = TRUE/FALSE                                           *)
(*   otherwise    k = operation kind, a = sequence of operand terms        *)
(*                                                                         *)
(* EvalQ: denotation in exact real arithmetic over rationals (with +-inf   *)
(* admitted only in comparisons, min/max and select).  Undefined (def =    *)
(* FALSE): division by zero, sqrt of a negative or of a non-square (not a  *)
(* rational), arithmetic on infinities, unsupported kinds.                 *)
(* EvalF: denotation in IEEE arithmetic of one binary format, rounding at  *)
(* every node (IEEE.tla), with exc = TRUE as soon as a node produces NaN,  *)
(* overflows, underflows, or does arithmetic on an infinity.               *)
(***************************************************************************)
EXTENDS IEEE, FiniteSets

RealKinds1 == {"positive", "negative", "absolute", "square", "sqrt", "sign"}
RealKinds2 == {"add", "subtract", "multiply", "divide", "minimum", "maximum"}
RelKinds == {"lt", "le", "gt", "ge", "eq", "ne"}
BoolKinds2 == {"logical_and", "logical_or", "logical_xor"}
LeafKinds == {"sym", "num", "named", "bool"}
Supported == LeafKinds \cup RealKinds1 \cup RealKinds2 \cup RelKinds \cup BoolKinds2 \cup {"logical_not", "select"}
NamedConsts == {"largest", "smallest", "smallest_subnormal", "eps", "posinf", "neginf"}

RECURSIVE AllSupported(_)
AllSupported(t) == /\ t.k \in Supported
                   /\ t.k = "named" => t.n \in NamedConsts
                   /\ \A i \in 1..Len(t.a) : AllSupported(t.a[i])

RECURSIVE SymbolsOf(_)
SymbolsOf(t) == IF t.k = "sym" THEN {<<t.n, t.t>>}
                ELSE UNION {SymbolsOf(t.a[i]) : i \in 1..Len(t.a)}

\* every numeric constant is a small dyadic: folding it in any binary precision is exact
SmallDyadic(q) == /\ NBitLen(q[1][2]) <= 12 /\ NBitLen(q[2]) <= 12 /\ NIsPow2(q[2])
RECURSIVE SmallConsts(_)
SmallConsts(t) == /\ t.k = "num" => SmallDyadic(QNorm(t.q))
                  /\ \A i \in 1..Len(t.a) : SmallConsts(t.a[i])

\* The exact-arithmetic clause can only be judged when constant folding is exact: every CLOSED
\* arithmetic sub-term (no symbols inside) must be built from small dyadic numbers only (a fold
\* involving eps, largest, 0.1 ... is rounded in the target type and cannot be exact).
ArithKinds == {"positive", "negative", "absolute", "square", "sqrt", "sign", "add", "subtract", "multiply", "divide"}
RECURSIVE NoNamed(_)
NoNamed(t) == t.k # "named" /\ \A i \in 1..Len(t.a) : NoNamed(t.a[i])
RECURSIVE ExactJudgeable(_)
ExactJudgeable(t) ==
  /\ (t.k \in ArithKinds /\ SymbolsOf(t) = {}) => (SmallConsts(t) /\ NoNamed(t))
  /\ \A i \in 1..Len(t.a) : ExactJudgeable(t.a[i])

RECURSIVE TermSize(_)
TermSize(t) == 1 + (IF Len(t.a) = 0 THEN 0 ELSE
                    IF Len(t.a) = 1 THEN TermSize(t.a[1]) ELSE
                    IF Len(t.a) = 2 THEN TermSize(t.a[1]) + TermSize(t.a[2])
                    ELSE TermSize(t.a[1]) + TermSize(t.a[2]) + TermSize(t.a[3]))

(*************************** exact semantics *******************************)
\* results: [def, isb, b, q, inf]  (inf: -1, 0, 1)
QUndef == [def |-> FALSE, isb |-> FALSE, b |-> FALSE, q |-> <<ZZero, NOne>>, inf |-> 0]
QNum(q) == [def |-> TRUE, isb |-> FALSE, b |-> FALSE, q |-> q, inf |-> 0]
QInf(s) == [def |-> TRUE, isb |-> FALSE, b |-> FALSE, q |-> <<ZZero, NOne>>, inf |-> s]
QBool(b) == [def |-> TRUE, isb |-> TRUE, b |-> b, q |-> <<ZZero, NOne>>, inf |-> 0]

NamedQ(f, n) ==
  CASE n = "largest" -> QNum(QFromD(Val(f, LargestMag(f))))
    [] n = "smallest" -> QNum(QFromD(Val(f, MinNormalMag(f))))
    [] n = "smallest_subnormal" -> QNum(QFromD(Val(f, NOne)))
    [] n = "eps" -> QNum(QFromD(<<ZFromInt(1), -(f.p - 1)>>))
    [] n = "posinf" -> QInf(1)
    [] n = "neginf" -> QInf(-1)
    [] OTHER -> QUndef

\* three-way comparison of two defined non-boolean results (infinities allowed)
QCmp3(x, y) == IF x.inf # 0 \/ y.inf # 0
               THEN (IF x.inf = y.inf THEN 0 ELSE IF x.inf < y.inf THEN -1 ELSE 1)
               ELSE QCmp(x.q, y.q)
QFin(x) == x.def /\ ~x.isb /\ x.inf = 0
QNumeric(x) == x.def /\ ~x.isb

RelHolds(k, c) == CASE k = "lt" -> c < 0 [] k = "le" -> c <= 0 [] k = "gt" -> c > 0
                    [] k = "ge" -> c >= 0 [] k = "eq" -> c = 0 [] k = "ne" -> c # 0

RECURSIVE EvalQ(_, _, _)
EvalQ(f, t, env) ==
  CASE t.k = "sym" -> IF t.t = "boolean" THEN QBool(env[t.n].b) ELSE QNum(QFromD(Val(f, env[t.n].bits)))
    [] t.k = "num" -> (
         \* a numeric constant denotes its value in the format of its like (a dyadic literal)
         LET d == QNorm(t.q)
         IN  IF ~NIsPow2(d[2]) THEN QNum(t.q)
             ELSE LET r == RN(f, DMk(d[1], -(NBitLen(d[2]) - 1)))
                  IN  IF IsFinite(f, r) THEN QNum(QFromD(Val(f, r))) ELSE QUndef)
    [] t.k = "named" -> NamedQ(f, t.n)
    [] t.k = "bool" -> QBool(t.b)
    [] t.k \in RealKinds1 -> (
         LET x == EvalQ(f, t.a[1], env)
         IN  IF ~QNumeric(x) THEN QUndef
             ELSE IF x.inf # 0 THEN
               (CASE t.k = "positive" -> x [] t.k = "negative" -> QInf(-x.inf) [] t.k = "absolute" -> QInf(1)
                  [] OTHER -> QUndef)
             ELSE CASE t.k = "positive" -> x
                    [] t.k = "negative" -> QNum(QNeg(x.q))
                    [] t.k = "absolute" -> QNum(QAbs(x.q))
                    [] t.k = "square" -> QNum(QMul(x.q, x.q))
                    [] t.k = "sign" -> QNum(QFromInt(QSign(x.q)))
                    [] t.k = "sqrt" -> IF QIsSquare(x.q) THEN QNum(QSqrt(x.q)) ELSE QUndef)
    [] t.k \in RealKinds2 -> (
         LET x == EvalQ(f, t.a[1], env)
             y == EvalQ(f, t.a[2], env)
         IN  IF ~QNumeric(x) \/ ~QNumeric(y) THEN QUndef
             ELSE IF t.k \in {"minimum", "maximum"} THEN
                    LET c == QCmp3(x, y)
                    IN  IF t.k = "minimum" THEN (IF c <= 0 THEN x ELSE y) ELSE (IF c >= 0 THEN x ELSE y)
             ELSE IF x.inf # 0 \/ y.inf # 0 THEN QUndef
             ELSE CASE t.k = "add" -> QNum(QAdd(x.q, y.q))
                    [] t.k = "subtract" -> QNum(QSub(x.q, y.q))
                    [] t.k = "multiply" -> QNum(QMul(x.q, y.q))
                    [] t.k = "divide" -> IF QIsZero(y.q) THEN QUndef ELSE QNum(QDiv(x.q, y.q)))
    [] t.k \in RelKinds -> (
         LET x == EvalQ(f, t.a[1], env)
             y == EvalQ(f, t.a[2], env)
         IN  IF ~QNumeric(x) \/ ~QNumeric(y) THEN QUndef ELSE QBool(RelHolds(t.k, QCmp3(x, y))))
    [] t.k \in BoolKinds2 -> (
         LET x == EvalQ(f, t.a[1], env)
             y == EvalQ(f, t.a[2], env)
         IN  IF ~(x.def /\ x.isb /\ y.def /\ y.isb) THEN QUndef
             ELSE CASE t.k = "logical_and" -> QBool(x.b /\ y.b)
                    [] t.k = "logical_or" -> QBool(x.b \/ y.b)
                    [] t.k = "logical_xor" -> QBool(x.b # y.b))
    [] t.k = "logical_not" -> (
         LET x == EvalQ(f, t.a[1], env) IN IF x.def /\ x.isb THEN QBool(~x.b) ELSE QUndef)
    [] t.k = "select" -> (
         LET c == EvalQ(f, t.a[1], env)
             x == EvalQ(f, t.a[2], env)
             y == EvalQ(f, t.a[3], env)
         \* both branches are computed by the generated code: defined only if both are
         IN  IF ~(c.def /\ c.isb /\ x.def /\ y.def) THEN QUndef ELSE IF c.b THEN x ELSE y)
    [] OTHER -> QUndef

QSame(x, y) == /\ x.isb = y.isb
               /\ IF x.isb THEN x.b = y.b
                  ELSE x.inf = y.inf /\ (x.inf = 0 => QEq(x.q, y.q))

(*************************** floating-point semantics **********************)
\* results: [exc, isb, b, bits]
FExc == [exc |-> TRUE, isb |-> FALSE, b |-> FALSE, bits |-> <<>>]
FNum(bits) == [exc |-> FALSE, isb |-> FALSE, b |-> FALSE, bits |-> bits]
FBool(b) == [exc |-> FALSE, isb |-> TRUE, b |-> b, bits |-> <<>>]

NamedF(f, n) ==
  CASE n = "largest" -> FNum(LargestMag(f))
    [] n = "smallest" -> FNum(MinNormalMag(f))
    [] n = "smallest_subnormal" -> FNum(NOne)
    [] n = "eps" -> FNum(RN(f, <<ZFromInt(1), -(f.p - 1)>>))
    [] n = "posinf" -> FNum(PosInf(f))
    [] n = "neginf" -> FNum(NegInf(f))
    [] OTHER -> FExc

\* a correctly rounded arithmetic result r of finite operands whose exact value is not zero:
\* exceptional if it overflowed, or underflowed (tiny: below the normal range)
Tiny(f, r) == NCmp(Mag(f, r), MinNormalMag(f)) < 0
ArithRes(f, r, exactzero) ==
  IF ~IsFinite(f, r) THEN FExc
  ELSE IF ~exactzero /\ Tiny(f, r) THEN FExc
  ELSE FNum(r)

FCmp3(f, x, y) == \* x, y not NaN; infinities allowed
  LET ox == Ord(f, x)  oy == Ord(f, y) IN ZCmp(ox, oy)

RECURSIVE EvalF(_, _, _)
EvalF(f, t, env) ==
  CASE t.k = "sym" -> IF t.t = "boolean" THEN FBool(env[t.n].b) ELSE FNum(env[t.n].bits)
    [] t.k = "num" -> (LET d == QNorm(t.q)
                      IN  \* numeric constants are dyadic (Python/NumPy floats, ints)
                          IF ~NIsPow2(d[2]) THEN FExc
                          ELSE LET r == RN(f, DMk(d[1], -(NBitLen(d[2]) - 1)))
                               IN  IF IsFinite(f, r) THEN FNum(r) ELSE FExc)
    [] t.k = "named" -> NamedF(f, t.n)
    [] t.k = "bool" -> FBool(t.b)
    [] t.k \in RealKinds1 -> (
         LET x == EvalF(f, t.a[1], env)
         IN  IF x.exc \/ x.isb THEN FExc
             ELSE IF ~IsFinite(f, x.bits) THEN
               (CASE t.k = "positive" -> x [] t.k = "negative" -> FNum(FNeg(f, x.bits))
                  [] t.k = "absolute" -> FNum(FAbs(f, x.bits)) [] OTHER -> FExc)
             ELSE CASE t.k = "positive" -> x
                    [] t.k = "negative" -> FNum(FNeg(f, x.bits))
                    [] t.k = "absolute" -> FNum(FAbs(f, x.bits))
                    [] t.k = "square" -> ArithRes(f, FMul(f, x.bits, x.bits), IsZero(f, x.bits))
                    [] t.k = "sign" -> IF IsZero(f, x.bits) THEN FNum(PosZero(f))
                                       ELSE FNum(WithSign(f, SignBit(f, x.bits), RN(f, DFromInt(1))))
                    [] t.k = "sqrt" -> IF SignBit(f, x.bits) = 1 /\ ~IsZero(f, x.bits) THEN FExc
                                       ELSE FNum(FSqrt(f, x.bits)))
    [] t.k \in RealKinds2 -> (
         LET x == EvalF(f, t.a[1], env)
             y == EvalF(f, t.a[2], env)
         IN  IF x.exc \/ y.exc \/ x.isb \/ y.isb THEN FExc
             ELSE IF t.k \in {"minimum", "maximum"} THEN
                    LET c == FCmp3(f, x.bits, y.bits)
                    IN  IF t.k = "minimum" THEN (IF c <= 0 THEN x ELSE y) ELSE (IF c >= 0 THEN x ELSE y)
             ELSE IF ~IsFinite(f, x.bits) \/ ~IsFinite(f, y.bits) THEN FExc
             ELSE CASE t.k = "add" -> ArithRes(f, FAdd(f, x.bits, y.bits), DIsZero(DAdd(Val(f, x.bits), Val(f, y.bits))))
                    [] t.k = "subtract" -> ArithRes(f, FSub(f, x.bits, y.bits), DIsZero(DSub(Val(f, x.bits), Val(f, y.bits))))
                    [] t.k = "multiply" -> ArithRes(f, FMul(f, x.bits, y.bits), IsZero(f, x.bits) \/ IsZero(f, y.bits))
                    [] t.k = "divide" -> IF IsZero(f, y.bits) THEN FExc
                                         ELSE ArithRes(f, FDiv(f, x.bits, y.bits), IsZero(f, x.bits)))
    [] t.k \in RelKinds -> (
         LET x == EvalF(f, t.a[1], env)
             y == EvalF(f, t.a[2], env)
         IN  IF x.exc \/ y.exc \/ x.isb \/ y.isb THEN FExc
             ELSE FBool(RelHolds(t.k, FCmp3(f, x.bits, y.bits))))
    [] t.k \in BoolKinds2 -> (
         LET x == EvalF(f, t.a[1], env)
             y == EvalF(f, t.a[2], env)
         IN  IF x.exc \/ y.exc \/ ~x.isb \/ ~y.isb THEN FExc
             ELSE CASE t.k = "logical_and" -> FBool(x.b /\ y.b)
                    [] t.k = "logical_or" -> FBool(x.b \/ y.b)
                    [] t.k = "logical_xor" -> FBool(x.b # y.b))
    [] t.k = "logical_not" -> (
         LET x == EvalF(f, t.a[1], env) IN IF x.exc \/ ~x.isb THEN FExc ELSE FBool(~x.b))
    [] t.k = "select" -> (
         LET c == EvalF(f, t.a[1], env)
             x == EvalF(f, t.a[2], env)
             y == EvalF(f, t.a[3], env)
         IN  IF c.exc \/ ~c.isb \/ x.exc \/ y.exc THEN FExc ELSE IF c.b THEN x ELSE y)
    [] OTHER -> FExc

\* booleans identical, floats equal up to the sign of zero
FSame(f, x, y) == /\ x.isb = y.isb
                  /\ IF x.isb THEN x.b = y.b
                     ELSE x.bits = y.bits \/ (IsZero(f, x.bits) /\ IsZero(f, y.bits))

(*************************** assignments ************************************)
\* values given to float symbols (finite; zeros of both signs; a subnormal; the extremes)
DomainBits(f, n) ==
  LET one == RN(f, DFromInt(1))
      two == RN(f, DFromInt(2))
      three == RN(f, DFromInt(3))
      half == RN(f, <<ZFromInt(1), -1>>)
      neg(x) == WithSign(f, 1, x)
      base == {PosZero(f), one, neg(one), two, NOne}
  IN  IF n <= 1 THEN base \cup {neg(two), NegZero(f), half, neg(half), three, MinNormalMag(f), neg(NOne), LargestMag(f),
                                neg(LargestMag(f)), NAdd(one, NOne), NSub(one, NOne)}
      ELSE IF n = 2 THEN base \cup {neg(two), half}
      ELSE base
\* all assignments of a set of <<name, type>> symbols
Envs(f, syms) ==
  LET names == {s[1] : s \in syms}
      nf == Cardinality({s \in syms : s[2] # "boolean"})
      ty(nm) == (CHOOSE s \in syms : s[1] = nm)[2]
      vals(nm) == IF ty(nm) = "boolean" THEN {[b |-> TRUE, bits |-> <<>>], [b |-> FALSE, bits |-> <<>>]}
                  ELSE {[b |-> FALSE, bits |-> x] : x \in DomainBits(f, nf)}
  IN  {e \in [names -> UNION {vals(nm) : nm \in names}] : \A nm \in names : e[nm] \in vals(nm)}
=============================================================================
