-------------------------------- MODULE FAIR --------------------------------
(***************************************************************************)
(* The expression IR of functional_algorithms, given a semantics once.     *)
(*                                                                         *)
(* A term is a record [k, a, n, q, b, t]:                                  *)
(*   k = "sym"    n = name, t = type ("float32", "float64", "boolean")     *)
(*   k = "num"    q = <<z, d>> exact rational value of a numeric constant  *)
(*   k = "named"  n in {largest, smallest, smallest_subnormal, eps, posinf,*)
(*                      neginf}                                            *)
(*   k = "bool"   b = TRUE/FALSE                                           *)
(*   k = "cnum"   q, qi = exact real and imaginary part of a complex       *)
(*                constant                                                 *)
(*   otherwise    k = operation kind, a = sequence of operand terms        *)
(* Optional leaf fields: lv = level of the leaf's float type relative to   *)
(* the event's base format (0 same, 1 one upcast wider, -1 one downcast    *)
(* narrower); a symbol of type "complex" ranges over pairs of base floats. *)
(* Values: booleans, reals (with +-inf), complex numbers (pairs), lists.   *)
(*                                                                         *)
(* EvalQ: denotation in exact real arithmetic over rationals (with +-inf   *)
(* admitted only in comparisons, min/max and select).  Undefined (def =    *)
(* FALSE): division by zero, sqrt of a negative or of a non-square (not a  *)
(* rational), arithmetic on infinities, unsupported kinds.                 *)
(* EvalF: denotation in IEEE arithmetic of one binary format, rounding at  *)
(* every node (IEEE.tla), with exc = TRUE as soon as a node produces NaN,  *)
(* overflows, underflows, or does arithmetic on an infinity.               *)
(***************************************************************************)
EXTENDS IEEE, FiniteSets

RealKinds1 == {"positive", "negative", "absolute", "square", "sqrt", "sign"}
RealKinds2 == {"add", "subtract", "multiply", "divide", "minimum", "maximum"}
RelKinds == {"lt", "le", "gt", "ge", "eq", "ne"}
BoolKinds2 == {"logical_and", "logical_or", "logical_xor"}
LeafKinds == {"sym", "num", "named", "bool", "cnum"}
ComplexKinds == {"complex", "real", "imag", "conjugate"}
CastKinds == {"upcast", "downcast"}
\* kinds whose value is specified only at the points where it is an exact rational (log 1 = 0, ...)
ZeroAtOne == {"log", "log2", "log10", "acos", "acosh"}
ZeroAtZero == {"log1p", "expm1", "sin", "sinh", "tan", "tanh", "asin", "asinh", "atan", "atanh"}
OneAtZero == {"exp", "exp2", "cos", "cosh"}
PointKinds == ZeroAtOne \cup ZeroAtZero \cup OneAtZero
Supported == LeafKinds \cup RealKinds1 \cup RealKinds2 \cup RelKinds \cup BoolKinds2 \cup {"logical_not", "select"}
             \cup ComplexKinds \cup CastKinds \cup PointKinds \cup {"list", "item", "hypot", "is_finite"}
Lv(t) == IF "lv" \in DOMAIN t THEN t.lv ELSE 0
NamedConsts == {"largest", "smallest", "smallest_subnormal", "eps", "posinf", "neginf"}

RECURSIVE AllSupported(_)
AllSupported(t) == /\ t.k \in Supported
                   /\ t.k = "named" => t.n \in NamedConsts
                   /\ \A i \in 1..Len(t.a) : AllSupported(t.a[i])

RECURSIVE SymbolsOf(_)
SymbolsOf(t) == IF t.k = "sym" THEN {<<t.n, t.t>>}
                ELSE UNION {SymbolsOf(t.a[i]) : i \in 1..Len(t.a)}

\* every numeric constant is a small dyadic: folding it in any binary precision is exact
SmallDyadic(q) == /\ NBitLen(q[1][2]) <= 12 /\ NBitLen(q[2]) <= 12 /\ NIsPow2(q[2])
RECURSIVE SmallConsts(_)
SmallConsts(t) == /\ t.k = "num" => SmallDyadic(QNorm(t.q))
                  /\ t.k = "cnum" => (SmallDyadic(QNorm(t.q)) /\ SmallDyadic(QNorm(t.qi)))
                  /\ \A i \in 1..Len(t.a) : SmallConsts(t.a[i])

\* The exact-arithmetic clause can only be judged when constant folding is exact: every CLOSED
\* arithmetic sub-term (no symbols inside) must be built from small dyadic numbers only (a fold
\* involving eps, largest, 0.1 ... is rounded in the target type and cannot be exact).
ArithKinds == {"positive", "negative", "absolute", "square", "sqrt", "sign", "add", "subtract", "multiply", "divide",
               "conjugate", "hypot"} \cup PointKinds
RECURSIVE NoNamed(_)
NoNamed(t) == t.k # "named" /\ \A i \in 1..Len(t.a) : NoNamed(t.a[i])
\* ... and a sub-term can BECOME closed during rewriting (a dead symbol: select(True, 1, x) -> 1, then
\* 1 - largest folds, rounded; square(select(b, largest, largest)) overflows to inf).  So the rule is applied to
\* EVERY arithmetic sub-term, closed or not: below an arithmetic kind only small dyadic literals may occur
\* (named constants stay judgeable where the rewriter reasons about them: as operands of comparisons,
\* min/max, select).
RECURSIVE ExactJudgeable(_)
ExactJudgeable(t) ==
  /\ t.k \in ArithKinds => (SmallConsts(t) /\ NoNamed(t))
  /\ \A i \in 1..Len(t.a) : ExactJudgeable(t.a[i])
\* Backstop: every numeric literal of the rewritten term must be a small dyadic or a literal of the original
\* term, and it must not name a constant the original does not name; otherwise a rounded fold took place
\* and the exact clause is not judged (the float clause still is).
RECURSIVE NamedOf(_)
NamedOf(t) == (IF t.k = "named" THEN {t.n} ELSE {}) \cup UNION {NamedOf(t.a[i]) : i \in 1..Len(t.a)}
RECURSIVE NumsOf(_)
NumsOf(t) == (IF t.k = "num" THEN {QNorm(t.q)} ELSE IF t.k = "cnum" THEN {QNorm(t.q), QNorm(t.qi)} ELSE {})
             \cup UNION {NumsOf(t.a[i]) : i \in 1..Len(t.a)}
ExactJudgeablePair(t, t2) == /\ ExactJudgeable(t)
                             /\ LET n1 == NumsOf(t) IN \A q \in NumsOf(t2) : SmallDyadic(q) \/ q \in n1
                             /\ NamedOf(t2) \subseteq NamedOf(t)

RECURSIVE TermSize(_)
RECURSIVE SizeFrom(_, _)
SizeFrom(a, i) == IF i > Len(a) THEN 0 ELSE TermSize(a[i]) + SizeFrom(a, i + 1)
TermSize(t) == 1 + SizeFrom(t.a, 1)

(*************************** exact semantics *******************************)
\* results: [def, isb, b, q, inf, c, qi, isl, lst, un]
\*   boolean: isb, b;  real: q (inf = 0) or an infinity (inf = -1, 1);  complex: c, q + i qi;  list: isl, lst
QZ == <<ZZero, NOne>>
QBase == [def |-> TRUE, isb |-> FALSE, b |-> FALSE, q |-> QZ, inf |-> 0, c |-> FALSE, qi |-> QZ, isl |-> FALSE, lst |-> <<>>, un |-> FALSE]
QUndef == [QBase EXCEPT !.def = FALSE]
\* un: the value exists (or may exist) but this semantics does not determine it (an irrational square
\* root, log 2, a kind without a specification): a term with such a node is never judged
QUn == [QBase EXCEPT !.def = FALSE, !.un = TRUE]
QU1(x, r) == IF x.un THEN QUn ELSE r
QU2(x, y, r) == IF x.un \/ y.un THEN QUn ELSE r
QNum(q) == [QBase EXCEPT !.q = q]
QInf(s) == [QBase EXCEPT !.inf = s]
QBool(b) == [QBase EXCEPT !.isb = TRUE, !.b = b]
QCplx(re, im) == [QBase EXCEPT !.c = TRUE, !.q = re, !.qi = im]
QList(s) == [QBase EXCEPT !.isl = TRUE, !.lst = s]

\* formats reachable by casts from the base format of an event
NoFmt == [p |-> 0, emax |-> 0, w |-> 0]
HasFmt(g) == g.p > 0
UpOf(g) == IF g = F16 THEN F32 ELSE IF g = F32 THEN F64 ELSE NoFmt
DownOf(g) == IF g = F64 THEN F32 ELSE IF g = F32 THEN F16 ELSE NoFmt
FmtLv(f, lv) == CASE lv = 0 -> f [] lv = 1 -> UpOf(f) [] lv = -1 -> DownOf(f)
                  [] lv = 2 -> (IF HasFmt(UpOf(f)) THEN UpOf(UpOf(f)) ELSE NoFmt)
                  [] lv = -2 -> (IF HasFmt(DownOf(f)) THEN DownOf(DownOf(f)) ELSE NoFmt)
                  [] OTHER -> NoFmt
\* the format a leaf's literal is read in (the base format when the cast chain leaves float16..float64)
LeafFmt(f, t) == IF HasFmt(FmtLv(f, Lv(t))) THEN FmtLv(f, Lv(t)) ELSE f

NamedQ(f, n) ==
  CASE n = "largest" -> QNum(QFromD(Val(f, LargestMag(f))))
    [] n = "smallest" -> QNum(QFromD(Val(f, MinNormalMag(f))))
    [] n = "smallest_subnormal" -> QNum(QFromD(Val(f, NOne)))
    [] n = "eps" -> QNum(QFromD(<<ZFromInt(1), -(f.p - 1)>>))
    [] n = "posinf" -> QInf(1)
    [] n = "neginf" -> QInf(-1)
    [] OTHER -> QUn

\* three-way comparison of two defined real results (infinities allowed)
QCmp3(x, y) == IF x.inf # 0 \/ y.inf # 0
               THEN (IF x.inf = y.inf THEN 0 ELSE IF x.inf < y.inf THEN -1 ELSE 1)
               ELSE QCmp(x.q, y.q)
QNumeric(x) == x.def /\ ~x.isb /\ ~x.c /\ ~x.isl                 \* a real (possibly infinite)
QFin(x) == QNumeric(x) /\ x.inf = 0
QCx(x) == x.def /\ ~x.isb /\ ~x.isl /\ x.inf = 0                 \* a finite real or a complex number
Re(x) == x.q
Im(x) == IF x.c THEN x.qi ELSE QZ

RelHolds(k, c) == CASE k = "lt" -> c < 0 [] k = "le" -> c <= 0 [] k = "gt" -> c > 0
                    [] k = "ge" -> c >= 0 [] k = "eq" -> c = 0 [] k = "ne" -> c # 0

\* a literal read in format g: a dyadic literal denotes its value in the type of its like
LitQ(g, q) == LET d == QNorm(q)
              IN  IF ~NIsPow2(d[2]) THEN [ok |-> TRUE, q |-> q]
                  ELSE LET r == RN(g, DMk(d[1], -(NBitLen(d[2]) - 1)))
                       IN  IF IsFinite(g, r) THEN [ok |-> TRUE, q |-> QFromD(Val(g, r))] ELSE [ok |-> FALSE, q |-> QZ]

\* the value of a point-specified kind (log 1 = 0 ...), undefined elsewhere
PointQ(k, x) ==
  IF ~QFin(x) THEN QUn
  ELSE IF k \in ZeroAtOne THEN (IF QEq(x.q, QFromInt(1)) THEN QNum(QZ) ELSE QUn)
  ELSE IF k \in ZeroAtZero THEN (IF QIsZero(x.q) THEN QNum(QZ) ELSE QUn)
  ELSE IF k \in OneAtZero THEN (IF QIsZero(x.q) THEN QNum(QFromInt(1)) ELSE QUn)
  ELSE QUn

\* index denoted by an item's index term: a non-negative integer literal
IndexOf(t) == IF t.k = "num" /\ QNorm(t.q)[2] = NOne /\ ZSign(QNorm(t.q)[1]) >= 0 /\ NBitLen(QNorm(t.q)[1][2]) <= 8
              THEN NToInt(QNorm(t.q)[1][2]) ELSE -1

\* m = "strict": a select is defined only if both branches are (the generated code computes both);
\* m = "lazy": a select is the conditional expression of real analysis (only the selected branch)
RECURSIVE EvalQm(_, _, _, _)
EvalQm(m, f, t, env) ==
  CASE t.k = "sym" -> (IF t.t = "boolean" THEN QBool(env[t.n].b)
                       ELSE IF t.t = "complex" THEN QCplx(QFromD(Val(f, env[t.n].bits)), QFromD(Val(f, env[t.n].im)))
                       ELSE QNum(QFromD(Val(f, env[t.n].bits))))
    [] t.k = "num" -> (LET r == LitQ(LeafFmt(f, t), t.q) IN IF r.ok THEN QNum(r.q) ELSE QUndef)
    [] t.k = "cnum" -> (LET r == LitQ(LeafFmt(f, t), t.q)  i == LitQ(LeafFmt(f, t), t.qi)
                        IN  IF r.ok /\ i.ok THEN QCplx(r.q, i.q) ELSE QUndef)
    [] t.k = "named" -> NamedQ(LeafFmt(f, t), t.n)
    [] t.k = "bool" -> QBool(t.b)
    [] t.k \in RealKinds1 -> (
         LET x == EvalQm(m, f, t.a[1], env)
         IN  IF x.un THEN QUn
             ELSE IF x.def /\ x.c THEN
               (CASE t.k = "positive" -> x
                  [] t.k = "negative" -> QCplx(QNeg(x.q), QNeg(x.qi))
                  [] t.k = "square" -> QCplx(QSub(QMul(x.q, x.q), QMul(x.qi, x.qi)), QMul(QFromInt(2), QMul(x.q, x.qi)))
                  [] t.k = "absolute" -> (LET s == QAdd(QMul(x.q, x.q), QMul(x.qi, x.qi))
                                          IN  IF QIsSquare(s) THEN QNum(QSqrt(s)) ELSE QUn)
                  [] OTHER -> QUn)
             ELSE IF ~QNumeric(x) THEN QUndef
             ELSE IF x.inf # 0 THEN
               (CASE t.k = "positive" -> x [] t.k = "negative" -> QInf(-x.inf) [] t.k = "absolute" -> QInf(1)
                  [] OTHER -> QUndef)
             ELSE CASE t.k = "positive" -> x
                    [] t.k = "negative" -> QNum(QNeg(x.q))
                    [] t.k = "absolute" -> QNum(QAbs(x.q))
                    [] t.k = "square" -> QNum(QMul(x.q, x.q))
                    [] t.k = "sign" -> QNum(QFromInt(QSign(x.q)))
                    [] t.k = "sqrt" -> IF QSign(x.q) < 0 THEN QUndef
                                       ELSE IF QIsSquare(x.q) THEN QNum(QSqrt(x.q)) ELSE QUn)
    [] t.k \in RealKinds2 -> (
         LET x == EvalQm(m, f, t.a[1], env)
             y == EvalQm(m, f, t.a[2], env)
         IN  IF x.un \/ y.un THEN QUn
             ELSE IF x.def /\ y.def /\ (x.c \/ y.c) THEN
               (IF ~QCx(x) \/ ~QCx(y) THEN QUndef
                ELSE CASE t.k = "add" -> QCplx(QAdd(Re(x), Re(y)), QAdd(Im(x), Im(y)))
                       [] t.k = "subtract" -> QCplx(QSub(Re(x), Re(y)), QSub(Im(x), Im(y)))
                       [] t.k = "multiply" -> QCplx(QSub(QMul(Re(x), Re(y)), QMul(Im(x), Im(y))),
                                                    QAdd(QMul(Re(x), Im(y)), QMul(Im(x), Re(y))))
                       [] t.k = "divide" -> (LET n2 == QAdd(QMul(Re(y), Re(y)), QMul(Im(y), Im(y)))
                                             IN  IF QIsZero(n2) THEN QUndef
                                                 ELSE QCplx(QDiv(QAdd(QMul(Re(x), Re(y)), QMul(Im(x), Im(y))), n2),
                                                            QDiv(QSub(QMul(Im(x), Re(y)), QMul(Re(x), Im(y))), n2)))
                       [] OTHER -> QUn)
             ELSE IF ~QNumeric(x) \/ ~QNumeric(y) THEN QUndef
             ELSE IF t.k \in {"minimum", "maximum"} THEN
                    LET c == QCmp3(x, y)
                    IN  IF t.k = "minimum" THEN (IF c <= 0 THEN x ELSE y) ELSE (IF c >= 0 THEN x ELSE y)
             ELSE IF x.inf # 0 \/ y.inf # 0 THEN QUndef
             ELSE CASE t.k = "add" -> QNum(QAdd(x.q, y.q))
                    [] t.k = "subtract" -> QNum(QSub(x.q, y.q))
                    [] t.k = "multiply" -> QNum(QMul(x.q, y.q))
                    [] t.k = "divide" -> IF QIsZero(y.q) THEN QUndef ELSE QNum(QDiv(x.q, y.q)))
    [] t.k \in RelKinds -> (
         LET x == EvalQm(m, f, t.a[1], env)
             y == EvalQm(m, f, t.a[2], env)
         IN  IF x.un \/ y.un THEN QUn
             ELSE IF x.def /\ y.def /\ (x.c \/ y.c) THEN
               (IF QCx(x) /\ QCx(y) /\ t.k \in {"eq", "ne"}
                THEN QBool((QEq(Re(x), Re(y)) /\ QEq(Im(x), Im(y))) = (t.k = "eq")) ELSE QUn)
             ELSE IF ~QNumeric(x) \/ ~QNumeric(y) THEN QUndef ELSE QBool(RelHolds(t.k, QCmp3(x, y))))
    [] t.k \in BoolKinds2 -> (
         LET x == EvalQm(m, f, t.a[1], env)
             y == EvalQm(m, f, t.a[2], env)
         IN  IF x.un \/ y.un THEN QUn
             ELSE IF ~(x.def /\ x.isb /\ y.def /\ y.isb) THEN QUndef
             ELSE CASE t.k = "logical_and" -> QBool(x.b /\ y.b)
                    [] t.k = "logical_or" -> QBool(x.b \/ y.b)
                    [] t.k = "logical_xor" -> QBool(x.b # y.b))
    [] t.k = "logical_not" -> (
         LET x == EvalQm(m, f, t.a[1], env) IN QU1(x, IF x.def /\ x.isb THEN QBool(~x.b) ELSE QUndef))
    [] t.k = "select" -> (
         LET c == EvalQm(m, f, t.a[1], env)
             x == EvalQm(m, f, t.a[2], env)
             y == EvalQm(m, f, t.a[3], env)
         IN  IF c.un THEN QUn
             ELSE IF ~(c.def /\ c.isb) THEN QUndef
             ELSE IF m = "lazy" THEN (IF c.b THEN x ELSE y)
             ELSE IF x.un \/ y.un THEN QUn
             ELSE IF ~(x.def /\ y.def) THEN QUndef ELSE IF c.b THEN x ELSE y)
    [] t.k = "complex" -> (
         LET x == EvalQm(m, f, t.a[1], env)
             y == EvalQm(m, f, t.a[2], env)
         \* complex(a, b) = a + i b (a, b real in well-typed programs; the general reading keeps a constant that
         \* the rewriter folded into a complex-typed literal, e.g. abs(3+4j) -> 5+0j, at its value)
         IN  QU2(x, y, IF QCx(x) /\ QCx(y) THEN QCplx(QSub(Re(x), Im(y)), QAdd(Im(x), Re(y))) ELSE QUndef))
    [] t.k \in {"real", "imag", "conjugate"} -> (
         LET x == EvalQm(m, f, t.a[1], env)
         IN  IF x.un THEN QUn
             ELSE IF ~QCx(x) THEN QUndef
             ELSE CASE t.k = "real" -> QNum(Re(x))
                    [] t.k = "imag" -> QNum(Im(x))
                    [] t.k = "conjugate" -> IF x.c THEN QCplx(x.q, QNeg(x.qi)) ELSE x)
    [] t.k \in CastKinds -> (      \* casts are the identity on real numbers
         LET x == EvalQm(m, f, t.a[1], env) IN QU1(x, IF x.def /\ ~x.isb /\ ~x.isl THEN x ELSE QUndef))
    [] t.k \in PointKinds -> (LET x == EvalQm(m, f, t.a[1], env) IN IF x.def \/ x.un THEN PointQ(t.k, x) ELSE QUndef)
    [] t.k = "hypot" -> (
         LET x == EvalQm(m, f, t.a[1], env)
             y == EvalQm(m, f, t.a[2], env)
         IN  IF x.un \/ y.un THEN QUn
             ELSE IF ~QFin(x) \/ ~QFin(y) THEN QUndef
             ELSE LET s == QAdd(QMul(x.q, x.q), QMul(y.q, y.q)) IN IF QIsSquare(s) THEN QNum(QSqrt(s)) ELSE QUn)
    [] t.k = "is_finite" -> (
         LET x == EvalQm(m, f, t.a[1], env) IN QU1(x, IF QNumeric(x) THEN QBool(x.inf = 0) ELSE QUndef))
    [] t.k = "list" -> (
         LET s == [i \in 1..Len(t.a) |-> EvalQm(m, f, t.a[i], env)]
         IN  IF \E i \in 1..Len(s) : s[i].un THEN QUn
             ELSE IF \A i \in 1..Len(s) : s[i].def THEN QList(s) ELSE QUndef)
    [] t.k = "item" -> (
         LET l == EvalQm(m, f, t.a[1], env)
             i == IndexOf(t.a[2])
         IN  QU1(l, IF l.def /\ l.isl /\ i >= 0 /\ i < Len(l.lst) THEN l.lst[i + 1] ELSE QUndef))
    [] OTHER -> QUn
EvalQ(f, t, env) == EvalQm("strict", f, t, env)
EvalQLazy(f, t, env) == EvalQm("lazy", f, t, env)

\* same value; a complex number with zero imaginary part is the real number (5 + 0i = 5)
RECURSIVE QSame(_, _)
QSame(x, y) ==
  IF x.isl \/ y.isl THEN x.isl /\ y.isl /\ Len(x.lst) = Len(y.lst) /\ \A i \in 1..Len(x.lst) : QSame(x.lst[i], y.lst[i])
  ELSE /\ x.isb = y.isb
       /\ IF x.isb THEN x.b = y.b
          ELSE x.inf = y.inf /\ (x.inf = 0 => (QEq(x.q, y.q) /\ QEq(Im(x), Im(y))))

(*************************** floating-point semantics **********************)
\* results: [exc, isb, b, bits, lv, c, im, isl, lst, un]; a float carries the level lv of its format
FBase == [exc |-> FALSE, isb |-> FALSE, b |-> FALSE, bits |-> <<>>, lv |-> 0, c |-> FALSE, im |-> <<>>, isl |-> FALSE, lst |-> <<>>, un |-> FALSE]
FExc == [FBase EXCEPT !.exc = TRUE]
\* un: not an exception of the evaluation but a node whose result this semantics does not determine bit for bit
\* (complex product, a libm call, a format outside float16..float64, mixed-format arithmetic): never judged
FUn == [FBase EXCEPT !.exc = TRUE, !.un = TRUE]
FU1(x, r) == IF x.un THEN FUn ELSE r
FU2(x, y, r) == IF x.un \/ y.un THEN FUn ELSE r
FNumL(bits, lv) == [FBase EXCEPT !.bits = bits, !.lv = lv]
FNum(bits) == FNumL(bits, 0)
FBool(b) == [FBase EXCEPT !.isb = TRUE, !.b = b]
FCplx(re, im, lv) == [FBase EXCEPT !.c = TRUE, !.bits = re, !.im = im, !.lv = lv]
FList(s) == [FBase EXCEPT !.isl = TRUE, !.lst = s]
FReal(x) == ~x.exc /\ ~x.isb /\ ~x.c /\ ~x.isl
FCx(x) == ~x.exc /\ ~x.isb /\ ~x.isl

NamedF(f, n, lv) ==
  CASE n = "largest" -> FNumL(LargestMag(f), lv)
    [] n = "smallest" -> FNumL(MinNormalMag(f), lv)
    [] n = "smallest_subnormal" -> FNumL(NOne, lv)
    [] n = "eps" -> FNumL(RN(f, <<ZFromInt(1), -(f.p - 1)>>), lv)
    [] n = "posinf" -> FNumL(PosInf(f), lv)
    [] n = "neginf" -> FNumL(NegInf(f), lv)
    [] OTHER -> FUn

\* a correctly rounded arithmetic result r of finite operands whose exact value is not zero:
\* exceptional if it overflowed, or underflowed (tiny: below the normal range)
Tiny(f, r) == NCmp(Mag(f, r), MinNormalMag(f)) < 0
ArithBits(f, r, exactzero) == IsFinite(f, r) /\ (exactzero \/ ~Tiny(f, r))
ArithRes(f, r, exactzero, lv) == IF ArithBits(f, r, exactzero) THEN FNumL(r, lv) ELSE FExc

FCmp3(f, x, y) == \* x, y not NaN; infinities allowed
  LET ox == Ord(f, x)  oy == Ord(f, y) IN ZCmp(ox, oy)

\* a dyadic literal read in format g
LitF(g, q) == LET d == QNorm(q)
              IN  IF ~NIsPow2(d[2]) THEN [ok |-> FALSE, bits |-> <<>>]
                  ELSE LET r == RN(g, DMk(d[1], -(NBitLen(d[2]) - 1)))
                       IN  [ok |-> IsFinite(g, r), bits |-> r]

AddZero(g, a, b) == DIsZero(DAdd(Val(g, a), Val(g, b)))
SubZero(g, a, b) == DIsZero(DSub(Val(g, a), Val(g, b)))

RECURSIVE EvalF(_, _, _)
EvalF(f, t, env) ==
  CASE t.k = "sym" -> (IF t.t = "boolean" THEN FBool(env[t.n].b)
                       ELSE IF t.t = "complex" THEN FCplx(env[t.n].bits, env[t.n].im, 0)
                       ELSE FNum(env[t.n].bits))
    [] t.k = "num" -> (LET g == FmtLv(f, Lv(t))
                      IN  IF ~HasFmt(g) THEN FUn
                          ELSE LET r == LitF(g, t.q) IN IF r.ok THEN FNumL(r.bits, Lv(t)) ELSE FExc)
    [] t.k = "cnum" -> (LET g == FmtLv(f, Lv(t))
                       IN  IF ~HasFmt(g) THEN FUn
                           ELSE LET r == LitF(g, t.q)  i == LitF(g, t.qi)
                                IN  IF r.ok /\ i.ok THEN FCplx(r.bits, i.bits, Lv(t)) ELSE FExc)
    [] t.k = "named" -> (LET g == FmtLv(f, Lv(t)) IN IF HasFmt(g) THEN NamedF(g, t.n, Lv(t)) ELSE FUn)
    [] t.k = "bool" -> FBool(t.b)
    [] t.k \in RealKinds1 -> (
         LET x == EvalF(f, t.a[1], env)
             g == FmtLv(f, x.lv)
         IN  IF x.un \/ (~x.exc /\ ~HasFmt(g)) THEN FUn
             ELSE IF ~FCx(x) THEN FExc
             ELSE IF x.c THEN
               (CASE t.k = "positive" -> x
                  [] t.k = "negative" -> FCplx(FNeg(g, x.bits), FNeg(g, x.im), x.lv)
                  [] OTHER -> FUn)        \* complex multiplication, modulus: not specified bit for bit
             ELSE IF ~IsFinite(g, x.bits) THEN
               (CASE t.k = "positive" -> x [] t.k = "negative" -> FNumL(FNeg(g, x.bits), x.lv)
                  [] t.k = "absolute" -> FNumL(FAbs(g, x.bits), x.lv) [] OTHER -> FExc)
             ELSE CASE t.k = "positive" -> x
                    [] t.k = "negative" -> FNumL(FNeg(g, x.bits), x.lv)
                    [] t.k = "absolute" -> FNumL(FAbs(g, x.bits), x.lv)
                    [] t.k = "square" -> ArithRes(g, FMul(g, x.bits, x.bits), IsZero(g, x.bits), x.lv)
                    [] t.k = "sign" -> IF IsZero(g, x.bits) THEN FNumL(PosZero(g), x.lv)
                                       ELSE FNumL(WithSign(g, SignBit(g, x.bits), RN(g, DFromInt(1))), x.lv)
                    [] t.k = "sqrt" -> IF SignBit(g, x.bits) = 1 /\ ~IsZero(g, x.bits) THEN FExc
                                       ELSE FNumL(FSqrt(g, x.bits), x.lv))
    [] t.k \in RealKinds2 -> (
         LET x == EvalF(f, t.a[1], env)
             y == EvalF(f, t.a[2], env)
             g == FmtLv(f, x.lv)
         IN  IF x.un \/ y.un THEN FUn
             ELSE IF ~FCx(x) \/ ~FCx(y) THEN FExc
             ELSE IF x.lv # y.lv \/ ~HasFmt(g) THEN FUn      \* mixed formats: promotion not modelled
             ELSE IF x.c \/ y.c THEN
               \* component-wise sum / difference; a real operand is x + (+0)i; products and quotients are
               \* not specified bit for bit
               (IF t.k \notin {"add", "subtract"} THEN FUn
                ELSE LET xi == IF x.c THEN x.im ELSE PosZero(g)
                         yi == IF y.c THEN y.im ELSE PosZero(g)
                     IN  IF ~(IsFinite(g, x.bits) /\ IsFinite(g, y.bits) /\ IsFinite(g, xi) /\ IsFinite(g, yi)) THEN FExc
                         ELSE LET re == IF t.k = "add" THEN FAdd(g, x.bits, y.bits) ELSE FSub(g, x.bits, y.bits)
                                  im == IF t.k = "add" THEN FAdd(g, xi, yi) ELSE FSub(g, xi, yi)
                                  zr == IF t.k = "add" THEN AddZero(g, x.bits, y.bits) ELSE SubZero(g, x.bits, y.bits)
                                  zi == IF t.k = "add" THEN AddZero(g, xi, yi) ELSE SubZero(g, xi, yi)
                              IN  IF ArithBits(g, re, zr) /\ ArithBits(g, im, zi) THEN FCplx(re, im, x.lv) ELSE FExc)
             ELSE IF t.k \in {"minimum", "maximum"} THEN
                    LET c == FCmp3(g, x.bits, y.bits)
                    IN  IF t.k = "minimum" THEN (IF c <= 0 THEN x ELSE y) ELSE (IF c >= 0 THEN x ELSE y)
             ELSE IF ~IsFinite(g, x.bits) \/ ~IsFinite(g, y.bits) THEN FExc
             ELSE CASE t.k = "add" -> ArithRes(g, FAdd(g, x.bits, y.bits), AddZero(g, x.bits, y.bits), x.lv)
                    [] t.k = "subtract" -> ArithRes(g, FSub(g, x.bits, y.bits), SubZero(g, x.bits, y.bits), x.lv)
                    [] t.k = "multiply" -> ArithRes(g, FMul(g, x.bits, y.bits), IsZero(g, x.bits) \/ IsZero(g, y.bits), x.lv)
                    [] t.k = "divide" -> IF IsZero(g, y.bits) THEN FExc
                                         ELSE ArithRes(g, FDiv(g, x.bits, y.bits), IsZero(g, x.bits), x.lv))
    [] t.k \in RelKinds -> (
         LET x == EvalF(f, t.a[1], env)
             y == EvalF(f, t.a[2], env)
             g == FmtLv(f, x.lv)
         IN  IF x.un \/ y.un THEN FUn
             ELSE IF x.exc \/ y.exc THEN FExc
             ELSE IF ~FReal(x) \/ ~FReal(y) \/ x.lv # y.lv \/ ~HasFmt(g) THEN FUn
             ELSE FBool(RelHolds(t.k, FCmp3(g, x.bits, y.bits))))
    [] t.k \in BoolKinds2 -> (
         LET x == EvalF(f, t.a[1], env)
             y == EvalF(f, t.a[2], env)
         IN  IF x.un \/ y.un THEN FUn
             ELSE IF x.exc \/ y.exc \/ ~x.isb \/ ~y.isb THEN FExc
             ELSE CASE t.k = "logical_and" -> FBool(x.b /\ y.b)
                    [] t.k = "logical_or" -> FBool(x.b \/ y.b)
                    [] t.k = "logical_xor" -> FBool(x.b # y.b))
    [] t.k = "logical_not" -> (
         LET x == EvalF(f, t.a[1], env) IN FU1(x, IF x.exc \/ ~x.isb THEN FExc ELSE FBool(~x.b)))
    [] t.k = "select" -> (
         LET c == EvalF(f, t.a[1], env)
             x == EvalF(f, t.a[2], env)
             y == EvalF(f, t.a[3], env)
         IN  IF c.un \/ x.un \/ y.un THEN FUn
             ELSE IF c.exc \/ ~c.isb \/ x.exc \/ y.exc THEN FExc ELSE IF c.b THEN x ELSE y)
    [] t.k = "complex" -> (
         LET x == EvalF(f, t.a[1], env)
             y == EvalF(f, t.a[2], env)
         IN  FU2(x, y, IF FReal(x) /\ FReal(y) /\ x.lv = y.lv THEN FCplx(x.bits, y.bits, x.lv) ELSE FExc))
    [] t.k \in {"real", "imag", "conjugate"} -> (
         LET x == EvalF(f, t.a[1], env)
             g == FmtLv(f, x.lv)
         IN  IF x.un \/ (~x.exc /\ ~HasFmt(g)) THEN FUn
             ELSE IF ~FCx(x) THEN FExc
             ELSE CASE t.k = "real" -> FNumL(x.bits, x.lv)
                    [] t.k = "imag" -> IF x.c THEN FNumL(x.im, x.lv) ELSE FNumL(PosZero(g), x.lv)
                    [] t.k = "conjugate" -> IF x.c THEN FCplx(x.bits, FNeg(g, x.im), x.lv) ELSE x)
    [] t.k \in CastKinds -> (
         \* upcast is exact; downcast rounds to nearest (overflow / underflow of the narrower format are exceptional)
         LET x == EvalF(f, t.a[1], env)
             g == FmtLv(f, x.lv)
             lv2 == IF t.k = "upcast" THEN x.lv + 1 ELSE x.lv - 1
             h == FmtLv(f, lv2)
         IN  IF x.un THEN FUn
             ELSE IF x.exc THEN FExc
             ELSE IF ~FReal(x) \/ ~HasFmt(g) \/ ~HasFmt(h) THEN FUn
             ELSE IF ~IsFinite(g, x.bits) THEN FExc
             ELSE IF IsZero(g, x.bits) THEN FNumL(WithSign(h, SignBit(g, x.bits), <<>>), lv2)
             ELSE ArithRes(h, RN(h, Val(g, x.bits)), FALSE, lv2))
    [] t.k \in PointKinds -> (
         LET x == EvalF(f, t.a[1], env)
             g == FmtLv(f, x.lv)
         IN  IF x.un THEN FUn
             ELSE IF x.exc THEN FExc
             ELSE IF ~FReal(x) \/ ~HasFmt(g) THEN FUn
             ELSE LET one == RN(g, DFromInt(1))
                  IN  IF t.k \in ZeroAtOne /\ x.bits = one THEN FNumL(PosZero(g), x.lv)
                      ELSE IF t.k \in ZeroAtZero /\ IsZero(g, x.bits) THEN FNumL(x.bits, x.lv)
                      ELSE IF t.k \in OneAtZero /\ IsZero(g, x.bits) THEN FNumL(one, x.lv)
                      ELSE FUn)
    [] t.k = "is_finite" -> (
         LET x == EvalF(f, t.a[1], env)
             g == FmtLv(f, x.lv)
         IN  IF x.un THEN FUn ELSE IF x.exc THEN FExc
             ELSE IF ~FReal(x) \/ ~HasFmt(g) THEN FUn ELSE FBool(IsFinite(g, x.bits)))
    [] t.k = "list" -> (
         LET s == [i \in 1..Len(t.a) |-> EvalF(f, t.a[i], env)]
         IN  IF \E i \in 1..Len(s) : s[i].un THEN FUn
             ELSE IF \A i \in 1..Len(s) : ~s[i].exc THEN FList(s) ELSE FExc)
    [] t.k = "item" -> (
         LET l == EvalF(f, t.a[1], env)
             i == IndexOf(t.a[2])
         IN  FU1(l, IF ~l.exc /\ l.isl /\ i >= 0 /\ i < Len(l.lst) THEN l.lst[i + 1] ELSE FExc))
    [] OTHER -> FUn

\* booleans identical, floats equal up to the sign of zero (same format); a complex result with a zero
\* imaginary part and the real result are the same value
RECURSIVE FSame(_, _, _)
FSame(f, x, y) ==
  IF x.isl \/ y.isl THEN x.isl /\ y.isl /\ Len(x.lst) = Len(y.lst) /\ \A i \in 1..Len(x.lst) : FSame(f, x.lst[i], y.lst[i])
  ELSE /\ x.isb = y.isb
       /\ IF x.isb THEN x.b = y.b
          ELSE LET g == FmtLv(f, x.lv)
                   same(a, b) == a = b \/ (IsZero(g, a) /\ IsZero(g, b))
                   xi == IF x.c THEN x.im ELSE PosZero(g)
                   yi == IF y.c THEN y.im ELSE PosZero(g)
               IN  x.lv = y.lv /\ HasFmt(g) /\ same(x.bits, y.bits) /\ same(xi, yi)


(*************************** the up/down cast class *************************)
\* upcast(downcast(x)) with x replaced for the whole pattern: the reading under which the rewriter's
\* rule upcast(downcast(x)) -> x is an identity (used to CLASSIFY a float disagreement, see Trace_Rewrite)
RECURSIVE ElimUD(_)
\* (bottom-up: the operands are normalised first, so upcast(upcast(downcast(downcast(x)))) becomes x as well)
ElimUD(t) == LET t1 == [t EXCEPT !.a = [i \in 1..Len(t.a) |-> ElimUD(t.a[i])]]
             IN  IF t1.k = "upcast" /\ t1.a[1].k = "downcast" THEN t1.a[1].a[1] ELSE t1

(*************************** assignments ************************************)
\* values given to float symbols (finite; zeros of both signs; a subnormal; the extremes)
DomainBits(f, n) ==
  LET one == RN(f, DFromInt(1))
      two == RN(f, DFromInt(2))
      three == RN(f, DFromInt(3))
      half == RN(f, <<ZFromInt(1), -1>>)
      neg(x) == WithSign(f, 1, x)
      base == {PosZero(f), one, neg(one), two, NOne}
  IN  IF n <= 1 THEN base \cup {neg(two), NegZero(f), half, neg(half), three, MinNormalMag(f), neg(NOne), LargestMag(f),
                                neg(LargestMag(f)), NAdd(one, NOne), NSub(one, NOne)}
      ELSE IF n = 2 THEN base \cup {neg(two), half}
      ELSE IF n = 3 THEN base
      ELSE IF n = 4 THEN {PosZero(f), one, neg(two), half}
      ELSE {PosZero(f), one, neg(two)}
\* all assignments of a set of <<name, type>> symbols
Envs(f, syms) ==
  LET names == {s[1] : s \in syms}
      nf == Cardinality({s \in syms : s[2] # "boolean"}) + Cardinality({s \in syms : s[2] = "complex"})
      ty(nm) == (CHOOSE s \in syms : s[1] = nm)[2]
      vals(nm) == IF ty(nm) = "boolean" THEN {[b |-> TRUE, bits |-> <<>>, im |-> <<>>], [b |-> FALSE, bits |-> <<>>, im |-> <<>>]}
                  ELSE IF ty(nm) = "complex" THEN {[b |-> FALSE, bits |-> x, im |-> y] : x \in DomainBits(f, nf), y \in DomainBits(f, nf)}
                  ELSE {[b |-> FALSE, bits |-> x, im |-> <<>>] : x \in DomainBits(f, nf)}
  IN  {e \in [names -> UNION {vals(nm) : nm \in names}] : \A nm \in names : e[nm] \in vals(nm)}
=============================================================================
