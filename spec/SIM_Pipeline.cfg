\* simulation: random orders and repetitions over the full request alphabet (set per run)
SPECIFICATION SimSpec
CONSTANTS
  Requests = {1}
  Seeds = {0}
  MaxLen = 30
  Leak = "none"
INVARIANT Emit
CHECK_DEADLOCK FALSE
