----------------------------- MODULE Trace_Poly -----------------------------
(***************************************************************************)
(* U3 for C16: every recorded call of a polynomial utility of              *)
(* functional_algorithms.polynomial ("poly") or of the copies in           *)
(* floating_point_algorithms ("fpa", run on an exact Fraction context) is  *)
(* compared EXACTLY (QEq, cross-multiplication) with the definitions of    *)
(* Poly.tla.  Rationals are logged as [[neg, limbs], limbs].               *)
(*                                                                         *)
(* Conventions taken from the docstrings of the code under test:           *)
(*  - coefficient lists are lowest power first; reverse = TRUE means the   *)
(*    list (arguments AND polynomial-valued results) is highest power      *)
(*    first:  Ord(list, reverse) is the list in the spec's order;          *)
(*  - laurent(z, C, m): sum_j C[j] z^(j+m) (after Ord);                    *)
(*  - ratio form: rcoeffs[i] = coeffs[i]/coeffs[i-1], coeffs[-1] = 1;      *)
(*  - taylorat(P, z0): sum_m C_m (z - z0)^m = P(z);                        *)
(*  - divmod(P, D) = (Q, R) with P = Q*D + R (and deg R < deg D from the   *)
(*    property statement).                                                 *)
(*                                                                         *)
(* Leniencies (resolved in favour of the code):                            *)
(*  - polynomial-valued results are compared as polynomials (PEq): extra   *)
(*    or missing zero entries at the high-power end are not a failure;     *)
(*  - a call outside the mathematical domain (ratio form of a list with a  *)
(*    zero among all-but-the-last coefficients, Laurent with m < 0 at      *)
(*    z = 0, division by the zero polynomial, empty coefficient list for   *)
(*    an evaluation) is not judged, whatever the code did;                 *)
(*  - RecursionError on a list of more than 41 coefficients (outside the   *)
(*    quantifier "degree 0..40") is not judged for the schemes whose       *)
(*    recursion depth is linear in the degree (it IS judged for the        *)
(*    default and balanced schemes, whose depth is logarithmic);           *)
(*  - taylorat's undocumented `size`: every returned coefficient must be   *)
(*    exact and at least min(size, deg + 1) of them must be returned.      *)
(*                                                                         *)
(* A failing divmod whose true quotient has a zero coefficient below its   *)
(* leading one is named with the suffix _gappy_quotient.  This only NAMES  *)
(* the failure more narrowly; it never turns a failure into a pass.        *)
(***************************************************************************)
EXTENDS Poly, TraceKit
VARIABLE l

Ord(P, rev) == IF rev THEN PRev(P) ELSE P
Raised(e) == e.raised # ""

(*************************** evaluation events *****************************)
EvalFails(e) ==
  LET P == Ord(e.coeffs, e.reverse)
      x == e.x
      dom == /\ Len(P) >= 1
             /\ (e.form = "laurent" /\ e.m < 0) => ~QIsZero(x)
  IN  IF ~dom THEN {}
      ELSE IF Raised(e) THEN (IF e.raised = "RecursionError" /\ Len(P) > 41 /\ e.scheme \notin {"default", "balanced"}
                              THEN {} ELSE {"raised"})
      ELSE LET want == IF e.form = "plain" THEN PEval(P, x)
                       ELSE IF e.form = "ratio" THEN PEval(PFromRatio(P), x)
                       ELSE LEval(P, e.m, x)
           IN  IF QEq(e.r, want) THEN {} ELSE {"value"}

PowFails(e) == IF Raised(e) THEN {"raised"}
               ELSE IF QEq(e.r, QPow(e.x, e.n)) THEN {} ELSE {"value"}

(*************************** ratio form ************************************)
AsrFails(e) ==
  LET C == Ord(e.coeffs, e.reverse)
      R == Ord(e.r, e.reverse)
      dom == Len(C) >= 1 /\ RatioDomain(C)
      W == PToRatio(C)
  IN  IF ~dom THEN {}
      ELSE IF Raised(e) THEN {"raised"}
      ELSE (IF Len(R) <= Len(C) /\ \A i \in 1..Len(R) : QEq(R[i], W[i]) THEN {} ELSE {"ratio"})
      \cup (IF PEq(PFromRatio(R), C) THEN {} ELSE {"roundtrip"})

(*************************** algebra ***************************************)
AddFails(e) == IF Raised(e) THEN {"raised"}
               ELSE IF PEq(Ord(e.r, e.reverse), PAdd(Ord(e.P, e.reverse), Ord(e.Q, e.reverse))) THEN {} ELSE {"sum"}
MulFails(e) == IF Raised(e) THEN {"raised"}
               ELSE IF PEq(Ord(e.r, e.reverse), PMul(Ord(e.P, e.reverse), Ord(e.Q, e.reverse))) THEN {} ELSE {"product"}
DerivFails(e) == IF Raised(e) THEN {"raised"}
                 ELSE IF PEq(Ord(e.r, e.reverse), PDerivN(Ord(e.P, e.reverse), e.n)) THEN {} ELSE {"derivative"}

TaylorFails(e) ==
  LET P == Ord(e.P, e.reverse)
      C == Ord(e.r, e.reverse)
      T == PTaylorAt(P, e.z0)
      need == IF e.size < 0 THEN Deg(T) + 1 ELSE Min(e.size, Deg(T) + 1)
  IN  IF Raised(e) THEN {"raised"}
      ELSE (IF \A i \in 1..Len(C) : QEq(C[i], PCoef(T, i)) THEN {} ELSE {"taylor"})
      \cup (IF Len(C) >= need THEN {} ELSE {"taylor_truncated"})

DivFails(e) ==
  LET P == Ord(e.P, e.reverse)
      D == Ord(e.D, e.reverse)
      Q == Ord(e.Q, e.reverse)
      R == Ord(e.R, e.reverse)
  IN  IF PIsZero(D) THEN {}
      ELSE IF Raised(e) THEN {"raised"}
      ELSE LET idOK == DivIdentity(P, D, Q, R)
               degOK == Deg(R) < Deg(D)
           IN  IF idOK /\ degOK THEN {}
               ELSE LET \* the driver's witness of the true quotient (spec order), used only if it verifies:
                        \* DivModOK has exactly one solution, so a verified witness IS the quotient
                        tq == PTrim(e.wQ)
                        gappy == /\ DivModOK(P, D, e.wQ, e.wR)
                                 /\ \E i \in 1..(Len(tq) - 1) : QIsZero(tq[i])
                        sfx == IF gappy THEN "_gappy_quotient" ELSE ""
                    IN  (IF idOK THEN {} ELSE {"identity" \o sfx})
                        \cup (IF degOK THEN {} ELSE {"degree" \o sfx})

Fails(e) ==
  IF e.op = "eval" THEN EvalFails(e)
  ELSE IF e.op = "pow" THEN PowFails(e)
  ELSE IF e.op = "asr" THEN AsrFails(e)
  ELSE IF e.op = "add" THEN AddFails(e)
  ELSE IF e.op = "mul" THEN MulFails(e)
  ELSE IF e.op = "deriv" THEN DerivFails(e)
  ELSE IF e.op = "taylor" THEN TaylorFails(e)
  ELSE IF e.op = "divmod" THEN DivFails(e)
  ELSE {"unknown_op"}

Init == l = 1
Next == /\ l <= Len(Trace)
        /\ Report(Trace[l], Fails(Trace[l]))
        /\ l' = l + 1
Spec == Init /\ [][Next]_l
=============================================================================
