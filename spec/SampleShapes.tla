---------------------------- MODULE SampleShapes ----------------------------
(***************************************************************************)
(* C19, U2: the discrete structure of a real_samples call - the shape of   *)
(* the bounds, the flags, the size class and the dtype.  TLC enumerates    *)
(* every combination and prints it; the Python driver picks concrete bit   *)
(* patterns for each shape and executes the real code.                     *)
(*                                                                         *)
(* Bounds shapes:                                                          *)
(*   none                          no user bounds (default path)           *)
(*   minonly_pos/neg, maxonly_pos/neg   one bound given                    *)
(*   pos, neg                      both bounds of one sign                 *)
(*   straddle                      min < 0 < max, sides comparable         *)
(*   straddle_lopsided             one side within a few ULP of the        *)
(*                                 smallest positive sample                *)
(*   minnormal_lo, minnormal_hi    a bound equal to -+smallest normal      *)
(*   sub_lo_pos, sub_hi_neg        subnormal bound, same sign              *)
(*   sub_lo_neg, sub_hi_pos, sub_both   subnormal bound, straddling        *)
(*   equal, adjacent               max = min, max = next after min         *)
(*   equal_sub, equal_zero, adjacent_sub   degenerate ranges at a subnormal *)
(*                                 / a zero of either sign                 *)
(*   minonly_sub, maxonly_sub      ONE subnormal bound (either sign), the  *)
(*                                 other left to its default               *)
(*   zero_lo (+0,x) zero_hi (x,-0) zero bound carrying the range's sign    *)
(*   negzero_lo (-0,x) poszero_hi (x,+0)  zero bound of the other sign     *)
(* With user bounds the flags include_infinity/nan/huge/nonnegative are    *)
(* documented as ignored: they are exercised in two settings (ign).        *)
(***************************************************************************)
EXTENDS TLC, Naturals
CONSTANTS SizeClasses, Fmts
VARIABLE s

UserShapes == {"minonly_pos", "minonly_neg", "maxonly_pos", "maxonly_neg", "pos", "neg",
               "straddle", "straddle_lopsided", "minnormal_lo", "minnormal_hi",
               "sub_lo_pos", "sub_hi_neg", "sub_lo_neg", "sub_hi_pos", "sub_both",
               "equal", "adjacent", "zero_lo", "zero_hi", "negzero_lo", "poszero_hi",
               "equal_sub", "equal_zero", "adjacent_sub", "minonly_sub", "maxonly_sub"}

Default == [b : {"none"}, sz : SizeClasses, fmt : Fmts, inf : BOOLEAN, zero : BOOLEAN,
            sub : BOOLEAN, nan : BOOLEAN, huge : BOOLEAN, nonneg : BOOLEAN, unique : BOOLEAN]
UserRaw == [b : UserShapes, sz : SizeClasses, fmt : Fmts, zero : BOOLEAN, sub : BOOLEAN,
            unique : BOOLEAN, ign : {0, 1}]
Full(u) == [b |-> u.b, sz |-> u.sz, fmt |-> u.fmt, inf |-> (u.ign = 0), zero |-> u.zero,
            sub |-> u.sub, nan |-> (u.ign = 1), huge |-> (u.ign = 0), nonneg |-> (u.ign = 1),
            unique |-> u.unique]
Shapes == Default \cup {Full(u) : u \in UserRaw}

Init == s \in Shapes
Next == UNCHANGED s
Spec == Init /\ [][Next]_s
Printed == PrintT(<<"H", s.b, s.sz, s.fmt, s.inf, s.zero, s.sub, s.nan, s.huge, s.nonneg, s.unique>>)
=============================================================================
