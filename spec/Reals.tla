-------------------------------- MODULE Reals --------------------------------
(***************************************************************************)
(* Rigorous real arithmetic for TLC: dyadic INTERVAL arithmetic over the    *)
(* BigInt.tla limb integers, with outward rounding to a working width of W *)
(* significant bits, and enclosures of exp, sin, cos, sinh, cosh, log,     *)
(* atan from power series with explicit remainder bounds.  TLC has 32-bit  *)
(* integers and no reals: this module is how a specification can SAY what  *)
(* the true value of asin(x) is, instead of importing it from an oracle.   *)
(* (C02 uses it through Accuracy.tla; C01 is meant to be built on it.)     *)
(*                                                                         *)
(* VALUES.  A dyadic is BigInt's D* value <<z, e>> = z * 2^e.  An interval *)
(* is <<lo, hi>>, two dyadics with lo <= hi, and DENOTES the set of reals  *)
(* {t : lo <= t <= hi}.  The contract of every operator F*I / F*P / F*S    *)
(* below ("enclosure"):                                                    *)
(*       for every real x in X:   f(x) is in F(X, W)        for every W>=8 *)
(* W only controls tightness (each rounding moves lo down / hi up to W     *)
(* significant bits, relative error 2^-(W-1)), never soundness.  W is an   *)
(* explicit argument, so a caller can retry an inconclusive comparison     *)
(* with a larger W inside the same evaluation.  WX ("exact") is a width no *)
(* operand reaches.                                                        *)
(*                                                                         *)
(* NAMING.  ...S  raw series on an interval, with a stated precondition    *)
(*                on the magnitude of the argument (checked by Assert);    *)
(*          ...P  a dyadic POINT argument, any magnitude in the stated     *)
(*                range: argument reduction + series + reconstruction;     *)
(*          ...I  an INTERVAL argument: monotone pieces are evaluated at   *)
(*                end points with ...P; sin/cos reduce the whole interval  *)
(*                with one multiple of pi/2 and evaluate the series in     *)
(*                interval arithmetic (inclusion isotonicity).             *)
(*                                                                         *)
(* CONSTANTS.  ln 2 and pi enter only through ArgReduceConsts: the integer *)
(* numerators Ln2Num (300 bits) and PiNum (1300 bits), whose enclosure     *)
(* property  Num*2^-Bits <= c <= (Num+1)*2^-Bits  is PROVED inside TLA+ by *)
(* MC_ArgReduce.cfg (series with remainder bounds).  Truncations of them   *)
(* (Ln2T, PiT) are enclosures a fortiori.                                  *)
(*                                                                         *)
(* REMAINDER BOUNDS (each repeated at its series, with the justification): *)
(*   expm1  |sum_{n>N} x^n/n!|         <= 2 |x|^(N+1)/(N+1)!    |x| <= 1   *)
(*   sin    |R|  <= |x|^(2N+3)/(2N+3)!   (Lagrange, any real x)            *)
(*   cos    |R|  <= |x|^(2N+2)/(2N+2)!   (Lagrange, any real x)            *)
(*   atan   |R|  <= |x|^(2N+3)/(2N+3)    (Leibniz, |x| <= 1)               *)
(*   atanh  |R|  <= 2 |x|^(2N+3)/(2N+3)  (geometric majorant, x^2 <= 1/2)  *)
(* In every series the "first omitted term" is itself computed as an       *)
(* interval enclosing x^k/c for every x in X, so its magnitude bounds the  *)
(* real first omitted term for every x in X.                               *)
(*                                                                         *)
(* SELF-VALIDATION.  MC_Reals.cfg (U1) checks algebraic laws the           *)
(* enclosures must satisfy on dyadic grids; harness/props/c02.py selftest  *)
(* compares every function on thousands of random points with mpmath at    *)
(* 400 bits (Trace_Reals.tla) - a machinery self-test, never a verdict.    *)
(***************************************************************************)
EXTENDS BigInt, ArgReduceConsts, TLC

WX == 1000000                       \* "exact": no operand has that many bits

(*************************** dyadic helpers ********************************)
DOne == <<ZFromInt(1), 0>>
DTwo == <<ZFromInt(1), 1>>
DPow2(k) == <<ZFromInt(1), k>>                        \* 2^k, k any native integer
DMaxOf(a, b) == IF DLe(a, b) THEN b ELSE a
DMinOf(a, b) == IF DLe(a, b) THEN a ELSE b
DHalf(a) == DShl(a, -1)
\* exponent of the leading bit, -infinity (a large negative number) for zero
DLeadZ(a) == IF DIsZero(a) THEN -100000000 ELSE DLead(a)

\* magnitude cut to W significant bits: toward zero / away from zero
DTrunc(d, W) ==
  LET n == NBitLen(d[1][2])
  IN  IF n <= W THEN d ELSE <<<<d[1][1], NShr(d[1][2], n - W)>>, d[2] + (n - W)>>
DAway(d, W) ==
  LET n == NBitLen(d[1][2])
      k == n - W
  IN  IF n <= W THEN d
      ELSE LET q == NShr(d[1][2], k)
           IN  <<<<d[1][1], IF NLow(d[1][2], k) = <<>> THEN q ELSE NAdd(q, NOne)>>, d[2] + k>>
\* the two directed roundings to W significant bits:  DRoundDown(d) <= d <= DRoundUp(d)
DRoundDown(d, W) == IF d[1][1] = 0 THEN DTrunc(d, W) ELSE DAway(d, W)
DRoundUp(d, W) == IF d[1][1] = 0 THEN DAway(d, W) ELSE DTrunc(d, W)

(*************************** directed division and square root *************)
\* |a / b| in [q, q + inexact] * 2^e with q of more than W bits  (a, b # 0)
DivMag(a, b, W) ==
  LET ma == a[1][2]
      mb == b[1][2]
      s == Max(0, W + 1 + NBitLen(mb) - NBitLen(ma))
      qr == NDivMod(NShl(ma, s), mb)
  IN  <<qr[1], IF qr[2] = <<>> THEN 0 ELSE 1, a[2] - b[2] - s>>
DDivDir(a, b, W, up) ==                 \* a / b rounded toward +inf (up) or -inf, b # 0
  IF DIsZero(a) THEN DZero
  ELSE LET m == DivMag(a, b, W)
           neg == (a[1][1] + b[1][1]) % 2
           away == (neg = 0) = up      \* does the magnitude grow?
           q == IF away /\ m[2] = 1 THEN NAdd(m[1], NOne) ELSE m[1]
           d == <<<<neg, q>>, m[3]>>
       IN  IF away THEN DAway(d, W) ELSE DTrunc(d, W)
DDivDown(a, b, W) == DDivDir(a, b, W, FALSE)
DDivUp(a, b, W) == DDivDir(a, b, W, TRUE)

\* sqrt(a), a >= 0: <<r, inexact, e>> with sqrt(a) in [r, r + inexact] * 2^e, r of more than W bits
SqrtMag(a, W) ==
  LET m == a[1][2]
      s0 == Max(0, 2 * W + 2 - NBitLen(m))
      s == IF (a[2] - s0) % 2 = 0 THEN s0 ELSE s0 + 1
      ms == NShl(m, s)
      r == NSqrt(ms)
  IN  <<r, IF NMul(r, r) = ms THEN 0 ELSE 1, (a[2] - s) \div 2>>
DSqrtDir(a, W, up) ==
  IF DIsZero(a) THEN DZero
  ELSE LET m == SqrtMag(a, W)
           q == IF up /\ m[2] = 1 THEN NAdd(m[1], NOne) ELSE m[1]
           d == <<<<0, q>>, m[3]>>
       IN  IF up THEN DAway(d, W) ELSE DTrunc(d, W)
DSqrtDown(a, W) == DSqrtDir(a, W, FALSE)
DSqrtUp(a, W) == DSqrtDir(a, W, TRUE)

(*************************** intervals *************************************)
IPt(d) == <<d, d>>
IMk(lo, hi) == <<lo, hi>>
IZero == IPt(DZero)
IOne == IPt(DOne)
ITwo == IPt(DTwo)
IInt(n) == IPt(DFromInt(n))
ILo(X) == X[1]
IHi(X) == X[2]
IWellFormed(X) == DLe(X[1], X[2])
IContains(X, d) == DLe(X[1], d) /\ DLe(d, X[2])
ISubset(X, Y) == DLe(Y[1], X[1]) /\ DLe(X[2], Y[2])
IMeets(X, Y) == DLe(X[1], Y[2]) /\ DLe(Y[1], X[2])
IHull(X, Y) == <<DMinOf(X[1], Y[1]), DMaxOf(X[2], Y[2])>>
IMeet(X, Y) == <<DMaxOf(X[1], Y[1]), DMinOf(X[2], Y[2])>>     \* requires IMeets
IWidth(X) == DSub(X[2], X[1])
IMag(X) == DMaxOf(DAbs(X[1]), DAbs(X[2]))                     \* max |x|
IMig(X) == IF DSign(X[1]) > 0 THEN X[1] ELSE IF DSign(X[2]) < 0 THEN DAbs(X[2]) ELSE DZero  \* min |x|
IIsPos(X) == DSign(X[1]) > 0          \* every element > 0
IIsNeg(X) == DSign(X[2]) < 0
IIsNonNeg(X) == DSign(X[1]) >= 0
IIsNonPos(X) == DSign(X[2]) <= 0
IHasZero(X) == DSign(X[1]) <= 0 /\ DSign(X[2]) >= 0
\* certainly-less / certainly-greater: the three-valued comparisons of clients
ICertLt(X, Y) == DLt(X[2], Y[1])
ICertLe(X, Y) == DLe(X[2], Y[1])
\* relative width bound: width(X) <= 2^k * mig(X)   (FALSE when X contains 0 and is not {0})
IRelWidthLe(X, k) == DLe(IWidth(X), DShl(IMig(X), k))

IRound(X, W) == <<DRoundDown(X[1], W), DRoundUp(X[2], W)>>
INeg(X) == <<DNeg(X[2]), DNeg(X[1])>>
IAbs(X) == IF IIsNonNeg(X) THEN X ELSE IF IIsNonPos(X) THEN INeg(X) ELSE <<DZero, IMag(X)>>
IScale(X, k) == <<DShl(X[1], k), DShl(X[2], k)>>              \* exact: times 2^k
IAdd(X, Y, W) == <<DRoundDown(DAdd(X[1], Y[1]), W), DRoundUp(DAdd(X[2], Y[2]), W)>>
ISub(X, Y, W) == <<DRoundDown(DSub(X[1], Y[2]), W), DRoundUp(DSub(X[2], Y[1]), W)>>
\* X + [-r, r] for a dyadic r >= 0
IWiden(X, r, W) == <<DRoundDown(DSub(X[1], r), W), DRoundUp(DAdd(X[2], r), W)>>

\* product by the nine sign cases (two multiplications except when both straddle 0)
IMul(X, Y, W) ==
  LET xl == X[1]  xh == X[2]  yl == Y[1]  yh == Y[2]
      Prod4(a, b, c, d) == <<DRoundDown(DMul(a, b), W), DRoundUp(DMul(c, d), W)>>
  IN  IF DSign(xl) >= 0 THEN
        (IF DSign(yl) >= 0 THEN Prod4(xl, yl, xh, yh)
         ELSE IF DSign(yh) <= 0 THEN Prod4(xh, yl, xl, yh)
         ELSE Prod4(xh, yl, xh, yh))
      ELSE IF DSign(xh) <= 0 THEN
        (IF DSign(yl) >= 0 THEN Prod4(xl, yh, xh, yl)
         ELSE IF DSign(yh) <= 0 THEN Prod4(xh, yh, xl, yl)
         ELSE Prod4(xl, yh, xl, yl))
      ELSE
        (IF DSign(yl) >= 0 THEN Prod4(xl, yh, xh, yh)
         ELSE IF DSign(yh) <= 0 THEN Prod4(xh, yl, xl, yl)
         ELSE <<DRoundDown(DMinOf(DMul(xl, yh), DMul(xh, yl)), W),
                DRoundUp(DMaxOf(DMul(xl, yl), DMul(xh, yh)), W)>>)
\* reference definition (min / max of the four end-point products); MC_Reals: IMul = IMulRef
IMulRef(X, Y, W) ==
  LET p1 == DMul(X[1], Y[1])  p2 == DMul(X[1], Y[2])  p3 == DMul(X[2], Y[1])  p4 == DMul(X[2], Y[2])
  IN  <<DRoundDown(DMinOf(DMinOf(p1, p2), DMinOf(p3, p4)), W),
        DRoundUp(DMaxOf(DMaxOf(p1, p2), DMaxOf(p3, p4)), W)>>
ISqr(X, W) ==
  IF DSign(X[1]) >= 0 THEN <<DRoundDown(DMul(X[1], X[1]), W), DRoundUp(DMul(X[2], X[2]), W)>>
  ELSE IF DSign(X[2]) <= 0 THEN <<DRoundDown(DMul(X[2], X[2]), W), DRoundUp(DMul(X[1], X[1]), W)>>
  ELSE <<DZero, DRoundUp(DMul(IMag(X), IMag(X)), W)>>
IMulInt(X, n, W) == IMul(X, IInt(n), W)

\* quotient, Y must not contain 0 (Assert): six sign cases
IDiv(X, Y, W) ==
  LET xl == X[1]  xh == X[2]  yl == Y[1]  yh == Y[2]
      Quot4(a, b, c, d) == <<DDivDown(a, b, W), DDivUp(c, d, W)>>
  IN  IF DSign(yl) > 0 THEN
        (IF DSign(xl) >= 0 THEN Quot4(xl, yh, xh, yl)
         ELSE IF DSign(xh) <= 0 THEN Quot4(xl, yl, xh, yh)
         ELSE Quot4(xl, yl, xh, yl))
      ELSE IF DSign(yh) < 0 THEN
        (IF DSign(xl) >= 0 THEN Quot4(xh, yh, xl, yl)
         ELSE IF DSign(xh) <= 0 THEN Quot4(xh, yl, xl, yh)
         ELSE Quot4(xh, yh, xl, yh))
      ELSE Assert(FALSE, "Reals!IDiv: divisor interval contains 0")
IDivRef(X, Y, W) ==
  LET lo(a, b) == DDivDown(a, b, W)
      hi(a, b) == DDivUp(a, b, W)
  IN  <<DMinOf(DMinOf(lo(X[1], Y[1]), lo(X[1], Y[2])), DMinOf(lo(X[2], Y[1]), lo(X[2], Y[2]))),
        DMaxOf(DMaxOf(hi(X[1], Y[1]), hi(X[1], Y[2])), DMaxOf(hi(X[2], Y[1]), hi(X[2], Y[2])))>>
IInv(Y, W) == IDiv(IOne, Y, W)
IDivInt(X, n, W) == IDiv(X, IInt(n), W)                       \* n a non-zero native integer

\* square root, X must be >= 0 (Assert)
ISqrt(X, W) ==
  IF DSign(X[1]) < 0 THEN Assert(FALSE, "Reals!ISqrt: negative lower bound")
  ELSE <<DSqrtDown(X[1], W), DSqrtUp(X[2], W)>>

(*************************** constants *************************************)
\* c in [Num, Num + 1] * 2^-Bits  ==>  c in [floor(Num / 2^(Bits-T)), same + 1] * 2^-T   (T <= Bits)
EnclT(num, nbits, T) ==
  LET t == Min(T, nbits)
      n == NShr(num, nbits - t)
  IN  <<<<ZFromNat(n), -t>>, <<ZFromNat(NAdd(n, NOne)), -t>>>>
Ln2T(T) == EnclT(Ln2Num, Ln2Bits, T)          \* enclosure of ln 2 of width 2^-min(T,300)
PiT(T) == EnclT(PiNum, PiBits, T)             \* enclosure of pi   of width 2^-min(T,1300)
Ln2I == Ln2T(Ln2Bits)
PiI == PiT(PiBits)
HalfPiI == IScale(PiI, -1)

(*************************** expm1 / exp ***********************************)
\* sum_{n=1..N} x^n/n! + R_N(x),  |R_N(x)| <= sum_{n>N} |x|^n/n!
\*     <= |x|^(N+1)/(N+1)! * (1 + |x|/(N+2) + (|x|/(N+2))^2 + ...) <= 2 |x|^(N+1)/(N+1)!
\* because |x|/(N+2) <= 1/2 for |x| <= 1, N >= 0.  term = enclosure of x^n/n! (the first
\* omitted term when the loop stops); cut = exponent below which terms are negligible
\* relative to x (so tiny arguments keep RELATIVE accuracy: expm1(x) ~ x).
RECURSIVE ExpM1Loop(_, _, _, _, _, _)
ExpM1Loop(X, W, sum, term, n, cut) ==
  IF DLeadZ(IMag(term)) < cut
  THEN IWiden(sum, DShl(IMag(term), 1), W)
  ELSE ExpM1Loop(X, W, IAdd(sum, term, W), IDivInt(IMul(term, X, W), n + 1, W), n + 1, cut)
\* precondition |x| <= 1 for every x in X
ExpM1S(X, W) ==
  IF ~DLe(IMag(X), DOne) THEN Assert(FALSE, "Reals!ExpM1S: |x| > 1")
  ELSE IF DIsZero(IMag(X)) THEN IZero
  ELSE ExpM1Loop(X, W, IZero, X, 1, DLead(IMag(X)) - W - 3)

\* integer k nearest to x / ln 2 (exactness is irrelevant: any k that makes |x - k ln 2| <= 1
\* is sound, the nearest one makes the series short); |x| < 2^28 (Assert)
ExpK(x) ==
  IF DLeadZ(x) < -2 THEN 0
  ELSE IF DLead(x) > 27 THEN Assert(FALSE, "Reals!ExpK: |x| >= 2^28")
  ELSE LET L == NShr(Ln2Num, Ln2Bits - 40)
           s == x[2] + 40
           num == IF s >= 0 THEN NShl(x[1][2], s) ELSE x[1][2]
           den == IF s >= 0 THEN L ELSE NShl(L, -s)
           q == NToInt(NDiv(NAdd(NShl(num, 1), den), NShl(den, 1)))
       IN  IF x[1][1] = 1 THEN -q ELSE q
\* x = k ln 2 + r:  [k |-> k, s |-> enclosure of expm1(r)]  for a dyadic point x, |x| < 2^28
ExpParts(x, W) ==
  LET k == ExpK(x)
      r == IF k = 0 THEN IPt(x)
           ELSE IRound(ISub(IPt(x), IMul(IInt(k), Ln2T(W + 64), WX), WX), W)
  IN  [k |-> k, s |-> ExpM1S(r, W)]
\* exp(x) = 2^k (1 + expm1(r));   expm1(x) = expm1(r) if k = 0 else 2^k (1 + expm1(r)) - 1
\* (for k # 0 the result is outside (-0.3, 0.38): no cancellation worth speaking of)
ExpOfParts(p, W) == IScale(IAdd(IOne, p.s, W), p.k)
ExpM1OfParts(p, W) == IF p.k = 0 THEN p.s ELSE ISub(ExpOfParts(p, W), IOne, W)
ExpP(x, W) == ExpOfParts(ExpParts(x, W), W)
ExpM1P(x, W) == ExpM1OfParts(ExpParts(x, W), W)
\* increasing functions: end points
ExpI(X, W) == <<ExpP(X[1], W)[1], ExpP(X[2], W)[2]>>
ExpM1I(X, W) == <<ExpM1P(X[1], W)[1], ExpM1P(X[2], W)[2]>>

(*************************** sinh / cosh ***********************************)
\* with E = expm1(x), X = exp(x) = 1 + E:
\*   sinh x = (X - 1/X)/2 = (E + E/X)/2          (both terms have the sign of x: no cancellation)
\*   cosh x - 1 = (X + 1/X - 2)/2 = E^2 / (2 X)
SinhAbs(a, W) ==                               \* a >= 0
  LET p == ExpParts(a, W)
      e == ExpM1OfParts(p, W)
      x == ExpOfParts(p, W)
  IN  IScale(IAdd(e, IDiv(e, x, W), W), -1)
SinhP(x, W) == IF DSign(x) = 0 THEN IZero
               ELSE IF DSign(x) > 0 THEN SinhAbs(x, W) ELSE INeg(SinhAbs(DNeg(x), W))
CoshM1P(x, W) ==
  IF DSign(x) = 0 THEN IZero
  ELSE LET p == ExpParts(DAbs(x), W)
           e == ExpM1OfParts(p, W)
           xx == ExpOfParts(p, W)
       IN  IScale(IDiv(ISqr(e, W), xx, W), -1)
CoshP(x, W) == IAdd(IOne, CoshM1P(x, W), W)
SinhI(X, W) == <<SinhP(X[1], W)[1], SinhP(X[2], W)[2]>>       \* increasing
\* even, increasing in |x|
CoshM1I(X, W) ==
  IF IIsNonNeg(X) THEN <<CoshM1P(X[1], W)[1], CoshM1P(X[2], W)[2]>>
  ELSE IF IIsNonPos(X) THEN <<CoshM1P(X[2], W)[1], CoshM1P(X[1], W)[2]>>
  ELSE <<DZero, CoshM1P(IMag(X), W)[2]>>
CoshI(X, W) == IAdd(IOne, CoshM1I(X, W), W)

(*************************** sin / cos *************************************)
\* sin x = sum_{n=0..N} (-1)^n x^(2n+1)/(2n+1)! + R,  |R| <= |x|^(2N+3)/(2N+3)!  for EVERY real x:
\* Taylor's theorem with the Lagrange remainder of order 2N+3 (the term of order 2N+2 is zero)
\* and |sin^(k)| <= 1.  term = enclosure of (-1)^n x^(2n+1)/(2n+1)!;  mx2 = enclosure of -x^2.
RECURSIVE SinLoop(_, _, _, _, _, _)
SinLoop(mx2, W, sum, term, n, cut) ==
  IF DLeadZ(IMag(term)) < cut
  THEN IWiden(sum, IMag(term), W)
  ELSE SinLoop(mx2, W, IAdd(sum, term, W), IDivInt(IMul(term, mx2, W), (2 * n + 2) * (2 * n + 3), W), n + 1, cut)
\* any X with |x| <= 4 (only so that the number of terms stays small; Assert)
SinS(X, W) ==
  IF ~DLe(IMag(X), DFromInt(4)) THEN Assert(FALSE, "Reals!SinS: |x| > 4")
  ELSE IF DIsZero(IMag(X)) THEN IZero
  ELSE SinLoop(INeg(ISqr(X, W)), W, IZero, X, 0, DLead(IMag(X)) - W - 3)
\* cos x - 1 = sum_{n=1..N} (-1)^n x^(2n)/(2n)! + R,  |R| <= |x|^(2N+2)/(2N+2)!  (Lagrange, |cos^(k)| <= 1)
\* term = enclosure of (-1)^n x^(2n)/(2n)!
RECURSIVE CosLoop(_, _, _, _, _, _)
CosLoop(mx2, W, sum, term, n, cut) ==
  IF DLeadZ(IMag(term)) < cut
  THEN IWiden(sum, IMag(term), W)
  ELSE CosLoop(mx2, W, IAdd(sum, term, W), IDivInt(IMul(term, mx2, W), (2 * n + 1) * (2 * n + 2), W), n + 1, cut)
\* cos(x) - 1 with RELATIVE accuracy (~ -x^2/2 for tiny x); |x| <= 4
CosM1S(X, W) ==
  IF ~DLe(IMag(X), DFromInt(4)) THEN Assert(FALSE, "Reals!CosM1S: |x| > 4")
  ELSE IF DIsZero(IMag(X)) THEN IZero
  ELSE LET mx2 == INeg(ISqr(X, W))
           t1 == IScale(mx2, -1)
       IN  CosLoop(mx2, W, IZero, t1, 1, DLeadZ(IMag(t1)) - W - 3)
IClampUnit(X) == <<DMaxOf(X[1], DNeg(DOne)), DMinOf(X[2], DOne)>>      \* meet with [-1, 1]
CosS(X, W) == IClampUnit(IAdd(IOne, CosM1S(X, W), W))

\* nearest integer n to x / (pi/2) as a BigInt signed integer, from a 40-bit-relative
\* approximation (any n keeps the result sound; see TrigParts).  |x| < 2^1250.
TrigN(x) ==
  IF DLeadZ(x) < -1 THEN ZZero
  ELSE LET T == Max(DLead(x), 0) + 40
           P == NShr(PiNum, PiBits - T)
           s == x[2] + 1 + T
           num == IF s >= 0 THEN NShl(x[1][2], s) ELSE x[1][2]
           den == IF s >= 0 THEN P ELSE NShl(P, -s)
       IN  ZMk(x[1][1], NDiv(NAdd(NShl(num, 1), den), NShl(den, 1)))
\* X = n pi/2 + R for ONE integer n (chosen for the middle of X):
\*   [q |-> n mod 4, r |-> enclosure of {x - n pi/2 : x in X}, ok |-> the reduction is usable]
\* pi is taken with W + 80 + lead(x) bits so that r keeps W significant bits even when x is
\* within 2^-70 (relative) of a multiple of pi/2; beyond 1300 bits (|x| > 2^1250 - W) ok = FALSE.
TrigParts(X, W) ==
  LET c == DHalf(DAdd(X[1], X[2]))
      lead == Max(DLeadZ(IMag(X)), 0)
      ok == lead + W + 80 <= PiBits
      n == IF ok THEN TrigN(c) ELSE ZZero
      low == NToInt(NLow(n[2], 2))
      q == IF n[1] = 1 THEN (4 - low) % 4 ELSE low
      r == IF ZIsZero(n) THEN X
           ELSE IRound(ISub(X, IScale(IMul(IPt(<<n, 0>>), PiT(lead + W + 80), WX), -1), WX), W)
  IN  [q |-> q, r |-> r, ok |-> ok /\ DLe(IMag(r), DFromInt(4))]
IUnit == <<DNeg(DOne), DOne>>
SinI(X, W) ==
  LET p == TrigParts(X, W)
  IN  IF ~p.ok THEN IUnit                        \* interval too wide / argument too large: [-1, 1]
      ELSE IClampUnit(CASE p.q = 0 -> SinS(p.r, W) [] p.q = 1 -> CosS(p.r, W)
                        [] p.q = 2 -> INeg(SinS(p.r, W)) [] OTHER -> INeg(CosS(p.r, W)))
CosI(X, W) ==
  LET p == TrigParts(X, W)
  IN  IF ~p.ok THEN IUnit
      ELSE IClampUnit(CASE p.q = 0 -> CosS(p.r, W) [] p.q = 1 -> INeg(SinS(p.r, W))
                        [] p.q = 2 -> INeg(CosS(p.r, W)) [] OTHER -> SinS(p.r, W))
SinP(x, W) == SinI(IPt(x), W)
CosP(x, W) == CosI(IPt(x), W)

(*************************** atan ******************************************)
\* atan x = sum_{n=0..N} (-1)^n x^(2n+1)/(2n+1) + R,  |R| <= |x|^(2N+3)/(2N+3)  for |x| <= 1:
\* alternating series whose terms decrease in magnitude to 0 (Leibniz).
\* pw = enclosure of (-1)^n x^(2n+1);  the term is pw / (2n+1)
RECURSIVE AtanLoop(_, _, _, _, _, _)
AtanLoop(mx2, W, sum, pw, n, cut) ==
  LET term == IDivInt(pw, 2 * n + 1, W)
  IN  IF DLeadZ(IMag(term)) < cut
      THEN IWiden(sum, IMag(term), W)
      ELSE AtanLoop(mx2, W, IAdd(sum, term, W), IMul(pw, mx2, W), n + 1, cut)
\* precondition |x| <= 1/2 (Assert)
AtanS(X, W) ==
  IF ~DLe(IMag(X), DPow2(-1)) THEN Assert(FALSE, "Reals!AtanS: |x| > 1/2")
  ELSE IF DIsZero(IMag(X)) THEN IZero
  ELSE AtanLoop(INeg(ISqr(X, W)), W, IZero, X, 0, DLead(IMag(X)) - W - 3)
\* argument halving  atan y = 2 atan( y / (1 + sqrt(1 + y^2)) )  (tan(t/2) = sin t/(1 + cos t)),
\* evaluated in interval arithmetic, until |y| <= 1/8; at most 4 steps from |y| <= 1
RECURSIVE AtanHalve(_, _, _)
AtanHalve(Y, W, j) ==
  IF DLe(IMag(Y), DPow2(-3)) \/ j >= 6 THEN IScale(AtanS(Y, W), j)
  ELSE AtanHalve(IDiv(Y, IAdd(IOne, ISqrt(IAdd(IOne, ISqr(Y, W), W), W), W), W), W, j + 1)
\* Y within [-1, 1] (narrow or not: interval evaluation)
AtanUnitI(Y, W) == AtanHalve(Y, W, 0)
\* a dyadic point, any magnitude:  atan x = sign(x) (pi/2 - atan(1/|x|))  for |x| > 1
AtanP(x, W) ==
  IF DLe(DAbs(x), DOne) THEN AtanUnitI(IPt(x), W)
  ELSE LET a == ISub(IScale(PiT(W + 8), -1), AtanUnitI(IInv(IPt(DAbs(x)), W), W), W)
       IN  IF DSign(x) > 0 THEN a ELSE INeg(a)
AtanI(X, W) == <<AtanP(X[1], W)[1], AtanP(X[2], W)[2]>>      \* increasing
\* atan2(y, x) of dyadic points, (x, y) # (0, 0), value in (-pi, pi]:
\*   |y| <= |x|, x > 0:  atan(y/x);   x < 0:  +-pi + atan(y/x)  (sign of y; y = 0 gives pi)
\*   |y| >  |x|:         sign(y) pi/2 - atan(x/y)
Atan2P(y, x, W) ==
  IF DIsZero(x) /\ DIsZero(y) THEN Assert(FALSE, "Reals!Atan2P: (0, 0)")
  ELSE IF DLe(DAbs(y), DAbs(x)) THEN
    LET t == AtanUnitI(IDiv(IPt(y), IPt(x), W), W)
    IN  IF DSign(x) > 0 THEN t
        ELSE IF DSign(y) >= 0 THEN IAdd(PiT(W + 8), t, W) ELSE ISub(t, PiT(W + 8), W)
  ELSE
    LET t == AtanUnitI(IDiv(IPt(x), IPt(y), W), W)
        h == IScale(PiT(W + 8), -1)
    IN  IF DSign(y) > 0 THEN ISub(h, t, W) ELSE ISub(INeg(h), t, W)

(*************************** log1p / log ***********************************)
\* atanh z = sum_{n=0..N} z^(2n+1)/(2n+1) + R,
\*   |R| <= sum_{n>N} |z|^(2n+1)/(2n+1) <= |z|^(2N+3)/(2N+3) * 1/(1 - z^2) <= 2 |z|^(2N+3)/(2N+3)
\* for z^2 <= 1/2 (geometric majorant).  pw = enclosure of z^(2n+1)
RECURSIVE AtanhLoop(_, _, _, _, _, _)
AtanhLoop(z2, W, sum, pw, n, cut) ==
  LET term == IDivInt(pw, 2 * n + 1, W)
  IN  IF DLeadZ(IMag(term)) < cut
      THEN IWiden(sum, DShl(IMag(term), 1), W)
      ELSE AtanhLoop(z2, W, IAdd(sum, term, W), IMul(pw, z2, W), n + 1, cut)
\* precondition |z| <= 1/2 (Assert)
AtanhS(Z, W) ==
  IF ~DLe(IMag(Z), DPow2(-1)) THEN Assert(FALSE, "Reals!AtanhS: |z| > 1/2")
  ELSE IF DIsZero(IMag(Z)) THEN IZero
  ELSE AtanhLoop(ISqr(Z, W), W, IZero, Z, 0, DLead(IMag(Z)) - W - 3)
\* log1p y = 2 log1p( sqrt(1+y) - 1 ),  sqrt(1+y) - 1 = y / (1 + sqrt(1+y))  (no cancellation),
\* until |y| <= 2^-5;  then  log1p y = 2 atanh( y / (2 + y) ).   Y within [-1/2, 1/2] (Assert)
RECURSIVE Log1pHalve(_, _, _)
Log1pHalve(Y, W, j) ==
  IF DLe(IMag(Y), DPow2(-5)) \/ j >= 8
  THEN IScale(AtanhS(IDiv(Y, IAdd(ITwo, Y, W), W), W), j + 1)
  ELSE Log1pHalve(IDiv(Y, IAdd(IOne, ISqrt(IAdd(IOne, Y, W), W), W), W), W, j + 1)
Log1pUnitI(Y, W) ==
  IF ~DLe(IMag(Y), DPow2(-1)) THEN Assert(FALSE, "Reals!Log1pUnitI: |y| > 1/2")
  ELSE Log1pHalve(Y, W, 0)
\* log x for a dyadic point x > 0 (Assert):  x = m 2^k, m in [1/sqrt 2, sqrt 2],
\* log x = k ln 2 + log1p(m - 1)   (m - 1 in [-0.293, 0.415] exactly; |log m| <= |k| ln 2 / 2)
LogP(x, W) ==
  IF DSign(x) <= 0 THEN Assert(FALSE, "Reals!LogP: x <= 0")
  ELSE LET k0 == DLead(x)
           m0 == DShl(x, -k0)                                  \* in [1, 2)
           big == DLt(DTwo, DMul(m0, m0))                      \* m0 > sqrt 2
           k == IF big THEN k0 + 1 ELSE k0
           m == IF big THEN DShl(m0, -1) ELSE m0
           l == Log1pUnitI(IPt(DSub(m, DOne)), W)
       IN  IF k = 0 THEN l ELSE IAdd(IMul(IInt(k), Ln2T(W + 40), WX), l, W)
\* log1p y for a dyadic point y > -1 (Assert through LogP)
Log1pP(y, W) == IF DLe(DAbs(y), DPow2(-1)) THEN Log1pUnitI(IPt(y), W) ELSE LogP(DAdd(DOne, y), W)
LogI(X, W) == <<LogP(X[1], W)[1], LogP(X[2], W)[2]>>          \* increasing
Log1pI(X, W) == <<Log1pP(X[1], W)[1], Log1pP(X[2], W)[2]>>

(*************************** three-valued comparison ***********************)
\* position of a dyadic point d relative to the real number enclosed by X:
\*  "lt": d < t certainly,  "gt": d > t certainly,  "eq": X is the single point d,  "un": undecided
DPos(d, X) ==
  IF DLt(d, X[1]) THEN "lt" ELSE IF DLt(X[2], d) THEN "gt"
  ELSE IF DEq(X[1], X[2]) THEN "eq" ELSE "un"
=============================================================================
