--------------------------- MODULE Trace_Context ----------------------------
(***************************************************************************)
(* Validation of recorded construction histories of the real Context       *)
(* against FAContext.tla.  One ndjson line per construction; "Begin"       *)
(* starts a fresh Context.  Object ids are assigned by the driver by       *)
(* identity (`is`) in order of first appearance.  The REQUEST (kind,       *)
(* operand ids, Python value as type name + raw bits, like id) is what the *)
(* driver asked for; obs is read from the returned object.  The identity   *)
(* clauses compare requests with requests, never with what the returned    *)
(* object claims, otherwise aliasing would hide itself.                    *)
(*                                                                         *)
(* Leniencies (also in FAContext): NaN constants are unconstrained; the    *)
(* like of a constant is constrained by its type only for "must differ"    *)
(* and by its normalised object for "must be same".                        *)
(***************************************************************************)
EXTENDS FAContext, IEEE, TraceKit
VARIABLE l

\* a logged Python value -> the value record of FAContext.  num identifies the number up to
\* the sign of zero (so that PyEq is numeric equality), neg carries the signs of zeros.
CanonBits(b) == IF IsZero(F64, b) THEN <<>> ELSE b
ZeroSign(b) == IF IsZero(F64, b) THEN SignBit(F64, b) ELSE 0
ValOf(v) == [pt |-> v.pt, num |-> <<CanonBits(v.re), CanonBits(v.im), v.s>>,
             neg |-> 2 * ZeroSign(v.re) + ZeroSign(v.im), obj |-> v.obj, nan |-> v.nan]
ReqNode(e) == Node(e.kind, e.name, e.ty, IF e.kind = "constant" THEN ValOf(e.val) ELSE NoValue, e.like, e.ops)

ObsOK(e, r) ==
  /\ e.obs.kind = r.kind
  /\ r.kind = "symbol" => e.obs.name = r.name /\ e.obs.ty = r.ty
  /\ r.kind = "constant" =>
       /\ e.obs.val.pt = e.val.pt
       /\ e.obs.val.nan = e.val.nan
       /\ ~e.val.nan => (e.obs.val.re = e.val.re /\ e.obs.val.im = e.val.im /\ e.obs.val.s = e.val.s)
       /\ e.obs.like_ty \in LikeTys(nodes, r.like)
  /\ r.kind \notin {"symbol", "constant"} => e.obs.ops = r.ops

\* nodes[i] here is the spec's record of the request that first returned object i
Fails(e) ==
  IF e.op = "Begin" THEN {}
  ELSE LET r == ReqNode(e)
           rn == Normalize(nodes, r)
           existing == e.res <= Len(nodes)
       IN  (IF e.raised # "" THEN {"construct_raised"} ELSE {})
      \cup (IF e.raised = "" /\ ~ObsOK(e, r) THEN {"structure"} ELSE {})
      \cup (IF e.raised = "" /\ existing /\ Differ(nodes, nodes[e.res], rn) THEN {"aliased"} ELSE {})
      \cup (IF e.raised = "" /\ ~existing /\ \E j \in 1..Len(nodes) : Same(nodes, nodes[j], rn)
              THEN {"duplicated"} ELSE {})
      \cup (IF e.raised = "" /\ ~existing /\ e.res # Len(nodes) + 1 THEN {"harness_ids"} ELSE {})

\* drift: the model of the key scheme predicts a different object than the code returned
Drift(e) == e.op # "Begin" /\ e.raised = "" /\ e.res # ResultOf(nodes, Normalize(nodes, ReqNode(e)))

TInit == l = 1 /\ nodes = <<>> /\ hist = <<>> /\ nconst = 0
TNext ==
  /\ l <= Len(Trace)
  /\ LET e == Trace[l]
     IN  /\ Report(e, Fails(e))
         /\ IF Drift(e) THEN Note(e, "drift") ELSE TRUE
         /\ nodes' = IF e.op = "Begin" THEN <<>>
                     ELSE IF e.raised = "" /\ e.res = Len(nodes) + 1
                          THEN Append(nodes, Normalize(nodes, ReqNode(e))) ELSE nodes
  /\ l' = l + 1
  /\ UNCHANGED <<hist, nconst>>
TSpec == TInit /\ [][TNext]_<<vars, l>>
=============================================================================
