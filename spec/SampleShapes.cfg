\* U2 of C19: every argument shape (22 bounds shapes x flags x 7 size classes x 3 dtypes)
CONSTANTS
  SizeClasses = {"min", "min1", "s10", "s11", "s64", "s1000", "all"}
  Fmts = {"float16", "float32", "float64"}
SPECIFICATION Spec
INVARIANT Printed
CHECK_DEADLOCK FALSE
