------------------------------ MODULE Trace_Ulp -----------------------------
(***************************************************************************)
(* Validation of recorded calls of utils.diff_ulp / utils.ulp against      *)
(* Ulp.tla (property C14).  One ndjson line per event.  Floats are raw bit *)
(* patterns (BigInt naturals), reported distances are BigInt signed        *)
(* integers <<neg, mag>> (so a negative result is expressible and fails).  *)
(* Every clause is guarded by the domain of the property: all operands     *)
(* finite; an event with a non-finite operand has no obligations.          *)
(*                                                                         *)
(* Events (field fmt is "float16" / "float32" / "float64"; exc is the name *)
(* of an exception raised by the call, "" if none):                        *)
(*  op "d"   x, y, flush, r = d(x,y), rr = d(y,x), wx, wy                  *)
(*           flush = 0:  r = rr = UlpDist(x, y)                    [dist]  *)
(*           flush = 1:  r = rr = FlushDist(x, wx, y, wy)    [flush_dist]  *)
(*           with wx = recorded d(x, +0) in flush mode when x is subnormal *)
(*           (must be 0 or 1)                            [collapse_image]  *)
(*  op "dc"  complex: xr, xi, yr, yi, flush, r, rr, wxr, wxi, wyr, wyi     *)
(*           r = rr = max of the component distances         [complex_max] *)
(*  op "chain" xs (monotone non-decreasing by value - premise), flush, ws, *)
(*           cons[j] = d(xs[j], xs[j+1]), first[j] = d(xs[1], xs[j+1])     *)
(*           (first[1] is the same recorded call as cons[1]),              *)
(*           back = d(xs[n], xs[1]), nb (1: xs[j+1] is the next value      *)
(*           above xs[j] - premise)                                        *)
(*           every recorded distance is the specified one  [dist/flush_dist]*)
(*           first[j] = first[j-1] + cons[j]                    [additive] *)
(*           back = first[n-1]                                 [symmetric] *)
(*           nb = 1, flush = 0: first[j] = j              [kth_neighbour]  *)
(*  op "collapse" xs subnormals of one sign with ascending magnitude       *)
(*           (premise), ws[j] = d(xs[j], +0) in flush mode                 *)
(*           every ws[j] is 0 or 1                       [collapse_image]  *)
(*           ws is non-decreasing                     [collapse_monotone]  *)
(*  op "ulp" x, u = ulp(x), un = ulp(-x)                                   *)
(*           u finite                                       [ulp_finite]   *)
(*           x >= 0: x (+) u = NextUp(x)                        [ulp_up]   *)
(*           x <  0: x (-) u = NextDown(x)                    [ulp_down]   *)
(*           un = u                                            [ulp_sym]   *)
(*           u differs from the frexp/ldexp transcription: drift_ulp (a    *)
(*           note about the model, never a failure)                        *)
(* Clauses named mach_* are failed PREMISES (the driver built an event     *)
(* that does not have the shape it claims): machinery failures.            *)
(***************************************************************************)
EXTENDS Ulp, TraceKit
VARIABLE l

Name(bad, n) == IF bad THEN {n} ELSE {}
\* a reported distance as a natural; a negative report becomes a non-number
RNat(r) == IF r[1] = 0 THEN r[2] ELSE <<-1>>
WOf(e, k) == IF Has(e, k) THEN RNat(e[k]) ELSE <<>>

\* specified distance and the set of failing clause names for one recorded d(a, b)
WitnessBad(f, a, wa) == IsSubnormal(f, a) /\ ~IsWitness(wa)
Expected(f, flush, a, wa, b, wb) ==
  IF flush = 0 THEN UlpDist(f, a, b) ELSE FlushDist(f, a, wa, b, wb)
DistClause(flush) == IF flush = 0 THEN "dist" ELSE "flush_dist"

\* a natural rounded to 53 significant bits (nearest, ties to even): what a distance becomes when NumPy
\* stores it in a float64 array (the known finding of the ndarray path)
Round53(d) ==
  LET bl == NBitLen(d)
  IN  IF bl <= 53 THEN d
      ELSE LET sh == bl - 53
               q == NShr(d, sh)
               rem == NLow(d, sh)
               c == NCmp(rem, NPow2(sh - 1))
               up == c > 0 \/ (c = 0 /\ NIsOdd(q))
           IN  NShl(IF up THEN NAdd(q, NOne) ELSE q, sh)
\* a wrong distance that is exactly the float64 rounding of the right one is keyed apart (suffix _f64rounded)
DistName(flush, r, rr, d) ==
  IF r = d /\ rr = d THEN {}
  ELSE IF r \in {d, Round53(d)} /\ rr \in {d, Round53(d)} THEN {DistClause(flush) \o "_f64rounded"}
  ELSE {DistClause(flush)}

FailsD(e) ==
  LET f == FmtOf(e.fmt)
      wx == WOf(e, "wx")  wy == WOf(e, "wy")
  IN  IF ~(IsFinite(f, e.x) /\ IsFinite(f, e.y)) THEN {}
      ELSE IF e.exc # "" THEN {"raised"}
      ELSE IF e.flush = 1 /\ (WitnessBad(f, e.x, wx) \/ WitnessBad(f, e.y, wy)) THEN {"collapse_image"}
      ELSE LET d == Expected(f, e.flush, e.x, wx, e.y, wy)
           IN  DistName(e.flush, RNat(e.r), RNat(e.rr), d)

FailsDC(e) ==
  LET f == FmtOf(e.fmt)
      fin == IsFinite(f, e.xr) /\ IsFinite(f, e.xi) /\ IsFinite(f, e.yr) /\ IsFinite(f, e.yi)
      wxr == WOf(e, "wxr")  wxi == WOf(e, "wxi")  wyr == WOf(e, "wyr")  wyi == WOf(e, "wyi")
  IN  IF ~fin THEN {}
      ELSE IF e.exc # "" THEN {"raised"}
      ELSE IF e.flush = 1 /\ (WitnessBad(f, e.xr, wxr) \/ WitnessBad(f, e.xi, wxi)
                               \/ WitnessBad(f, e.yr, wyr) \/ WitnessBad(f, e.yi, wyi)) THEN {"collapse_image"}
      ELSE LET d == NMax(Expected(f, e.flush, e.xr, wxr, e.yr, wyr),
                         Expected(f, e.flush, e.xi, wxi, e.yi, wyi))
           IN  Name(RNat(e.r) # d \/ RNat(e.rr) # d, "complex_max")

FailsChain(e) ==
  LET f == FmtOf(e.fmt)
      xs == e.xs
      n == Len(xs)
      W(j) == IF Has(e, "ws") THEN RNat(e.ws[j]) ELSE <<>>
      Exp(i, j) == Expected(f, e.flush, xs[i], W(i), xs[j], W(j))
      fin == \A j \in 1..n : IsFinite(f, xs[j])
  IN  IF ~fin THEN {}
      ELSE IF e.exc # "" THEN {"raised"}
      ELSE IF \E j \in 1..(n - 1) : ~FLe(f, xs[j], xs[j + 1]) THEN {"mach_chain_not_monotone"}
      ELSE IF e.nb = 1 /\ \E j \in 1..(n - 1) : ~FEq(f, xs[j + 1], NextUp(f, xs[j])) THEN {"mach_chain_not_neighbours"}
      ELSE IF e.flush = 1 /\ \E j \in 1..n : WitnessBad(f, xs[j], W(j)) THEN {"collapse_image"}
      ELSE
           Name(\/ \E j \in 1..(n - 1) : RNat(e.cons[j]) # Exp(j, j + 1)
                \/ \E j \in 1..(n - 1) : RNat(e.first[j]) # Exp(1, j + 1)
                \/ RNat(e.back) # Exp(n, 1), DistClause(e.flush))
      \cup Name(\E j \in 2..(n - 1) :
                     \/ e.first[j][1] # 0 \/ e.first[j - 1][1] # 0 \/ e.cons[j][1] # 0
                     \/ e.first[j][2] # NAdd(e.first[j - 1][2], e.cons[j][2]), "additive")
      \cup Name(e.back # e.first[n - 1], "symmetric")
      \cup Name(e.nb = 1 /\ e.flush = 0 /\ \E j \in 1..(n - 1) : RNat(e.first[j]) # NFromInt(j), "kth_neighbour")

FailsCollapse(e) ==
  LET f == FmtOf(e.fmt)
      xs == e.xs
      n == Len(xs)
  IN  IF e.exc # "" THEN {"raised"}
      ELSE IF \/ \E j \in 1..n : ~IsSubnormal(f, xs[j]) \/ SignBit(f, xs[j]) # SignBit(f, xs[1])
              \/ \E j \in 1..(n - 1) : NCmp(Mag(f, xs[j]), Mag(f, xs[j + 1])) >= 0
           THEN {"mach_collapse_not_ascending"}
      ELSE Name(\E j \in 1..n : ~IsWitness(RNat(e.ws[j])), "collapse_image")
      \cup Name(\E j \in 1..(n - 1) : RNat(e.ws[j]) = <<1>> /\ RNat(e.ws[j + 1]) = <<>>, "collapse_monotone")

FailsUlp(e) ==
  LET f == FmtOf(e.fmt)
      x == e.x  u == e.u
  IN  IF ~IsFinite(f, x) THEN {}
      ELSE IF e.exc # "" THEN {"raised"}
      ELSE IF ~IsFinite(f, u) THEN {"ulp_finite"}
      ELSE Name(NonNeg(f, x) /\ ~UlpUpOK(f, x, u), "ulp_up")
      \cup Name(~NonNeg(f, x) /\ ~UlpDownOK(f, x, u), "ulp_down")
      \cup Name(e.un # u, "ulp_sym")
      \cup Name(u # CodeUlp(f, x), "drift_ulp")

Fails(e) ==
  CASE e.op = "d" -> FailsD(e)
    [] e.op = "dc" -> FailsDC(e)
    [] e.op = "chain" -> FailsChain(e)
    [] e.op = "collapse" -> FailsCollapse(e)
    [] e.op = "ulp" -> FailsUlp(e)
    [] OTHER -> {"mach_unknown_op"}

Init == l = 1
Next == /\ l <= Len(Trace)
        /\ Report(Trace[l], Fails(Trace[l]))
        /\ l' = l + 1
Spec == Init /\ [][Next]_l
=============================================================================
