\* stage 1 of U1 (C11): arithmetic tables of T3 = [p = 3, emax = 3, w = 6]
SPECIFICATION Spec
CONSTANT Fmt = "T3"
INVARIANT Emit
CHECK_DEADLOCK FALSE
